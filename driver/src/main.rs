// mirfacts: a rustc_private driver that dumps the type-checked, resolved program
// (MIR at -Zmir-opt-level=0, ADT layouts, evaluated constants, resolved callees)
// of selected crates as one JSON file per crate.  It is injected with
// RUSTC_WRAPPER so that the dependency crates are covered too.
//
// Environment:
//   MIRFACTS_OUT     directory to write <crate>.json into (required to dump)
//   MIRFACTS_CRATES  comma separated crate names to dump
//
// One write per process.  No analysis happens here: this is the fact extractor (E0).
#![feature(rustc_private)]
#![feature(box_patterns)]

extern crate rustc_abi;
extern crate rustc_driver;
extern crate rustc_hir;
extern crate rustc_interface;
extern crate rustc_middle;
extern crate rustc_session;
extern crate rustc_span;

use rustc_driver::{Callbacks, Compilation};
use rustc_hir::def::DefKind;
use rustc_hir::def_id::{DefId, LOCAL_CRATE};
use rustc_interface::interface::Compiler;
use rustc_middle::mir::{self, *};
use rustc_middle::ty::print::{with_crate_prefix, with_no_trimmed_paths, with_no_visible_paths};
use rustc_middle::ty::{self, GenericArgKind, GenericArgsRef, Instance, Ty, TyCtxt, TypingEnv};
use rustc_span::Span;
use std::fmt::Write as _;

// ------------------------------------------------------------------ JSON

enum J {
    Null,
    B(bool),
    I(i128),
    S(String),
    A(Vec<J>),
    O(Vec<(&'static str, J)>),
}

fn esc(s: &str, out: &mut String) {
    out.push('"');
    for c in s.chars() {
        match c {
            '"' => out.push_str("\\\""),
            '\\' => out.push_str("\\\\"),
            '\n' => out.push_str("\\n"),
            '\r' => out.push_str("\\r"),
            '\t' => out.push_str("\\t"),
            c if (c as u32) < 0x20 => {
                let _ = write!(out, "\\u{:04x}", c as u32);
            }
            c => out.push(c),
        }
    }
    out.push('"');
}

impl J {
    fn write(&self, out: &mut String) {
        match self {
            J::Null => out.push_str("null"),
            J::B(b) => out.push_str(if *b { "true" } else { "false" }),
            J::I(i) => {
                let _ = write!(out, "{}", i);
            }
            J::S(s) => esc(s, out),
            J::A(v) => {
                out.push('[');
                for (i, x) in v.iter().enumerate() {
                    if i > 0 {
                        out.push(',');
                    }
                    x.write(out);
                }
                out.push(']');
            }
            J::O(v) => {
                out.push('{');
                for (i, (k, x)) in v.iter().enumerate() {
                    if i > 0 {
                        out.push(',');
                    }
                    esc(k, out);
                    out.push(':');
                    x.write(out);
                }
                out.push('}');
            }
        }
    }
}

fn s<T: Into<String>>(x: T) -> J {
    J::S(x.into())
}

// ------------------------------------------------------------------ context

struct Cx<'tcx> {
    tcx: TyCtxt<'tcx>,
    krate: String,
}

impl<'tcx> Cx<'tcx> {
    fn fix(&self, p: String) -> String {
        // local paths are printed as `crate::…`; make them globally unique
        p.replace("crate::", &format!("{}::", self.krate))
    }

    fn path(&self, did: DefId) -> String {
        let p = with_no_visible_paths!(with_no_trimmed_paths!(with_crate_prefix!(self.tcx.def_path_str(did))));
        self.fix(p)
    }

    fn path_args(&self, did: DefId, args: GenericArgsRef<'tcx>) -> String {
        let p = with_no_visible_paths!(with_no_trimmed_paths!(with_crate_prefix!(self
            .tcx
            .def_path_str_with_args(did, args))));
        self.fix(p)
    }

    fn ty_str(&self, t: Ty<'tcx>) -> String {
        let p = with_no_visible_paths!(with_no_trimmed_paths!(with_crate_prefix!(format!("{}", t))));
        self.fix(p)
    }

    fn span(&self, sp: Span) -> J {
        let sm = self.tcx.sess.source_map();
        let sp = sp.source_callsite();
        let lo = sm.lookup_char_pos(sp.lo());
        let name = format!("{}", lo.file.name.prefer_local_unconditionally());
        J::S(format!("{}:{}:{}", name, lo.line, lo.col.0 + 1))
    }

    fn ty(&self, t: Ty<'tcx>) -> J {
        let mut o: Vec<(&'static str, J)> = Vec::new();
        match t.kind() {
            ty::Bool => o.push(("k", s("bool"))),
            ty::Char => o.push(("k", s("char"))),
            ty::Int(i) => {
                o.push(("k", s("int")));
                o.push(("n", s(i.name_str())));
            }
            ty::Uint(u) => {
                o.push(("k", s("uint")));
                o.push(("n", s(u.name_str())));
            }
            ty::Float(f) => {
                o.push(("k", s("float")));
                o.push(("n", s(f.name_str())));
            }
            ty::Adt(def, args) => {
                o.push(("k", s("adt")));
                o.push(("path", s(self.path(def.did()))));
                o.push((
                    "adt_kind",
                    s(if def.is_enum() {
                        "enum"
                    } else if def.is_union() {
                        "union"
                    } else {
                        "struct"
                    }),
                ));
                o.push(("args", self.generic_args(args, None)));
            }
            ty::Ref(_, inner, m) => {
                o.push(("k", s("ref")));
                o.push(("mut", J::B(m.is_mut())));
                o.push(("ty", self.ty(*inner)));
            }
            ty::RawPtr(inner, m) => {
                o.push(("k", s("ptr")));
                o.push(("mut", J::B(m.is_mut())));
                o.push(("ty", self.ty(*inner)));
            }
            ty::Tuple(ts) => {
                o.push(("k", s("tuple")));
                o.push(("tys", J::A(ts.iter().map(|t| self.ty(t)).collect())));
            }
            ty::Array(inner, len) => {
                o.push(("k", s("array")));
                o.push(("ty", self.ty(*inner)));
                o.push(("len", self.ty_const(*len, None)));
            }
            ty::Slice(inner) => {
                o.push(("k", s("slice")));
                o.push(("ty", self.ty(*inner)));
            }
            ty::Str => o.push(("k", s("str"))),
            ty::Never => o.push(("k", s("never"))),
            ty::FnDef(did, args) => {
                o.push(("k", s("fndef")));
                o.push(("path", s(self.path(*did))));
                o.push(("args", self.generic_args(args, None)));
            }
            ty::Closure(did, _) => {
                o.push(("k", s("closure")));
                o.push(("path", s(self.path(*did))));
            }
            ty::Param(p) => {
                o.push(("k", s("param")));
                o.push(("name", s(p.name.as_str())));
            }
            _ => o.push(("k", s("other"))),
        }
        o.push(("s", s(self.ty_str(t))));
        J::O(o)
    }

    fn scalar_int(&self, si: ty::ScalarInt, t: Ty<'tcx>) -> J {
        let size = si.size();
        let bits = si.to_bits(size);
        match t.kind() {
            ty::Bool => J::O(vec![("bool", J::B(bits != 0))]),
            ty::Int(_) => {
                let v = size.sign_extend(bits) as i128;
                J::O(vec![("int", J::I(v))])
            }
            ty::Uint(_) => J::O(vec![("int", J::S(format!("{}", bits)))]),
            ty::Float(f) => J::O(vec![
                ("float_bits", J::S(format!("{}", bits))),
                ("w", J::I(f.bit_width() as i128)),
            ]),
            ty::Char => J::O(vec![("char", J::I(bits as i128))]),
            _ => J::O(vec![("bits", J::S(format!("{}", bits))), ("size", J::I(size.bytes() as i128))]),
        }
    }

    fn ty_const(&self, c: ty::Const<'tcx>, env: Option<TypingEnv<'tcx>>) -> J {
        match c.kind() {
            ty::ConstKind::Param(p) => J::O(vec![("param", s(p.name.as_str()))]),
            ty::ConstKind::Value(cv) => {
                if let Some(si) = cv.try_to_leaf() {
                    self.scalar_int(si, cv.ty)
                } else {
                    J::O(vec![("unknown", s(format!("{:?}", c)))])
                }
            }
            ty::ConstKind::Unevaluated(uv) => {
                if let Some(env) = env {
                    let mc = mir::Const::Unevaluated(
                        mir::UnevaluatedConst { def: uv.def, args: uv.args, promoted: None },
                        self.tcx.type_of(uv.def).instantiate(self.tcx, uv.args).skip_norm_wip(),
                    );
                    return self.mir_const(mc, env, rustc_span::DUMMY_SP);
                }
                if uv.args.is_empty() {
                    if let Ok(cv) = self.tcx.const_eval_poly(uv.def) {
                        let t = self.tcx.type_of(uv.def).instantiate_identity().skip_norm_wip();
                        return self.const_value(cv, t);
                    }
                }
                J::O(vec![("unevaluated", s(self.path(uv.def)))])
            }
            _ => J::O(vec![("unknown", s(format!("{:?}", c)))]),
        }
    }

    fn generic_args(&self, args: GenericArgsRef<'tcx>, env: Option<TypingEnv<'tcx>>) -> J {
        let mut v = Vec::new();
        for a in args.iter() {
            match a.kind() {
                GenericArgKind::Lifetime(_) => v.push(J::O(vec![("lt", J::B(true))])),
                GenericArgKind::Type(t) => v.push(J::O(vec![("ty", self.ty(t))])),
                GenericArgKind::Const(c) => v.push(J::O(vec![("const", self.ty_const(c, env))])),
            }
        }
        J::A(v)
    }

    fn const_value(&self, cv: ConstValue, t: Ty<'tcx>) -> J {
        match cv {
            ConstValue::Scalar(mir::interpret::Scalar::Int(si)) => self.scalar_int(si, t),
            ConstValue::Scalar(mir::interpret::Scalar::Ptr(ptr, _)) => {
                // a reference to a constant allocation; try to read a small scalar pointee
                let (prov, off) = ptr.prov_and_relative_offset();
                let aid = prov.alloc_id();
                if let Some(mir::interpret::GlobalAlloc::Static(sdid)) = self.tcx.try_get_global_alloc(aid) {
                    // the address of a `static`: an immutable one without interior mutability always holds its initialiser,
                    // which is emitted in the "consts" section under the static's path
                    let st = self.tcx.type_of(sdid).instantiate_identity().skip_norm_wip();
                    let frozen = st.is_freeze(self.tcx, TypingEnv::fully_monomorphized());
                    if !self.tcx.is_mutable_static(sdid) && frozen && off.bytes() == 0 {
                        return J::O(vec![("static", s(self.path(sdid)))]);
                    }
                    return J::O(vec![("static_mut", s(self.path(sdid)))]);
                }
                if let ty::Ref(_, inner, _) = t.kind() {
                    if let Some(v) = self.read_alloc(aid, off.bytes() as usize, *inner) {
                        return J::O(vec![("ref_to", v)]);
                    }
                }
                J::O(vec![("ptr", s(format!("{:?}", aid)))])
            }
            ConstValue::ZeroSized => match t.kind() {
                ty::FnDef(did, args) => J::O(vec![
                    ("fn", s(self.path(*did))),
                    ("args", self.generic_args(args, None)),
                ]),
                _ => J::O(vec![("zst", J::B(true))]),
            },
            ConstValue::Slice { .. } => J::O(vec![("slice_const", J::B(true))]),
            ConstValue::Indirect { alloc_id, offset } => {
                if let Some(v) = self.read_alloc(alloc_id, offset.bytes() as usize, t) {
                    v
                } else {
                    J::O(vec![("indirect", s(format!("{:?}", alloc_id)))])
                }
            }
        }
    }

    // Read a value of type `t` out of a constant allocation (scalars, arrays of scalars,
    // structs/tuples of those).  Returns None when anything is not plain bytes.
    fn read_alloc(&self, aid: mir::interpret::AllocId, off: usize, t: Ty<'tcx>) -> Option<J> {
        let ga = self.tcx.try_get_global_alloc(aid)?;
        let alloc = match ga {
            mir::interpret::GlobalAlloc::Memory(a) => a,
            _ => return None,
        };
        self.read_allocation(alloc.inner(), off, t)
    }

    fn read_allocation(&self, alloc: &mir::interpret::Allocation, off: usize, t: Ty<'tcx>) -> Option<J> {
        let env = TypingEnv::fully_monomorphized();
        let layout = self.tcx.layout_of(env.as_query_input(t)).ok()?;
        let size = layout.size.bytes() as usize;
        if off + size > alloc.len() {
            return None;
        }
        if !alloc.provenance().ptrs().is_empty() {
            return None;
        }
        let bytes = alloc.inspect_with_uninit_and_ptr_outside_interpreter(off..off + size);
        self.read_bytes(bytes, t)
    }

    fn read_bytes(&self, bytes: &[u8], t: Ty<'tcx>) -> Option<J> {
        let env = TypingEnv::fully_monomorphized();
        match t.kind() {
            ty::Bool | ty::Int(_) | ty::Uint(_) | ty::Float(_) | ty::Char => {
                let mut v: u128 = 0;
                for (i, b) in bytes.iter().enumerate() {
                    v |= (*b as u128) << (8 * i);
                }
                let size = rustc_abi::Size::from_bytes(bytes.len() as u64);
                let si = ty::ScalarInt::try_from_uint(v, size)?;
                Some(self.scalar_int(si, t))
            }
            ty::Array(inner, _) => {
                let il = self.tcx.layout_of(env.as_query_input(*inner)).ok()?;
                let isz = il.size.bytes() as usize;
                if isz == 0 {
                    return None;
                }
                let n = bytes.len() / isz;
                if n > 4096 {
                    return None;
                }
                let mut v = Vec::with_capacity(n);
                for i in 0..n {
                    v.push(self.read_bytes(&bytes[i * isz..(i + 1) * isz], *inner)?);
                }
                Some(J::O(vec![("array", J::A(v))]))
            }
            ty::Adt(def, args) if def.is_struct() => {
                let layout = self.tcx.layout_of(env.as_query_input(t)).ok()?;
                let mut v = Vec::new();
                for (i, f) in def.non_enum_variant().fields.iter().enumerate() {
                    let ft = f.ty(self.tcx, args);
                    let fl = self.tcx.layout_of(env.as_query_input(ft)).ok()?;
                    let o = layout.fields.offset(i).bytes() as usize;
                    let sz = fl.size.bytes() as usize;
                    v.push(self.read_bytes(&bytes[o..o + sz], ft)?);
                }
                Some(J::O(vec![("struct", s(self.path(def.did()))), ("fields", J::A(v))]))
            }
            ty::Tuple(tys) if !tys.is_empty() => {
                let layout = self.tcx.layout_of(env.as_query_input(t)).ok()?;
                let mut v = Vec::new();
                for (i, ft) in tys.iter().enumerate() {
                    let fl = self.tcx.layout_of(env.as_query_input(ft)).ok()?;
                    let o = layout.fields.offset(i).bytes() as usize;
                    let sz = fl.size.bytes() as usize;
                    if o + sz > bytes.len() {
                        return None;
                    }
                    v.push(self.read_bytes(&bytes[o..o + sz], ft)?);
                }
                Some(J::O(vec![("tuple", J::A(v))]))
            }
            ty::Adt(def, _) if def.is_enum() && def.variants().iter().all(|v| v.fields.is_empty()) && !bytes.is_empty() && bytes.len() <= 16 => {
                // field-less enum: the stored tag is the discriminant (a table of states, a table of actions)
                let mut v: u128 = 0;
                for (i, b) in bytes.iter().enumerate() {
                    v |= (*b as u128) << (8 * i);
                }
                Some(J::O(vec![("bits", J::S(format!("{}", v))), ("size", J::I(bytes.len() as i128))]))
            }
            _ => None,
        }
    }

    fn mir_const(&self, c: mir::Const<'tcx>, env: TypingEnv<'tcx>, sp: Span) -> J {
        let t = c.ty();
        let mut o: Vec<(&'static str, J)> = Vec::new();
        // provenance of the constant (named const / promoted / const generic)
        match c {
            mir::Const::Unevaluated(uv, _) => {
                if let Some(p) = uv.promoted {
                    o.push(("promoted", J::I(p.as_u32() as i128)));
                } else {
                    o.push(("name", s(self.path(uv.def))));
                }
            }
            mir::Const::Ty(_, tc) => {
                if let ty::ConstKind::Param(p) = tc.kind() {
                    o.push(("param", s(p.name.as_str())));
                }
            }
            _ => {}
        }
        let is_big_table = matches!(t.kind(), ty::Array(..))
            && matches!(c, mir::Const::Unevaluated(uv, _) if uv.promoted.is_none());
        if !matches!(c, mir::Const::Ty(_, tc) if matches!(tc.kind(), ty::ConstKind::Param(_))) {
            if is_big_table {
                // the table data is emitted once in the "consts" section under this name
                o.push(("val", J::O(vec![("table", J::B(true))])));
            } else {
                match c.eval(self.tcx, env, sp) {
                    Ok(cv) => o.push(("val", self.const_value(cv, t))),
                    Err(_) => o.push(("val", J::O(vec![("too_generic", s(format!("{:?}", c)))]))),
                }
            }
        }
        o.push(("ty", self.ty(t)));
        J::O(o)
    }
}

// ------------------------------------------------------------------ bodies

struct BodyCx<'a, 'tcx> {
    cx: &'a Cx<'tcx>,
    body: &'a Body<'tcx>,
    owner: DefId,
    env: TypingEnv<'tcx>,
}

impl<'a, 'tcx> BodyCx<'a, 'tcx> {
    fn place(&self, p: &Place<'tcx>) -> J {
        let tcx = self.cx.tcx;
        let mut pty = mir::PlaceTy::from_ty(self.body.local_decls[p.local].ty);
        let mut proj = Vec::new();
        for elem in p.projection.iter() {
            let j = match elem {
                ProjectionElem::Deref => J::O(vec![("k", s("deref"))]),
                ProjectionElem::Field(f, fty) => {
                    let mut name = J::Null;
                    if let ty::Adt(def, _) = pty.ty.kind() {
                        let vi = pty.variant_index.unwrap_or(rustc_abi::FIRST_VARIANT);
                        if def.is_enum() || def.is_struct() || def.is_union() {
                            let v = def.variant(vi);
                            if f.as_usize() < v.fields.len() {
                                name = s(v.fields[f].name.as_str());
                            }
                        }
                    }
                    J::O(vec![
                        ("k", s("field")),
                        ("i", J::I(f.as_usize() as i128)),
                        ("name", name),
                        ("ty", self.cx.ty(fty)),
                    ])
                }
                ProjectionElem::Downcast(sym, vi) => J::O(vec![
                    ("k", s("downcast")),
                    ("v", J::I(vi.as_usize() as i128)),
                    ("name", sym.map(|x| s(x.as_str())).unwrap_or(J::Null)),
                ]),
                ProjectionElem::Index(l) => {
                    J::O(vec![("k", s("index")), ("l", J::I(l.as_usize() as i128))])
                }
                ProjectionElem::ConstantIndex { offset, min_length, from_end } => J::O(vec![
                    ("k", s("constindex")),
                    ("offset", J::I(offset as i128)),
                    ("min_length", J::I(min_length as i128)),
                    ("from_end", J::B(from_end)),
                ]),
                ProjectionElem::Subslice { from, to, from_end } => J::O(vec![
                    ("k", s("subslice")),
                    ("from", J::I(from as i128)),
                    ("to", J::I(to as i128)),
                    ("from_end", J::B(from_end)),
                ]),
                ProjectionElem::OpaqueCast(_) => J::O(vec![("k", s("opaquecast"))]),
                ProjectionElem::UnwrapUnsafeBinder(_) => J::O(vec![("k", s("unwrapbinder"))]),
            };
            proj.push(j);
            pty = pty.projection_ty(tcx, elem);
        }
        J::O(vec![("l", J::I(p.local.as_usize() as i128)), ("p", J::A(proj))])
    }

    fn operand(&self, op: &Operand<'tcx>) -> J {
        match op {
            Operand::Copy(p) => J::O(vec![("k", s("copy")), ("place", self.place(p))]),
            Operand::Move(p) => J::O(vec![("k", s("move")), ("place", self.place(p))]),
            Operand::Constant(box c) => {
                J::O(vec![("k", s("const")), ("c", self.cx.mir_const(c.const_, self.env, c.span))])
            }
            Operand::RuntimeChecks(rc) => {
                J::O(vec![("k", s("runtime_checks")), ("which", s(format!("{:?}", rc)))])
            }
        }
    }

    fn rvalue(&self, rv: &Rvalue<'tcx>) -> J {
        match rv {
            Rvalue::Use(op, _) => J::O(vec![("k", s("use")), ("op", self.operand(op))]),
            Rvalue::Repeat(op, n) => J::O(vec![
                ("k", s("repeat")),
                ("op", self.operand(op)),
                ("n", self.cx.ty_const(*n, Some(self.env))),
            ]),
            Rvalue::Ref(_, bk, p) => J::O(vec![
                ("k", s("ref")),
                ("mut", J::B(matches!(bk, BorrowKind::Mut { .. }))),
                ("fake", J::B(matches!(bk, BorrowKind::Fake(_)))),
                ("place", self.place(p)),
            ]),
            Rvalue::RawPtr(k, p) => J::O(vec![
                ("k", s("rawptr")),
                ("kind", s(format!("{:?}", k))),
                ("place", self.place(p)),
            ]),
            Rvalue::Cast(ck, op, t) => J::O(vec![
                ("k", s("cast")),
                ("kind", s(format!("{:?}", ck))),
                ("op", self.operand(op)),
                ("from", self.cx.ty(op.ty(&self.body.local_decls, self.cx.tcx))),
                ("ty", self.cx.ty(*t)),
            ]),
            Rvalue::BinaryOp(op, box (a, b)) => J::O(vec![
                ("k", s("binop")),
                ("op", s(format!("{:?}", op))),
                ("a", self.operand(a)),
                ("b", self.operand(b)),
                ("ty", self.cx.ty(a.ty(&self.body.local_decls, self.cx.tcx))),
            ]),
            Rvalue::UnaryOp(op, a) => J::O(vec![
                ("k", s("unop")),
                ("op", s(format!("{:?}", op))),
                ("a", self.operand(a)),
                ("ty", self.cx.ty(a.ty(&self.body.local_decls, self.cx.tcx))),
            ]),
            Rvalue::Discriminant(p) => J::O(vec![("k", s("discriminant")), ("place", self.place(p))]),
            Rvalue::Aggregate(box kind, fields) => {
                let fs: Vec<J> = fields.iter().map(|f| self.operand(f)).collect();
                let mut o: Vec<(&'static str, J)> = vec![("k", s("aggregate"))];
                match kind {
                    AggregateKind::Array(t) => {
                        o.push(("agg", s("array")));
                        o.push(("ty", self.cx.ty(*t)));
                    }
                    AggregateKind::Tuple => o.push(("agg", s("tuple"))),
                    AggregateKind::Adt(did, vi, args, _, active) => {
                        let def = self.cx.tcx.adt_def(*did);
                        o.push(("agg", s("adt")));
                        o.push(("path", s(self.cx.path(*did))));
                        o.push(("variant", J::I(vi.as_usize() as i128)));
                        o.push(("variant_name", s(def.variant(*vi).name.as_str())));
                        o.push((
                            "field_names",
                            J::A(def.variant(*vi).fields.iter().map(|f| s(f.name.as_str())).collect()),
                        ));
                        o.push(("args", self.cx.generic_args(args, Some(self.env))));
                        if let Some(a) = active {
                            o.push(("active_field", J::I(a.as_usize() as i128)));
                        }
                    }
                    AggregateKind::Closure(did, _) => {
                        o.push(("agg", s("closure")));
                        o.push(("path", s(self.cx.path(*did))));
                    }
                    other => {
                        o.push(("agg", s("other")));
                        o.push(("dbg", s(format!("{:?}", other))));
                    }
                }
                o.push(("fields", J::A(fs)));
                J::O(o)
            }
            Rvalue::CopyForDeref(p) => J::O(vec![("k", s("copy_for_deref")), ("place", self.place(p))]),
            other => J::O(vec![("k", s("other")), ("dbg", s(format!("{:?}", other)))]),
        }
    }

    fn callee(&self, func: &Operand<'tcx>) -> J {
        let tcx = self.cx.tcx;
        let mut o: Vec<(&'static str, J)> = Vec::new();
        if let Some((did, args)) = func.const_fn_def() {
            o.push(("def", s(self.cx.path(did))));
            o.push(("def_with_args", s(self.cx.path_args(did, args))));
            o.push(("args", self.cx.generic_args(args, Some(self.env))));
            o.push(("crate", s(tcx.crate_name(did.krate).as_str())));
            if let Ok(Some(inst)) = Instance::try_resolve(tcx, self.env, did, args) {
                let rd = inst.def_id();
                let mut r: Vec<(&'static str, J)> = vec![
                    ("path", s(self.cx.path(rd))),
                    ("with_args", s(self.cx.path_args(rd, inst.args))),
                    ("args", self.cx.generic_args(inst.args, Some(self.env))),
                    ("crate", s(tcx.crate_name(rd.krate).as_str())),
                    ("kind", s(format!("{:?}", std::mem::discriminant(&inst.def)))),
                    ("is_item", J::B(matches!(inst.def, ty::InstanceKind::Item(_)))),
                    ("intrinsic", J::B(tcx.intrinsic(rd).is_some())),
                ];
                if let Some(i) = tcx.intrinsic(rd) {
                    r.push(("intrinsic_name", s(i.name.as_str())));
                }
                o.push(("resolved", J::O(r)));
            }
            // blanket `impl<T, U: From<T>> Into<U> for T`: also name the `From::from` it forwards to
            if let Some(tr) = tcx.trait_of_assoc(did) {
                if tcx.is_diagnostic_item(rustc_span::sym::Into, tr) && args.len() >= 2 {
                    if let Some(from_tr) = tcx.get_diagnostic_item(rustc_span::sym::From) {
                        if let Some(from_fn) =
                            tcx.associated_items(from_tr).in_definition_order().next()
                        {
                            let t_arg = args[0];
                            let u_arg = args[1];
                            let fargs = tcx.mk_args(&[u_arg, t_arg]);
                            if let Ok(Some(inst)) =
                                Instance::try_resolve(tcx, self.env, from_fn.def_id, fargs)
                            {
                                let rd = inst.def_id();
                                o.push((
                                    "via_from",
                                    J::O(vec![
                                        ("path", s(self.cx.path(rd))),
                                        ("with_args", s(self.cx.path_args(rd, inst.args))),
                                        ("args", self.cx.generic_args(inst.args, Some(self.env))),
                                        ("crate", s(tcx.crate_name(rd.krate).as_str())),
                                    ]),
                                ));
                            }
                        }
                    }
                }
            }
        } else {
            o.push(("indirect", self.operand(func)));
        }
        J::O(o)
    }

    fn terminator(&self, t: &Terminator<'tcx>) -> J {
        let bb = |b: BasicBlock| J::I(b.as_usize() as i128);
        let mut o: Vec<(&'static str, J)> = Vec::new();
        match &t.kind {
            TerminatorKind::Goto { target } => {
                o.push(("k", s("goto")));
                o.push(("target", bb(*target)));
            }
            TerminatorKind::SwitchInt { discr, targets } => {
                o.push(("k", s("switch")));
                o.push(("discr", self.operand(discr)));
                o.push(("discr_ty", self.cx.ty(discr.ty(&self.body.local_decls, self.cx.tcx))));
                let mut arms = Vec::new();
                for (v, b) in targets.iter() {
                    arms.push(J::A(vec![J::S(format!("{}", v)), bb(b)]));
                }
                o.push(("arms", J::A(arms)));
                o.push(("otherwise", bb(targets.otherwise())));
            }
            TerminatorKind::Return => o.push(("k", s("return"))),
            TerminatorKind::Unreachable => o.push(("k", s("unreachable"))),
            TerminatorKind::UnwindResume => o.push(("k", s("resume"))),
            TerminatorKind::UnwindTerminate(_) => o.push(("k", s("terminate"))),
            TerminatorKind::Drop { place, target, .. } => {
                o.push(("k", s("drop")));
                o.push(("place", self.place(place)));
                o.push(("target", bb(*target)));
            }
            TerminatorKind::Call { func, args, destination, target, .. } => {
                o.push(("k", s("call")));
                o.push(("callee", self.callee(func)));
                o.push(("args", J::A(args.iter().map(|a| self.operand(&a.node)).collect())));
                o.push(("dest", self.place(destination)));
                o.push(("target", target.map(bb).unwrap_or(J::Null)));
            }
            TerminatorKind::Assert { cond, expected, msg, target, .. } => {
                o.push(("k", s("assert")));
                o.push(("cond", self.operand(cond)));
                o.push(("expected", J::B(*expected)));
                let (kind, ops): (String, Vec<J>) = match &**msg {
                    AssertKind::BoundsCheck { len, index } => {
                        ("bounds".into(), vec![self.operand(len), self.operand(index)])
                    }
                    AssertKind::Overflow(op, a, b) => {
                        (format!("overflow:{:?}", op), vec![self.operand(a), self.operand(b)])
                    }
                    AssertKind::OverflowNeg(a) => ("overflow_neg".into(), vec![self.operand(a)]),
                    AssertKind::DivisionByZero(a) => ("div_zero".into(), vec![self.operand(a)]),
                    AssertKind::RemainderByZero(a) => ("rem_zero".into(), vec![self.operand(a)]),
                    other => (format!("other:{:?}", std::mem::discriminant(other)), vec![]),
                };
                o.push(("kind", s(kind)));
                o.push(("ops", J::A(ops)));
                o.push(("target", bb(*target)));
            }
            TerminatorKind::FalseEdge { real_target, .. } => {
                o.push(("k", s("goto")));
                o.push(("target", bb(*real_target)));
            }
            TerminatorKind::FalseUnwind { real_target, .. } => {
                o.push(("k", s("goto")));
                o.push(("target", bb(*real_target)));
            }
            other => {
                o.push(("k", s("other")));
                o.push(("dbg", s(format!("{:?}", other))));
            }
        }
        o.push(("span", self.cx.span(t.source_info.span)));
        o.push(("expn", J::B(t.source_info.span.from_expansion())));
        J::O(o)
    }

    fn statement(&self, st: &Statement<'tcx>) -> Option<J> {
        let mut o: Vec<(&'static str, J)> = Vec::new();
        match &st.kind {
            StatementKind::Assign(box (p, rv)) => {
                o.push(("k", s("assign")));
                o.push(("place", self.place(p)));
                o.push(("rv", self.rvalue(rv)));
            }
            StatementKind::SetDiscriminant { place, variant_index } => {
                o.push(("k", s("setdiscr")));
                o.push(("place", self.place(place)));
                o.push(("variant", J::I(variant_index.as_usize() as i128)));
            }
            StatementKind::Intrinsic(box NonDivergingIntrinsic::Assume(op)) => {
                o.push(("k", s("assume")));
                o.push(("op", self.operand(op)));
            }
            StatementKind::Intrinsic(_) => {
                o.push(("k", s("other")));
                o.push(("dbg", s(format!("{:?}", st.kind))));
            }
            _ => return None, // storage markers, fake reads, coverage, nop, …
        }
        o.push(("span", self.cx.span(st.source_info.span)));
        Some(J::O(o))
    }

    fn body_json(&self) -> Vec<(&'static str, J)> {
        let mut o: Vec<(&'static str, J)> = Vec::new();
        o.push(("arg_count", J::I(self.body.arg_count as i128)));
        let mut locals = Vec::new();
        for (l, d) in self.body.local_decls.iter_enumerated() {
            let mut name = J::Null;
            for vdi in &self.body.var_debug_info {
                if let VarDebugInfoContents::Place(p) = vdi.value {
                    if p.local == l && p.projection.is_empty() {
                        name = s(vdi.name.as_str());
                        break;
                    }
                }
            }
            locals.push(J::O(vec![("ty", self.cx.ty(d.ty)), ("name", name)]));
        }
        o.push(("locals", J::A(locals)));
        let mut blocks = Vec::new();
        for (_, bbd) in self.body.basic_blocks.iter_enumerated() {
            let stmts: Vec<J> = bbd.statements.iter().filter_map(|st| self.statement(st)).collect();
            blocks.push(J::O(vec![
                ("stmts", J::A(stmts)),
                ("term", self.terminator(bbd.terminator())),
                ("cleanup", J::B(bbd.is_cleanup)),
            ]));
        }
        o.push(("blocks", J::A(blocks)));
        let _ = self.owner;
        o
    }
}

fn generics_json<'tcx>(cx: &Cx<'tcx>, did: DefId) -> J {
    let g = cx.tcx.generics_of(did);
    let mut v: Vec<(u32, J)> = Vec::new();
    let mut cur = Some(g);
    while let Some(gg) = cur {
        for p in &gg.own_params {
            let kind = match p.kind {
                ty::GenericParamDefKind::Lifetime => "lifetime",
                ty::GenericParamDefKind::Type { .. } => "type",
                ty::GenericParamDefKind::Const { .. } => "const",
            };
            v.push((p.index, J::O(vec![("name", s(p.name.as_str())), ("kind", s(kind))])));
        }
        cur = gg.parent.map(|p| cx.tcx.generics_of(p));
    }
    v.sort_by_key(|x| x.0);
    J::A(v.into_iter().map(|x| x.1).collect())
}

fn dump<'tcx>(tcx: TyCtxt<'tcx>) {
    let out_dir = match std::env::var("MIRFACTS_OUT") {
        Ok(d) => d,
        Err(_) => return,
    };
    let krate = tcx.crate_name(LOCAL_CRATE).as_str().to_string();
    let wanted = std::env::var("MIRFACTS_CRATES").unwrap_or_default();
    if !wanted.split(',').any(|c| c == krate) {
        return;
    }
    let cx = Cx { tcx, krate: krate.clone() };
    let mut fns = Vec::new();
    let mut consts = Vec::new();
    let eff = tcx.effective_visibilities(());

    for ldid in tcx.hir_body_owners() {
        let did = ldid.to_def_id();
        let kind = tcx.def_kind(did);
        let env = TypingEnv::post_analysis(tcx, did);
        match kind {
            DefKind::Fn | DefKind::AssocFn | DefKind::Closure => {
                let body = tcx.optimized_mir(did);
                let bcx = BodyCx { cx: &cx, body, owner: did, env };
                let mut o: Vec<(&'static str, J)> = Vec::new();
                o.push(("path", s(cx.path(did))));
                o.push((
                    "kind",
                    s(match kind {
                        DefKind::Fn => "fn",
                        DefKind::AssocFn => "assoc_fn",
                        _ => "closure",
                    }),
                ));
                if matches!(kind, DefKind::Fn | DefKind::AssocFn) {
                    o.push(("pub", J::B(tcx.visibility(did).is_public())));
                    o.push(("reachable", J::B(eff.is_reachable(ldid))));
                    let attrs_derive = tcx.is_automatically_derived(tcx.parent(did));
                    o.push(("derived", J::B(attrs_derive)));
                    if let Some(impl_did) = tcx.impl_of_assoc(did) {
                        let self_ty = tcx.type_of(impl_did).instantiate_identity().skip_norm_wip();
                        let mut io: Vec<(&'static str, J)> = vec![("self_ty", cx.ty(self_ty))];
                        if let Some(tr) = tcx.impl_opt_trait_ref(impl_did) {
                            let tr = tr.instantiate_identity().skip_norm_wip();
                            io.push(("trait", s(cx.path(tr.def_id))));
                            io.push(("trait_args", cx.generic_args(tr.args, None)));
                        }
                        o.push(("impl_of", J::O(io)));
                    }
                } else {
                    o.push(("pub", J::B(false)));
                    o.push(("reachable", J::B(false)));
                    o.push(("derived", J::B(false)));
                }
                o.push(("generics", generics_json(&cx, did)));
                o.push(("span", cx.span(tcx.def_span(did))));
                o.extend(bcx.body_json());
                // promoted constants of this body
                let mut proms = Vec::new();
                for pb in tcx.promoted_mir(did).iter() {
                    let pcx = BodyCx { cx: &cx, body: pb, owner: did, env };
                    proms.push(J::O(pcx.body_json()));
                }
                o.push(("promoted", J::A(proms)));
                fns.push(J::O(o));
            }
            DefKind::Const { .. } | DefKind::AssocConst { .. } | DefKind::Static { .. } => {
                let mut o: Vec<(&'static str, J)> = Vec::new();
                o.push(("path", s(cx.path(did))));
                let t = tcx.type_of(did).instantiate_identity().skip_norm_wip();
                o.push(("ty", cx.ty(t)));
                o.push(("span", cx.span(tcx.def_span(did))));
                if matches!(kind, DefKind::Static { .. }) {
                    // a static is not a constant for the evaluator: read its initialiser's allocation directly
                    o.push(("static", J::B(true)));
                    o.push(("mutable", J::B(tcx.is_mutable_static(did))));
                    if let Ok(alloc) = tcx.eval_static_initializer(did) {
                        if let Some(v) = cx.read_allocation(alloc.inner(), 0, t) {
                            o.push(("val", v));
                        }
                    }
                } else if tcx.generics_of(did).is_empty() || !tcx.generics_of(did).requires_monomorphization(tcx) {
                    if let Ok(cv) = tcx.const_eval_poly(did) {
                        o.push(("val", cx.const_value(cv, t)));
                    }
                } else if matches!(kind, DefKind::AssocConst { .. }) {
                    // a constant of a generic impl (e.g. `const MASK: u32 = (1 << BITS) - 1`) has no single value: emit its
                    // initialiser as a zero-argument body so that the interpreter can evaluate it under the caller's
                    // generic arguments
                    let body = tcx.mir_for_ctfe(did);
                    let bcx = BodyCx { cx: &cx, body, owner: did, env };
                    let mut f: Vec<(&'static str, J)> = Vec::new();
                    f.push(("path", s(cx.path(did))));
                    f.push(("kind", s("const_body")));
                    f.push(("pub", J::B(false)));
                    f.push(("reachable", J::B(false)));
                    f.push(("derived", J::B(false)));
                    f.push(("generics", generics_json(&cx, did)));
                    f.push(("span", cx.span(tcx.def_span(did))));
                    f.extend(bcx.body_json());
                    f.push(("promoted", J::A(Vec::new())));
                    fns.push(J::O(f));
                }
                consts.push(J::O(o));
            }
            _ => {}
        }
    }

    // ADTs
    let mut adts = Vec::new();
    for ldid in tcx.hir_crate_items(()).definitions() {
        let did = ldid.to_def_id();
        let kind = tcx.def_kind(did);
        if !matches!(kind, DefKind::Struct | DefKind::Enum) {
            continue;
        }
        let def = tcx.adt_def(did);
        let mut variants = Vec::new();
        for (vi, v) in def.variants().iter_enumerated() {
            let mut fields = Vec::new();
            for f in v.fields.iter() {
                let ft = tcx.type_of(f.did).instantiate_identity().skip_norm_wip();
                fields.push(J::O(vec![
                    ("name", s(f.name.as_str())),
                    ("ty", cx.ty(ft)),
                    ("pub", J::B(f.vis.is_public())),
                ]));
            }
            let discr = if def.is_enum() { def.discriminant_for_variant(tcx, vi).val } else { 0 };
            variants.push(J::O(vec![
                ("name", s(v.name.as_str())),
                ("discr", J::S(format!("{}", discr))),
                ("fields", J::A(fields)),
            ]));
        }
        let t = tcx.type_of(did).instantiate_identity().skip_norm_wip();
        let env = TypingEnv::post_analysis(tcx, did);
        adts.push(J::O(vec![
            ("path", s(cx.path(did))),
            ("kind", s(if def.is_enum() { "enum" } else { "struct" })),
            ("pub", J::B(tcx.visibility(did).is_public())),
            ("reachable", J::B(eff.is_reachable(ldid))),
            ("freeze", J::B(t.is_freeze(tcx, env))),
            ("generics", generics_json(&cx, did)),
            ("span", cx.span(tcx.def_span(did))),
            ("variants", J::A(variants)),
        ]));
    }

    let root = J::O(vec![
        ("crate", s(krate.clone())),
        (
            "crate_version",
            s(std::env::var("CARGO_PKG_VERSION").unwrap_or_default()),
        ),
        ("overflow_checks", J::B(tcx.sess.overflow_checks())),
        ("debug_assertions", J::B(tcx.sess.opts.debug_assertions)),
        ("fns", J::A(fns)),
        ("consts", J::A(consts)),
        ("adts", J::A(adts)),
    ]);
    let mut out = String::new();
    root.write(&mut out);
    let path = format!("{}/{}.json", out_dir, krate);
    std::fs::write(&path, out).expect("mirfacts: cannot write fact file");
}

struct Cb;

impl Callbacks for Cb {
    fn after_analysis<'tcx>(&mut self, _c: &Compiler, tcx: TyCtxt<'tcx>) -> Compilation {
        dump(tcx);
        Compilation::Continue
    }
}

fn main() {
    let mut args: Vec<String> = std::env::args().collect();
    // invoked as RUSTC_WRAPPER: argv[1] is the path of the real rustc
    if args.len() > 1 && (args[1].ends_with("rustc") || args[1].contains("/rustc")) {
        args.remove(1);
    }
    rustc_driver::run_compiler(&args, &mut Cb);
}
