//! Differential test for `src/adsr.rs` and `src/phase_accumulator.rs`.
//!
//! Integration test, public API of `synth_utils` only.  It drives the ADSR (and the LFO, the
//! other public user of the private `PhaseAccumulator`) with long pseudo-random call sequences
//! and hashes every observable output: every `f32` result bit for bit, the `Debug` rendering
//! of the objects, the results of the derived `PartialEq`s, and whether a call panicked
//! (arithmetic overflow in a debug build for out-of-range sample rates / frequencies).
//!
//! Usage: copy to `tests/diff_test.rs`, then
//!     cargo test --offline --test diff_test -- --nocapture
//!     cargo test --offline --release --test diff_test -- --nocapture
//! and compare the `DIFFHASH` lines between the clean and the changed crate.  Debug and
//! release hashes differ from each other only in the panic scenarios (overflow checks).

use std::fmt::Write as _;
use std::panic::{catch_unwind, AssertUnwindSafe};
use synth_utils::adsr::{self, Adsr, Input, State, SustainLevel, TimePeriod};
use synth_utils::lfo::{Lfo, Waveshape};

// ------------------------------------------------------------------------------------------
// helpers: FNV-1a hash, LCG
// ------------------------------------------------------------------------------------------

struct Hash(u64);

impl Hash {
    fn new() -> Self {
        Hash(0xcbf2_9ce4_8422_2325)
    }
    fn byte(&mut self, b: u8) {
        self.0 ^= b as u64;
        self.0 = self.0.wrapping_mul(0x0000_0100_0000_01b3);
    }
    fn u32(&mut self, v: u32) {
        for b in v.to_le_bytes() {
            self.byte(b);
        }
    }
    fn f32(&mut self, v: f32) {
        self.u32(v.to_bits());
    }
    fn bool(&mut self, v: bool) {
        self.byte(v as u8 + 1);
    }
    fn str(&mut self, s: &str) {
        for b in s.bytes() {
            self.byte(b);
        }
        self.byte(0xff);
    }
    fn dbg<T: core::fmt::Debug>(&mut self, buf: &mut String, v: &T) {
        buf.clear();
        write!(buf, "{:?}", v).unwrap();
        let s = core::mem::take(buf);
        self.str(&s);
        *buf = s;
    }
}

struct Lcg(u64);

impl Lcg {
    fn next(&mut self) -> u32 {
        self.0 = self
            .0
            .wrapping_mul(6364136223846793005)
            .wrapping_add(1442695040888963407);
        (self.0 >> 32) as u32
    }
    fn below(&mut self, n: u32) -> u32 {
        self.next() % n
    }
    /// uniform in [0, 1)
    fn unit(&mut self) -> f32 {
        (self.next() >> 8) as f32 / 16_777_216.0_f32
    }
}

const EDGES: [f32; 30] = [
    0.0,
    -0.0,
    1.0,
    -1.0,
    0.5,
    0.001,
    0.000_999_9,
    0.001_000_1,
    0.002,
    0.01,
    0.1,
    0.999_999_94,
    1.000_000_1,
    19.999_998,
    20.0,
    20.000_002,
    1.0e-30,
    1.0e-45, // subnormal
    -1.0e-45,
    1.0e30,
    -1.0e30,
    f32::MAX,
    f32::MIN,
    f32::MIN_POSITIVE,
    f32::EPSILON,
    f32::INFINITY,
    f32::NEG_INFINITY,
    f32::NAN,
    -3.5,
    7.25,
];

/// a parameter value: edge value, a plausible time, a plausible level, or random bits
fn param(rng: &mut Lcg) -> f32 {
    match rng.below(8) {
        0 => EDGES[rng.below(EDGES.len() as u32) as usize],
        1 => f32::from_bits(rng.next()),
        2 | 3 => rng.unit(),                  // level, or a time below one second
        4 => 0.001 + rng.unit() * 0.02,       // a few ms
        5 => rng.unit() * 25.0 - 2.0,         // around the legal time range
        6 => rng.unit() * 2.0 - 0.5,          // around the legal level range
        _ => rng.unit() * rng.unit() * 0.2,   // short
    }
}

fn random_input(rng: &mut Lcg) -> Input {
    let v = param(rng);
    match rng.below(4) {
        0 => Input::Attack(v.into()),
        1 => Input::Decay(v.into()),
        2 => Input::Sustain(v.into()),
        _ => Input::Release(v.into()),
    }
}

// ------------------------------------------------------------------------------------------
// scenario 1: parameter types, constants, derives
// ------------------------------------------------------------------------------------------

fn params_hash() -> u64 {
    let mut h = Hash::new();
    let mut buf = String::new();

    h.f32(adsr::MIN_TIME_PERIOD_SEC);
    h.f32(adsr::MAX_TIME_PERIOD_SEC);

    let conv = |h: &mut Hash, buf: &mut String, v: f32, full: bool| {
        let t: TimePeriod = v.into();
        let s: SustainLevel = v.into();
        h.f32(f32::from(t));
        h.f32(f32::from(s));
        let t2 = TimePeriod::from(f32::from(t));
        let s2 = SustainLevel::from(f32::from(s));
        h.bool(t == t2);
        h.bool(s == s2);
        h.f32(t2.into());
        h.f32(s2.into());
        if full {
            h.dbg(buf, &t);
            h.dbg(buf, &s);
            h.dbg(buf, &Input::Attack(t));
            h.dbg(buf, &Input::Decay(t));
            h.dbg(buf, &Input::Sustain(s));
            h.dbg(buf, &Input::Release(t));
            h.bool(Input::Attack(t) == Input::Decay(t));
            h.bool(Input::Attack(t) == Input::Attack(t2));
            h.bool(Input::Sustain(s) == Input::Sustain(0.5.into()));
            h.bool(Input::Release(t) == Input::Release(1.0.into()));
        }
    };

    for &e in EDGES.iter() {
        conv(&mut h, &mut buf, e, true);
        conv(&mut h, &mut buf, -e, true);
    }
    // all exponents, both signs, a few mantissas (includes NaN payloads, infinities, subnormals)
    for exp in 0..256u32 {
        for &man in &[0u32, 1, 0x40_0000, 0x7f_ffff, 0x12_3456] {
            for sign in 0..2u32 {
                conv(
                    &mut h,
                    &mut buf,
                    f32::from_bits((sign << 31) | (exp << 23) | man),
                    true,
                );
            }
        }
    }
    let mut rng = Lcg(0x1234_5678_9abc_def0);
    for i in 0..400_000u32 {
        let v = if i % 2 == 0 {
            f32::from_bits(rng.next())
        } else {
            param(&mut rng)
        };
        conv(&mut h, &mut buf, v, i % 512 == 0);
    }

    let states = [
        State::AtRest,
        State::Attack,
        State::Decay,
        State::Sustain,
        State::Release,
    ];
    for a in states.iter() {
        h.dbg(&mut buf, a);
        #[allow(clippy::clone_on_copy)]
        let c = a.clone();
        for b in states.iter() {
            h.bool(c == *b);
            h.bool(c != *b);
        }
    }
    h.0
}

// ------------------------------------------------------------------------------------------
// scenario 2: ADSR, random call sequences at legal sample rates
// ------------------------------------------------------------------------------------------

fn adsr_sequence(h: &mut Hash, seed: u64, sample_rate: f32, ops: u32, short_times: bool) {
    let mut rng = Lcg(seed);
    let mut buf = String::new();
    let mut a = Adsr::new(sample_rate);
    h.f32(a.value());
    h.dbg(&mut buf, &a);

    for i in 0..ops {
        match rng.below(64) {
            0..=2 => a.gate_on(),
            3..=5 => a.gate_off(),
            6..=9 => {
                let inp = if short_times {
                    // keep phases short so that many complete envelopes are traversed
                    let v = rng.unit() * rng.unit() * 0.05;
                    match rng.below(5) {
                        0 => Input::Attack(v.into()),
                        1 => Input::Decay(v.into()),
                        2 => Input::Sustain(rng.unit().into()),
                        3 => Input::Sustain(param(&mut rng).into()),
                        _ => Input::Release(v.into()),
                    }
                } else {
                    random_input(&mut rng)
                };
                a.set_input(inp);
            }
            10 => {
                // a burst of ticks, every value observed
                let n = rng.below(if short_times { 300 } else { 5_000 });
                for _ in 0..n {
                    a.tick();
                    h.f32(a.value());
                }
            }
            11 => {
                // gate events in quick succession
                a.gate_on();
                h.f32(a.value());
                a.gate_off();
                h.f32(a.value());
                a.gate_on();
            }
            12 => {
                // a copy behaves like the original and leaves it alone
                let mut c = a;
                #[allow(clippy::clone_on_copy)]
                let mut d = a.clone();
                c.tick();
                d.gate_off();
                d.tick();
                h.f32(c.value());
                h.f32(d.value());
            }
            _ => a.tick(),
        }
        h.f32(a.value());
        if i % 61 == 0 {
            h.dbg(&mut buf, &a);
        }
    }
    h.dbg(&mut buf, &a);
}

fn adsr_random_hash() -> u64 {
    let mut h = Hash::new();
    let rates = [
        100.0_f32, 101.5, 1_000.0, 8_000.0, 22_050.0, 44_100.0, 48_000.0, 96_000.0, 192_000.0,
    ];
    let mut seed = 0x0dd_ba11_u64;
    for (k, &sr) in rates.iter().enumerate() {
        for rep in 0..3u64 {
            seed = seed.wrapping_mul(0x9e37_79b9_7f4a_7c15).wrapping_add(rep + 1);
            adsr_sequence(&mut h, seed, sr, 60_000, (k as u64 + rep) % 2 == 0);
        }
    }
    h.0
}

// ------------------------------------------------------------------------------------------
// scenario 3: ADSR, complete envelopes, every tick observed (long and short phases)
// ------------------------------------------------------------------------------------------

fn full_envelope(h: &mut Hash, sr: f32, a_t: f32, d_t: f32, s_l: f32, r_t: f32, hold: u32) {
    let mut buf = String::new();
    let mut a = Adsr::new(sr);
    a.set_input(Input::Attack(a_t.into()));
    a.set_input(Input::Decay(d_t.into()));
    a.set_input(Input::Sustain(s_l.into()));
    a.set_input(Input::Release(r_t.into()));
    let clamp = |t: f32| f32::from(TimePeriod::from(t));
    let ad_ticks = ((clamp(a_t) + clamp(d_t)) * sr * 1.01) as u32 + 8;
    let r_ticks = (clamp(r_t) * sr * 1.01) as u32 + 8;

    a.gate_on();
    h.f32(a.value());
    for i in 0..ad_ticks + hold {
        a.tick();
        h.f32(a.value());
        if i % 4099 == 0 {
            h.dbg(&mut buf, &a);
        }
    }
    a.gate_off();
    h.f32(a.value());
    for i in 0..r_ticks + hold {
        a.tick();
        h.f32(a.value());
        if i % 4099 == 0 {
            h.dbg(&mut buf, &a);
        }
    }
    h.dbg(&mut buf, &a);

    // retrigger in the middle of every phase, release in the middle of the attack
    a.gate_on();
    for _ in 0..ad_ticks / 5 {
        a.tick();
        h.f32(a.value());
    }
    a.gate_off();
    for _ in 0..r_ticks / 3 {
        a.tick();
        h.f32(a.value());
    }
    a.gate_on();
    for _ in 0..ad_ticks / 2 + 3 {
        a.tick();
        h.f32(a.value());
    }
    a.gate_on();
    for _ in 0..ad_ticks + 3 {
        a.tick();
        h.f32(a.value());
    }
    // change the sustain level while sustaining, change the times in mid-phase
    a.set_input(Input::Sustain((s_l * 0.5 + 0.1).into()));
    a.tick();
    h.f32(a.value());
    a.gate_off();
    for i in 0..r_ticks / 2 {
        if i == r_ticks / 4 {
            a.set_input(Input::Release((r_t * 0.37).into()));
        }
        a.tick();
        h.f32(a.value());
    }
    h.dbg(&mut buf, &a);
}

fn adsr_envelopes_hash() -> u64 {
    let mut h = Hash::new();
    // (sample rate, attack, decay, sustain, release)
    let cases: [(f32, f32, f32, f32, f32); 14] = [
        (1_000.0, 0.1, 0.1, 0.5, 0.1),
        (1_000.0, 0.001, 0.001, 1.0, 0.001),
        (100.0, 0.0, 0.0, 0.0, 0.0),
        (100.0, 0.001, 0.013, 0.25, 0.02),
        (100.0, 20.0, 20.0, 0.3, 20.0),
        (44_100.0, 0.15, 0.3, 0.5, 0.3),
        (44_100.0, 1.0, 2.0, 0.999_999_94, 3.0),
        (48_000.0, 0.0213, 0.517, 0.0, 1.234),
        (48_000.0, 5.0, 0.001, 1.0e-7, 0.7),
        (96_000.0, 2.5, 1.5, 0.75, 4.0),
        (192_000.0, 0.001, 0.002, 0.9, 0.003),
        (192_000.0, 20.0, 1.0, 0.6, 1.0),
        (192_000.0, 1.0e9, -5.0, 7.0, f32::NAN),
        (31_250.0, 3.3333, 0.0625, 0.333_333_34, 9.87),
    ];
    for &(sr, a_t, d_t, s_l, r_t) in cases.iter() {
        full_envelope(&mut h, sr, a_t, d_t, s_l, r_t, 5);
    }
    h.0
}

// ------------------------------------------------------------------------------------------
// scenario 4: LFO (the other user of the phase accumulator), legal arguments
// ------------------------------------------------------------------------------------------

const SHAPES: [Waveshape; 5] = [
    Waveshape::Sine,
    Waveshape::Triangle,
    Waveshape::UpSaw,
    Waveshape::DownSaw,
    Waveshape::Square,
];

fn lfo_observe(h: &mut Hash, l: &Lfo) {
    for &w in SHAPES.iter() {
        h.f32(l.get(w));
    }
}

fn lfo_phase(rng: &mut Lcg) -> f32 {
    match rng.below(6) {
        0 => EDGES[rng.below(EDGES.len() as u32) as usize],
        1 => f32::from_bits(rng.next()),
        2 => rng.unit(),
        3 => -rng.unit(),
        4 => rng.unit() * 1000.0 - 500.0,
        _ => rng.below(9) as f32 * 0.125,
    }
}

fn lfo_sequence(h: &mut Hash, seed: u64, sr: f32, ops: u32) {
    let mut rng = Lcg(seed);
    let mut buf = String::new();
    let mut l = Lfo::new(sr);
    lfo_observe(h, &l);
    h.dbg(&mut buf, &l);
    for i in 0..ops {
        match rng.below(40) {
            0 => l.reset(),
            1 | 2 => l.set_phase(lfo_phase(&mut rng)),
            3..=6 => {
                // frequencies in [0, sample rate], plus negative / NaN (both give a zero increment)
                let f = match rng.below(8) {
                    0 => 0.0,
                    1 => sr,
                    2 => -rng.unit() * sr,
                    3 => f32::NAN,
                    4 => rng.unit() * rng.unit() * rng.unit() * sr,
                    5 => rng.unit() * 20.0,
                    6 => sr / (1 + rng.below(4096)) as f32,
                    _ => rng.unit() * sr,
                };
                l.set_frequency(f);
            }
            7 => {
                let c = l;
                h.bool(c == l);
                let mut d = l;
                d.tick();
                h.bool(d == l);
                lfo_observe(h, &d);
            }
            _ => l.tick(),
        }
        lfo_observe(h, &l);
        if i % 53 == 0 {
            h.dbg(&mut buf, &l);
        }
    }
    h.dbg(&mut buf, &l);
}

fn lfo_hash() -> u64 {
    let mut h = Hash::new();
    let rates = [100.0_f32, 1_000.0, 44_100.0, 48_000.0, 192_000.0];
    let mut seed = 0xfeed_f00d_u64;
    for &sr in rates.iter() {
        for rep in 0..3u64 {
            seed = seed.wrapping_mul(0x9e37_79b9_7f4a_7c15).wrapping_add(rep + 7);
            lfo_sequence(&mut h, seed, sr, 60_000);
        }
    }
    // slow sweeps: every counter value region is visited with a tiny increment
    for &(sr, f) in &[(1_000.0_f32, 0.37_f32), (48_000.0, 1.0), (192_000.0, 0.05), (100.0, 0.001)] {
        let mut l = Lfo::new(sr);
        l.set_frequency(f);
        for _ in 0..300_000 {
            l.tick();
            lfo_observe(&mut h, &l);
        }
    }
    h.0
}

// ------------------------------------------------------------------------------------------
// scenario 5: out-of-range sample rates and frequencies; a panic (debug overflow check) is an
// observable outcome too and is hashed
// ------------------------------------------------------------------------------------------

fn panics_hash() -> u64 {
    let mut h = Hash::new();
    let mut buf = String::new();
    let prev = std::panic::take_hook();
    std::panic::set_hook(Box::new(|_| {}));

    let odd_rates = [
        0.0_f32,
        -0.0,
        -1.0,
        1.0e-3,
        0.5,
        1.0,
        3.0,
        10.0,
        50.0,
        99.0,
        1.0e7,
        1.0e12,
        f32::MAX,
        f32::MIN_POSITIVE,
        f32::INFINITY,
        f32::NEG_INFINITY,
        f32::NAN,
    ];
    let mut rng = Lcg(0xabad_1dea);
    for &sr in odd_rates.iter() {
        // ADSR
        let mut a = Adsr::new(sr);
        for i in 0..4_000u32 {
            let op = rng.below(32);
            let inp = random_input(&mut rng);
            let start = a;
            let r = catch_unwind(AssertUnwindSafe(move || {
                let mut x = start;
                match op {
                    0 => x.gate_on(),
                    1 => x.gate_off(),
                    2 | 3 => x.set_input(inp),
                    _ => x.tick(),
                }
                x
            }));
            match r {
                Ok(x) => {
                    a = x;
                    h.bool(true);
                    h.f32(a.value());
                }
                Err(_) => {
                    h.bool(false);
                    a = Adsr::new(sr);
                    a.gate_on();
                }
            }
            if i % 97 == 0 {
                h.dbg(&mut buf, &a);
            }
        }
        // LFO
        let mut l = Lfo::new(sr);
        for i in 0..4_000u32 {
            let op = rng.below(16);
            let f = match rng.below(6) {
                0 => EDGES[rng.below(EDGES.len() as u32) as usize],
                1 => f32::from_bits(rng.next()),
                2 => rng.unit() * 300.0 * if sr.is_finite() { sr } else { 1.0 },
                _ => rng.unit() * 10.0,
            };
            let start = l;
            let r = catch_unwind(AssertUnwindSafe(move || {
                let mut x = start;
                match op {
                    0 => x.reset(),
                    1 => x.set_phase(f),
                    2 | 3 => x.set_frequency(f),
                    _ => x.tick(),
                }
                x
            }));
            match r {
                Ok(x) => {
                    l = x;
                    h.bool(true);
                    lfo_observe(&mut h, &l);
                }
                Err(_) => {
                    h.bool(false);
                    l = Lfo::new(sr);
                }
            }
            if i % 97 == 0 {
                h.dbg(&mut buf, &l);
            }
        }
    }
    // legal sample rate, illegal LFO frequencies
    for &sr in &[100.0_f32, 48_000.0] {
        let mut l = Lfo::new(sr);
        for _ in 0..20_000u32 {
            let op = rng.below(8);
            let f = match rng.below(5) {
                0 => EDGES[rng.below(EDGES.len() as u32) as usize],
                1 => f32::from_bits(rng.next()),
                2 => rng.unit() * 300.0 * sr,
                3 => (250.0 + rng.unit() * 10.0) * sr,
                _ => rng.unit() * sr,
            };
            let start = l;
            let r = catch_unwind(AssertUnwindSafe(move || {
                let mut x = start;
                match op {
                    0 => x.set_phase(f),
                    1 | 2 => x.set_frequency(f),
                    _ => x.tick(),
                }
                x
            }));
            match r {
                Ok(x) => {
                    l = x;
                    h.bool(true);
                    lfo_observe(&mut h, &l);
                }
                Err(_) => {
                    h.bool(false);
                    l = Lfo::new(sr);
                }
            }
        }
        h.dbg(&mut buf, &l);
    }

    std::panic::set_hook(prev);
    h.0
}

// ------------------------------------------------------------------------------------------

#[test]
fn differential_hashes() {
    let profile = if cfg!(debug_assertions) { "debug" } else { "release" };
    let p = params_hash();
    let r = adsr_random_hash();
    let e = adsr_envelopes_hash();
    let l = lfo_hash();
    let x = panics_hash();
    println!(
        "DIFFHASH {} params={:016x} adsr_random={:016x} adsr_envelopes={:016x} lfo={:016x} panics={:016x}",
        profile, p, r, e, l, x
    );
}
