//! Differential test for `synth_utils::quantizer`.
//!
//! Drives the quantizer through long pseudo-random histories of `allow`, `forbid`, `convert` and `is_allowed` calls
//! (fixed-seed LCG, edge values included) and hashes every observable output with FNV-1a. The hashes are printed
//! (`cargo test --offline --test diff_test -- --nocapture`) and compared with the values measured on the unmodified
//! crate, so the test fails as soon as any refactoring changes a single output bit.
//!
//! Copy to `tests/diff_test.rs` of the crate to run. Only the public API is used.

use synth_utils::quantizer::{
    Conversion, Note, Quantizer, HALF_SEMITONE_WIDTH, NUM_NOTES_PER_OCTAVE, SEMITONE_WIDTH,
};

/// Hashes 0..=4 measured on the unmodified crate; they are the same in debug and release builds.
const EXPECTED: [u64; 5] = [
    0x61b0_b524_921d_9885,
    0xfdd4_8d55_7268_a580,
    0xb254_3e60_cab8_063e,
    0x7493_ac51_92b5_c8c1,
    0x6c27_0b4a_e011_ff1d,
];

/// Hash 5 (`negative_zero_probe`) measured on the unmodified crate. The input `-0.0` is the one input for which the
/// unmodified crate itself answers differently in debug and release builds: `(-0.0f32).max(0.0)` is `-0.0` when
/// `f32::max` is called out of line (debug) and `+0.0` when LLVM lowers it inline (release), so the reported fraction
/// is `-0.0` resp. `+0.0`. The sign of that zero is therefore hashed separately, with one expected value per profile;
/// everywhere else a zero fraction produced by a `-0.0` input is hashed without its sign.
const EXPECTED_NEG_ZERO: u64 = if cfg!(debug_assertions) {
    0xec7b_7dfd_7bf4_a9a2
} else {
    0x766b_243a_5c5e_bba2
};

struct Lcg(u64);

impl Lcg {
    fn next(&mut self) -> u32 {
        self.0 = self
            .0
            .wrapping_mul(6364136223846793005)
            .wrapping_add(1442695040888963407);
        (self.0 >> 32) as u32
    }
    fn below(&mut self, n: u32) -> u32 {
        self.next() % n
    }
    fn unit(&mut self) -> f32 {
        (self.next() >> 8) as f32 / (1u32 << 24) as f32
    }
}

struct Fnv(u64);

impl Fnv {
    fn new() -> Self {
        Fnv(0xcbf2_9ce4_8422_2325)
    }
    fn byte(&mut self, b: u8) {
        self.0 ^= b as u64;
        self.0 = self.0.wrapping_mul(0x0000_0100_0000_01b3);
    }
    fn u32(&mut self, v: u32) {
        v.to_le_bytes().iter().for_each(|b| self.byte(*b));
    }
    fn f32(&mut self, v: f32) {
        self.u32(v.to_bits());
    }
    fn conversion(&mut self, c: &Conversion) {
        self.byte(c.note_num);
        self.f32(c.stairstep);
        self.f32(c.fraction);
    }
    /// for the input `-0.0` only: the sign of a zero fraction depends on the build profile, see `EXPECTED_NEG_ZERO`
    fn conversion_of_negative_zero(&mut self, c: &Conversion) {
        self.byte(c.note_num);
        self.f32(c.stairstep);
        self.f32(if c.fraction == 0.0 { 0.0 } else { c.fraction });
    }
    fn scale(&mut self, q: &Quantizer) {
        // every way of building a note, including out-of-range numbers which act as 11
        for n in 0..=13u8 {
            self.byte(q.is_allowed(Note::new(n)) as u8);
            self.byte(q.is_allowed(Note::from(n)) as u8);
        }
        self.byte(q.is_allowed(Note::new(200)) as u8);
        self.byte(q.is_allowed(Note::new(255)) as u8);
    }
}

const NAMED: [Note; 12] = [
    Note::C,
    Note::CSHARP,
    Note::D,
    Note::DSHARP,
    Note::E,
    Note::F,
    Note::FSHARP,
    Note::G,
    Note::GSHARP,
    Note::A,
    Note::ASHARP,
    Note::B,
];

const EDGES: [f32; 40] = [
    0.0,
    -0.0,
    -1.0e-9,
    -0.001,
    -1.0,
    -1.0e30,
    f32::MIN,
    f32::NEG_INFINITY,
    f32::NAN,
    f32::INFINITY,
    f32::MAX,
    1.0e30,
    1.0e-45,
    f32::MIN_POSITIVE,
    f32::EPSILON,
    1.0e-6,
    0.999_997,
    0.999_999_9,
    1.0,
    1.000_000_1,
    9.0,
    9.916_666,
    9.916_667,
    9.958_333,
    9.99,
    9.999_999,
    10.0,
    10.000_001,
    10.01,
    11.0,
    4294.967,
    4294.968,
    4295.0,
    1.0 / 12.0,
    0.5,
    5.0,
    5.0 + 1.0 / 24.0,
    SEMITONE_WIDTH,
    HALF_SEMITONE_WIDTH,
    NUM_NOTES_PER_OCTAVE,
];

/// A pseudo-random input voltage: edge values, values hugging semitone boundaries and the hysteresis bounds,
/// small steps around the previous input, and uniformly distributed values inside and outside `[0, 10]`.
fn pick_input(rng: &mut Lcg, last_v: f32, last: &Conversion) -> f32 {
    match rng.below(12) {
        0 => EDGES[rng.below(EDGES.len() as u32) as usize],
        1 => {
            // exactly on / one or a few ulps around a semitone boundary
            let semis = rng.below(125) as f32;
            let v = semis / 12.0;
            let k = rng.below(7) as i32 - 3;
            f32::from_bits((v.to_bits() as i32 + k).max(0) as u32)
        }
        2 => {
            // around the hysteresis bounds of the previous result
            let h = SEMITONE_WIDTH * 0.1;
            let base = if rng.below(2) == 0 {
                last.stairstep - h
            } else {
                last.stairstep + SEMITONE_WIDTH + h
            };
            let k = rng.below(9) as i32 - 4;
            if base.is_finite() && base > 1.0e-3 {
                f32::from_bits((base.to_bits() as i32 + k) as u32)
            } else {
                base
            }
        }
        3 => last_v + (rng.unit() - 0.5) * 0.02, // noise around the previous input
        4 => last_v + (rng.unit() - 0.5) * 0.4,
        5 => rng.unit() * 12.0 - 1.0, // slightly beyond both ends
        6 => (rng.unit() - 0.5) * 1.0e6,
        7 => f32::from_bits(rng.next()), // any bit pattern at all, NaNs and subnormals included
        8 => rng.below(121) as f32 / 12.0 + HALF_SEMITONE_WIDTH, // mid-bucket
        _ => rng.unit() * 10.0,
    }
}

fn pick_notes(rng: &mut Lcg, buf: &mut [Note; 16]) -> usize {
    let len = match rng.below(8) {
        0 => 0,
        1 => 1,
        2 => 12,
        3 => 16,
        _ => rng.below(12) as usize,
    };
    for slot in buf.iter_mut().take(len) {
        *slot = match rng.below(4) {
            0 => NAMED[rng.below(12) as usize],
            1 => Note::new(rng.below(256) as u8),
            2 => Note::from(rng.below(14) as u8),
            _ => Note::new(rng.below(12) as u8),
        };
    }
    len
}

/// One long random history on a single quantizer.
fn random_history(seed: u64, steps: u32) -> u64 {
    let mut rng = Lcg(seed);
    let mut h = Fnv::new();
    let mut q = Quantizer::new();
    let mut last = Conversion::new();
    let mut last_v = 0.0_f32;
    let mut buf = [Note::C; 16];

    h.conversion(&last);
    h.scale(&q);

    for _ in 0..steps {
        match rng.below(16) {
            0 => {
                let len = pick_notes(&mut rng, &mut buf);
                q.allow(&buf[..len]);
                h.scale(&q);
            }
            1 | 2 => {
                let len = pick_notes(&mut rng, &mut buf);
                q.forbid(&buf[..len]);
                h.scale(&q);
            }
            3 => {
                // try to forbid everything, in a random rotation, so the "last one stays" rule is exercised
                let rot = rng.below(12) as usize;
                let mut all = NAMED;
                all.rotate_left(rot);
                q.forbid(&all);
                h.scale(&q);
            }
            4 => {
                // sparse scale: one or two notes only
                q.allow(&[NAMED[rng.below(12) as usize]]);
                let keep = rng.below(12) as usize;
                let mut all = NAMED;
                all.rotate_left((keep + 1) % 12); // `keep` ends up last
                q.forbid(&all);
                if rng.below(2) == 0 {
                    q.allow(&[Note::new(rng.below(12) as u8)]);
                }
                h.scale(&q);
            }
            5 => {
                if rng.below(4) == 0 {
                    q.allow(&NAMED);
                    h.scale(&q);
                }
            }
            6 => {
                // fresh quantizer with the same scale is not constructible through the API; restart instead
                if rng.below(64) == 0 {
                    q = Quantizer::new();
                    h.scale(&q);
                }
            }
            _ => {
                let v = pick_input(&mut rng, last_v, &last);
                let c = q.convert(v);
                if v == 0.0 && v.is_sign_negative() {
                    h.conversion_of_negative_zero(&c);
                } else {
                    h.conversion(&c);
                }
                last = c;
                if v.is_finite() {
                    last_v = v;
                }
            }
        }
    }
    h.0
}

/// History-free sweep: for many scales, a fresh quantizer per input, over a fine grid of the whole range.
fn fresh_sweep(seed: u64) -> u64 {
    let mut rng = Lcg(seed);
    let mut h = Fnv::new();
    for round in 0..400u32 {
        let mask = match round {
            0 => 0x0fff,
            r if r <= 12 => 1 << (r - 1),
            _ => (rng.below(0x0fff) + 1) as u16,
        };
        let mut forbidden = [Note::C; 12];
        let mut allowed_last = Note::C;
        let mut nf = 0;
        for n in 0..12u8 {
            if mask >> n & 1 == 0 {
                forbidden[nf] = Note::new(n);
                nf += 1;
            } else {
                allowed_last = Note::new(n);
            }
        }
        let _ = allowed_last;
        for i in 0..=1300u32 {
            let v = i as f32 / 128.0 - 0.1 + rng.unit() / 128.0;
            let mut q = Quantizer::new();
            q.forbid(&forbidden[..nf]);
            let c = q.convert(v);
            h.conversion(&c);
        }
        // and one sticky quantizer going up and then down through the same scale
        let mut q = Quantizer::new();
        q.forbid(&forbidden[..nf]);
        for i in (0..=2500u32).chain((0..=2500u32).rev()) {
            let v = i as f32 / 250.0;
            let c = q.convert(v);
            h.conversion(&c);
        }
    }
    h.0
}

/// Scale changes while the input stays put, in every octave.
fn scale_change_hold(seed: u64) -> u64 {
    let mut rng = Lcg(seed);
    let mut h = Fnv::new();
    let mut q = Quantizer::new();
    let mut buf = [Note::C; 16];
    for _ in 0..20_000u32 {
        let v = rng.below(121) as f32 / 12.0 + rng.unit() * SEMITONE_WIDTH;
        h.conversion(&q.convert(v));
        let len = pick_notes(&mut rng, &mut buf);
        if rng.below(2) == 0 {
            q.forbid(&buf[..len]);
        } else {
            q.allow(&buf[..len]);
        }
        h.scale(&q);
        h.conversion(&q.convert(v));
        h.conversion(&q.convert(v));
    }
    h.0
}

/// The input `-0.0`, hashed exactly (profile dependent, see `EXPECTED_NEG_ZERO`): fresh, after a conversion that
/// leaves it inside / outside the hysteresis window, and with C forbidden.
fn negative_zero_probe() -> u64 {
    let mut h = Fnv::new();
    let neg_zero = -0.0_f32;
    for first in [None, Some(0.0_f32), Some(0.05), Some(1.0 / 12.0), Some(0.2), Some(10.0)] {
        for forbid_c in [false, true] {
            let mut q = Quantizer::new();
            if forbid_c {
                q.forbid(&[Note::C]);
            }
            if let Some(v) = first {
                h.conversion(&q.convert(v));
            }
            h.conversion(&q.convert(neg_zero));
            h.conversion(&q.convert(neg_zero));
        }
    }
    h.0
}

fn all_hashes() -> [u64; 5] {
    [
        random_history(0x0123_4567_89ab_cdef, 400_000),
        random_history(42, 400_000),
        random_history(0xdead_beef_cafe_f00d, 400_000),
        fresh_sweep(7),
        scale_change_hold(0x5eed),
    ]
}

#[test]
fn quantizer_outputs_are_bit_identical() {
    let hashes = all_hashes();
    for (i, h) in hashes.iter().enumerate() {
        println!("quantizer diff hash {} = {:#018x}", i, h);
    }
    let combined = hashes.iter().fold(Fnv::new(), |mut f, h| {
        f.u32(*h as u32);
        f.u32((*h >> 32) as u32);
        f
    });
    println!("quantizer diff hash combined = {:#018x}", combined.0);
    let neg_zero = negative_zero_probe();
    println!("quantizer diff hash 5 (negative zero, profile dependent) = {:#018x}", neg_zero);
    assert_eq!(hashes, EXPECTED);
    assert_eq!(neg_zero, EXPECTED_NEG_ZERO);
}
