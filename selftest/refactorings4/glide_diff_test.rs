//! Differential test for the glide processor (src/glide_processor.rs) and the helpers of src/utils.rs.
//!
//! Copy to `tests/diff_test.rs` and run `cargo test --offline --test diff_test -- --nocapture` (and the same with
//! `--release`).  Only the public API of `synth_utils` is used.  Every observable output (every value returned by
//! `GlideProcessor::process`, whether `GlideProcessor::new` panicked, and - because `utils.rs` is shared - every value
//! returned by the ADSR and the LFO, which are the only other users of `linear_interp` / `ilog_2`) is folded into a
//! 64-bit FNV-1a hash.  The hashes are printed and compared with the values obtained on the unmodified crate.
//!
//! NaN results are hashed as one canonical pattern: the sign / payload of a NaN produced by an invalid operation is
//! not specified by Rust and is the only thing allowed to differ.

use std::panic::{catch_unwind, AssertUnwindSafe};

use synth_utils::adsr::{self, Adsr};
use synth_utils::glide_processor::GlideProcessor;
use synth_utils::lfo::{Lfo, Waveshape};

// hashes of the unmodified crate (identical in debug and release builds)
const EXPECT_GLIDE_RANDOM: u64 = 0xb1ea_586d_27b8_d0e5;
const EXPECT_GLIDE_EDGES: u64 = 0xbc9b_3874_88c7_b717;
const EXPECT_GLIDE_SENTINEL: u64 = 0x0a4e_23fa_f7cd_3189;
const EXPECT_GLIDE_STEP: u64 = 0x0270_e6b5_3166_cc79;
const EXPECT_GLIDE_NEW_PANICS: u64 = 0x7c33_652e_0bc4_0b1e;
const EXPECT_ADSR: u64 = 0xb989_d768_1b7b_b8f9;
const EXPECT_LFO: u64 = 0x4516_4316_d6f1_6137;

/// set to true to only print the hashes (used to obtain the `EXPECT_*` values)
const PRINT_ONLY: bool = false;

// ---------------------------------------------------------------------------------------------------------------------

struct Fnv(u64);

impl Fnv {
    fn new() -> Self {
        Fnv(0xcbf2_9ce4_8422_2325)
    }
    fn byte(&mut self, b: u8) {
        self.0 ^= b as u64;
        self.0 = self.0.wrapping_mul(0x0000_0100_0000_01b3);
    }
    fn u32(&mut self, v: u32) {
        for b in v.to_le_bytes() {
            self.byte(b);
        }
    }
    fn f32(&mut self, v: f32) {
        if v.is_nan() {
            self.u32(0x7fc0_0000);
        } else {
            self.u32(v.to_bits());
        }
    }
}

struct Lcg(u64);

impl Lcg {
    fn next(&mut self) -> u32 {
        self.0 = self
            .0
            .wrapping_mul(6364136223846793005)
            .wrapping_add(1442695040888963407);
        (self.0 >> 32) as u32
    }
    /// uniform in [0, 1)
    fn unit(&mut self) -> f32 {
        (self.next() >> 8) as f32 / 16_777_216.0
    }
    fn below(&mut self, n: u32) -> u32 {
        self.next() % n
    }
    fn pick(&mut self, xs: &[f32]) -> f32 {
        xs[self.below(xs.len() as u32) as usize]
    }
}

const SAMPLE_RATES: [f32; 12] = [
    100.0, 441.0, 1_000.0, 8_000.0, 44_100.0, 48_000.0, 96_000.0, 192_000.0,
    // far outside the documented range but accepted: max_fc below min_fc, tiny, huge
    0.3, 0.5, 1.0e-3, 1.0e30,
];

const TIME_EDGES: [f32; 30] = [
    0.0,
    -0.0,
    -1.0,
    -0.96,
    -0.94,
    -1.05,
    -1.06,
    0.001,
    0.01,
    0.049,
    0.05,
    0.051,
    0.1,
    0.5,
    1.0,
    2.0,
    9.95,
    10.0,
    10.05,
    10.06,
    100.0,
    1.0e-40,
    f32::MIN_POSITIVE,
    f32::MAX,
    f32::MIN,
    f32::INFINITY,
    f32::NEG_INFINITY,
    f32::NAN,
    1.0e-7,
    3.0e38,
];

const VALUE_EDGES: [f32; 14] = [
    0.0,
    -0.0,
    1.0,
    -1.0,
    10.0,
    -10.0,
    0.5,
    1.0e-40,
    -1.0e-40,
    1.0e20,
    -1.0e20,
    f32::MIN_POSITIVE,
    5.0,
    0.083_333_336,
];

const VALUE_NON_FINITE: [f32; 5] = [f32::INFINITY, f32::NEG_INFINITY, f32::NAN, f32::MAX, f32::MIN];

/// long random call sequences: many instances, each with a random schedule of `set_time` and `process`
fn glide_random(seed: u64, instances: usize, steps: usize, non_finite: bool) -> u64 {
    let mut h = Fnv::new();
    let mut rng = Lcg(seed);
    for _ in 0..instances {
        let sr = SAMPLE_RATES[rng.below(SAMPLE_RATES.len() as u32) as usize];
        let mut glide = GlideProcessor::new(sr);
        let mut last_t = 0.0_f32;
        let mut target = 0.0_f32;
        for _ in 0..steps {
            match rng.below(16) {
                0 => {
                    let t = rng.pick(&TIME_EDGES);
                    glide.set_time(t);
                    last_t = t;
                }
                1 => {
                    let t = rng.unit() * 10.0;
                    glide.set_time(t);
                    last_t = t;
                }
                2 => {
                    // near the time in effect: exercises the 0.05 s dead band from both sides
                    let t = last_t + (rng.unit() - 0.5) * 0.22;
                    glide.set_time(t);
                    last_t = t;
                }
                3 => {
                    let t = 1.0 / (1.0 + rng.unit() * sr);
                    glide.set_time(t);
                    last_t = t;
                }
                4 => target = rng.pick(&VALUE_EDGES),
                5 => target = (rng.unit() - 0.5) * 20.0,
                6 if non_finite && rng.below(64) == 0 => target = rng.pick(&VALUE_NON_FINITE),
                _ => {}
            }
            h.f32(glide.process(target));
        }
    }
    h.0
}

/// every edge time after every other edge time, at every sample rate
fn glide_edges() -> u64 {
    let mut h = Fnv::new();
    for &sr in SAMPLE_RATES.iter() {
        for &t0 in TIME_EDGES.iter() {
            for &t1 in TIME_EDGES.iter() {
                let mut glide = GlideProcessor::new(sr);
                h.f32(glide.process(1.0));
                glide.set_time(t0);
                h.f32(glide.process(1.0));
                h.f32(glide.process(-2.0));
                glide.set_time(t1);
                for _ in 0..6 {
                    h.f32(glide.process(3.0));
                }
                glide.set_time(t0);
                h.f32(glide.process(0.0));
                h.f32(glide.process(0.0));
            }
        }
    }
    h.0
}

/// the first `set_time` after `new` (the "always updates the first go-round" initial value), swept finely
fn glide_sentinel() -> u64 {
    let mut h = Fnv::new();
    for &sr in [100.0_f32, 1_000.0, 48_000.0].iter() {
        for i in -1500..1500 {
            let t = i as f32 * 0.001;
            let mut glide = GlideProcessor::new(sr);
            glide.set_time(t);
            for _ in 0..4 {
                h.f32(glide.process(1.0));
            }
            // second call, just inside / outside the dead band around the first
            glide.set_time(t + 0.05);
            h.f32(glide.process(0.0));
            glide.set_time(t - 0.0501);
            h.f32(glide.process(0.0));
        }
    }
    h.0
}

/// plain step responses for a grid of times (the C13 / C14 scenario)
fn glide_step() -> u64 {
    let mut h = Fnv::new();
    for &sr in [100.0_f32, 1_000.0, 44_100.0, 192_000.0].iter() {
        for &t in [0.0_f32, 0.002, 0.01, 0.1, 0.5, 1.0, 5.0, 10.0, 20.0].iter() {
            let mut glide = GlideProcessor::new(sr);
            glide.set_time(t);
            h.f32(glide.process(0.0));
            for _ in 0..3_000 {
                h.f32(glide.process(1.0));
            }
            for _ in 0..3_000 {
                h.f32(glide.process(-0.25));
            }
        }
    }
    h.0
}

/// which sample rates make `new` panic (it must stay exactly the same set)
fn glide_new_panics() -> u64 {
    let prev = std::panic::take_hook();
    std::panic::set_hook(Box::new(|_| {}));
    let mut h = Fnv::new();
    let rates = [
        0.0_f32,
        -0.0,
        -1.0,
        f32::NAN,
        f32::NEG_INFINITY,
        f32::INFINITY,
        f32::MAX,
        f32::MIN_POSITIVE,
        1.0e-45, // smallest subnormal
        2.8e-45,
        4.2e-45,
        5.6e-45,
        7.0e-45,
        1.0e-40,
        1.0e-38,
        0.1,
        0.39,
        0.4,
        0.41,
        1.0,
        100.0,
        192_000.0,
    ];
    for &sr in rates.iter() {
        let r = catch_unwind(AssertUnwindSafe(|| {
            let mut glide = GlideProcessor::new(sr);
            let a = glide.process(1.0);
            glide.set_time(0.3);
            let b = glide.process(1.0);
            glide.set_time(0.0);
            let c = glide.process(1.0);
            (a, b, c)
        }));
        match r {
            Ok((a, b, c)) => {
                h.byte(1);
                h.f32(a);
                h.f32(b);
                h.f32(c);
            }
            Err(_) => h.byte(0),
        }
    }
    std::panic::set_hook(prev);
    h.0
}

/// the ADSR uses `linear_interp` and `ilog_2`
fn adsr_random(seed: u64) -> u64 {
    let mut h = Fnv::new();
    let mut rng = Lcg(seed);
    let edges = [0.0_f32, -1.0, 0.001, 0.0005, 0.5, 1.0, 20.0, 25.0, 1.0e9, f32::NAN, f32::INFINITY, f32::NEG_INFINITY];
    for &sr in [100.0_f32, 1_000.0, 48_000.0, 192_000.0].iter() {
        let mut env = Adsr::new(sr);
        for _ in 0..60_000 {
            match rng.below(400) {
                0..=3 => env.gate_on(),
                4..=7 => env.gate_off(),
                8 => env.set_input(adsr::Input::Attack(rng.pick(&edges).into())),
                9 => env.set_input(adsr::Input::Decay(rng.pick(&edges).into())),
                10 => env.set_input(adsr::Input::Sustain(rng.pick(&edges).into())),
                11 => env.set_input(adsr::Input::Release(rng.pick(&edges).into())),
                12 => env.set_input(adsr::Input::Attack((rng.unit() * 0.05).into())),
                13 => env.set_input(adsr::Input::Decay((rng.unit() * 0.05).into())),
                14 => env.set_input(adsr::Input::Sustain(rng.unit().into())),
                15 => env.set_input(adsr::Input::Release((rng.unit() * 0.05).into())),
                _ => {}
            }
            env.tick();
            h.f32(env.value());
        }
    }
    h.0
}

/// the LFO uses `linear_interp` and `ilog_2`
fn lfo_random(seed: u64) -> u64 {
    let mut h = Fnv::new();
    let mut rng = Lcg(seed);
    let phases = [0.0_f32, 0.25, 0.5, 0.75, 1.0, -0.25, -1.0, 3.999, 1.0e6, -1.0e6, 0.999_999_94];
    for &sr in [100.0_f32, 1_000.0, 48_000.0, 192_000.0].iter() {
        let mut lfo = Lfo::new(sr);
        lfo.set_frequency(1.0);
        for _ in 0..40_000 {
            match rng.below(300) {
                0 => lfo.set_frequency(rng.unit() * sr),
                1 => lfo.set_frequency(rng.unit() * 20.0),
                2 => lfo.set_frequency(rng.pick(&[0.0, sr, sr / 2.0, 0.001])),
                3 => lfo.reset(),
                4 => lfo.set_phase(rng.pick(&phases)),
                5 => lfo.set_phase((rng.unit() - 0.5) * 8.0),
                _ => {}
            }
            lfo.tick();
            h.f32(lfo.get(Waveshape::Sine));
            h.f32(lfo.get(Waveshape::Triangle));
            h.f32(lfo.get(Waveshape::UpSaw));
            h.f32(lfo.get(Waveshape::DownSaw));
            h.f32(lfo.get(Waveshape::Square));
        }
    }
    h.0
}

fn check(name: &str, got: u64, want: u64) {
    println!("HASH {name} = 0x{got:016x}");
    if !PRINT_ONLY {
        assert_eq!(got, want, "{name}: observable behaviour differs from the unmodified crate");
    }
}

#[test]
fn differential_hashes() {
    let mut g = Fnv::new();
    for (i, seed) in [1_u64, 0xdead_beef, 0x1234_5678_9abc_def0, 42].iter().enumerate() {
        let part = glide_random(*seed, 400, 2_000, i % 2 == 1);
        for b in part.to_le_bytes() {
            g.byte(b);
        }
    }
    check("glide_random", g.0, EXPECT_GLIDE_RANDOM);
    check("glide_edges", glide_edges(), EXPECT_GLIDE_EDGES);
    check("glide_sentinel", glide_sentinel(), EXPECT_GLIDE_SENTINEL);
    check("glide_step", glide_step(), EXPECT_GLIDE_STEP);
    check("glide_new_panics", glide_new_panics(), EXPECT_GLIDE_NEW_PANICS);
    check("adsr", adsr_random(7), EXPECT_ADSR);
    check("lfo", lfo_random(11), EXPECT_LFO);
}
