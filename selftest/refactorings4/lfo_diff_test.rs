//! Differential test for the LFO module (src/lfo.rs, src/phase_accumulator.rs, src/utils.rs).
//!
//! Drives the public API of `synth_utils` with long pseudo-random call sequences (fixed seeds, simple LCG, lots of
//! edge values) and folds every observable output into FNV-1a hashes: the five waveforms after every call, the
//! `Debug` rendering and `PartialEq` results of the oscillator (these expose the private accumulator state), and
//! whether a call panicked (debug-build overflow checks).  `PhaseAccumulator` and `utils` are private modules, so
//! besides `Lfo` they are exercised through their other clients: `Adsr` (set_period / tick / rolled_over / reset /
//! index / fraction / linear_interp / ilog_2) and `GlideProcessor` (is_almost / fabs).
//!
//! Usage: copy to `tests/diff_test.rs`, then
//!     cargo test --offline --test diff_test -- --nocapture | grep HASH
//!     cargo test --offline --release --test diff_test -- --nocapture | grep HASH
//! and compare the printed lines between the clean crate and the crate with a change applied.

use std::panic::{catch_unwind, AssertUnwindSafe};
use std::sync::atomic::{AtomicU32, Ordering};

/// number of calls that panicked (expected: > 0 in a debug build, 0 in a release build)
static PANICS: AtomicU32 = AtomicU32::new(0);

use synth_utils::adsr::{Adsr, Input};
use synth_utils::glide_processor::GlideProcessor;
use synth_utils::lfo::{Lfo, Waveshape};

// ---------------------------------------------------------------------------------------------------------------------

struct Lcg(u64);

impl Lcg {
    fn next_u32(&mut self) -> u32 {
        self.0 = self
            .0
            .wrapping_mul(6364136223846793005)
            .wrapping_add(1442695040888963407);
        (self.0 >> 32) as u32
    }

    /// uniform-ish in `[0, n)`
    fn below(&mut self, n: u32) -> u32 {
        ((self.next_u32() as u64 * n as u64) >> 32) as u32
    }

    /// uniform in `[0, 1)` with 24 bits
    fn unit(&mut self) -> f32 {
        (self.next_u32() >> 8) as f32 / 16_777_216.0
    }
}

struct Fnv(u64);

impl Fnv {
    fn new() -> Self {
        Fnv(0xcbf2_9ce4_8422_2325)
    }
    fn byte(&mut self, b: u8) {
        self.0 ^= b as u64;
        self.0 = self.0.wrapping_mul(0x0000_0100_0000_01b3);
    }
    fn bytes(&mut self, bs: &[u8]) {
        for b in bs {
            self.byte(*b);
        }
    }
    fn u32(&mut self, v: u32) {
        self.bytes(&v.to_le_bytes());
    }
    fn f32(&mut self, v: f32) {
        self.u32(v.to_bits());
    }
    fn bool(&mut self, v: bool) {
        self.byte(v as u8);
    }
    fn str(&mut self, s: &str) {
        self.bytes(s.as_bytes());
        self.byte(0xff);
    }
}

const SHAPES: [Waveshape; 5] = [
    Waveshape::Sine,
    Waveshape::Triangle,
    Waveshape::UpSaw,
    Waveshape::DownSaw,
    Waveshape::Square,
];

const EDGE: [f32; 40] = [
    0.0,
    -0.0,
    1.0,
    -1.0,
    0.5,
    -0.5,
    0.25,
    0.75,
    -0.25,
    -0.75,
    0.999_999_94,
    1.000_000_1,
    -0.999_999_94,
    2.0,
    -2.0,
    3.5,
    1e-10,
    -1e-10,
    1e10,
    -1e10,
    123.456,
    -123.456,
    16_777_215.0,
    16_777_216.0,
    16_777_217.0,
    -16_777_216.0,
    4_294_967_296.0,
    255.99,
    256.0,
    1000.0,
    f32::MAX,
    f32::MIN,
    f32::MIN_POSITIVE,
    1e-45,
    -1e-45,
    f32::EPSILON,
    f32::INFINITY,
    f32::NEG_INFINITY,
    f32::NAN,
    0.333_333_34,
];

/// an f32 drawn from a mixture: edge values, arbitrary bit patterns, unit interval, moderate range
fn wild_f32(rng: &mut Lcg) -> f32 {
    match rng.below(4) {
        0 => EDGE[rng.below(EDGE.len() as u32) as usize],
        1 => f32::from_bits(rng.next_u32()),
        2 => rng.unit(),
        _ => (rng.unit() - 0.5) * 2000.0,
    }
}

/// all five shapes, each read twice in a shuffled order (reading one must never disturb another)
fn hash_shapes(h: &mut Fnv, lfo: &Lfo, rng: &mut Lcg) {
    for s in SHAPES {
        h.f32(lfo.get(s));
    }
    let start = rng.below(5) as usize;
    for k in 0..5 {
        h.f32(lfo.get(SHAPES[(start + 3 * k) % 5]));
    }
}

fn hash_lfo_state(h: &mut Fnv, lfo: &Lfo, reference: &Lfo) {
    h.str(&format!("{:?}", lfo));
    let copy = *lfo;
    h.bool(copy == *lfo);
    h.bool(*lfo == *reference);
    h.bool(*lfo != *reference);
}

// ---------------------------------------------------------------------------------------------------------------------
// LFO, documented argument ranges: sample rate in [100, 192k], frequency in [0, sample rate], any finite phase

fn lfo_in_range(seed: u64, sample_rate: f32, steps: u32) -> u64 {
    let mut rng = Lcg(seed);
    let mut h = Fnv::new();
    let mut lfo = Lfo::new(sample_rate);
    let reference = Lfo::new(sample_rate);
    hash_lfo_state(&mut h, &lfo, &reference);
    hash_shapes(&mut h, &lfo, &mut rng);

    for step in 0..steps {
        match rng.below(16) {
            0 => {
                // a frequency anywhere in the legal range, biased towards the ends
                let f = match rng.below(6) {
                    0 => 0.0,
                    1 => sample_rate,
                    2 => sample_rate * 0.5,
                    3 => rng.unit() * sample_rate,
                    4 => rng.unit() * rng.unit() * rng.unit() * 20.0,
                    _ => sample_rate / 16_777_216.0 * (rng.below(5) as f32),
                };
                lfo.set_frequency(f);
            }
            1 => {
                let p = match rng.below(5) {
                    0 => EDGE[rng.below(36) as usize], // the finite ones
                    1 => rng.unit(),
                    2 => -rng.unit(),
                    3 => (rng.unit() - 0.5) * 64.0,
                    _ => (rng.below(9) as f32 - 4.0) * 0.25,
                };
                lfo.set_phase(p);
            }
            2 => {
                if rng.below(4) == 0 {
                    lfo.reset();
                }
            }
            3 => {
                // a burst of ticks
                for _ in 0..rng.below(300) {
                    lfo.tick();
                    h.f32(lfo.get(Waveshape::Sine));
                    h.f32(lfo.get(Waveshape::Triangle));
                }
            }
            _ => lfo.tick(),
        }
        hash_shapes(&mut h, &lfo, &mut rng);
        if step % 16 == 0 {
            hash_lfo_state(&mut h, &lfo, &reference);
        }
    }
    hash_lfo_state(&mut h, &lfo, &reference);
    h.0
}

// ---------------------------------------------------------------------------------------------------------------------
// LFO, anything goes: every f32 as sample rate, frequency and phase; panics (debug overflow checks) are recorded

fn lfo_wild(seed: u64, sample_rate: f32, steps: u32) -> u64 {
    let mut rng = Lcg(seed);
    let mut h = Fnv::new();
    let mut lfo = Lfo::new(sample_rate);
    let reference = Lfo::new(sample_rate);
    hash_lfo_state(&mut h, &lfo, &reference);

    for _ in 0..steps {
        let op = rng.below(8);
        let arg = wild_f32(&mut rng);
        let n = rng.below(40);
        let mut work = lfo;
        let outcome = catch_unwind(AssertUnwindSafe(|| {
            match op {
                0 => work.set_frequency(arg),
                1 => work.set_phase(arg),
                2 => work.reset(),
                3 => {
                    for _ in 0..n {
                        work.tick();
                    }
                }
                _ => work.tick(),
            }
            work
        }));
        match outcome {
            Ok(after) => {
                lfo = after;
                h.byte(1);
            }
            Err(_) => {
                // the call panicked: the oscillator keeps the state from before the call
                h.byte(0);
                PANICS.fetch_add(1, Ordering::Relaxed);
                if rng.below(2) == 0 {
                    lfo.set_frequency(rng.unit());
                }
            }
        }
        hash_shapes(&mut h, &lfo, &mut rng);
        hash_lfo_state(&mut h, &lfo, &reference);
    }
    h.0
}

// ---------------------------------------------------------------------------------------------------------------------
// ADSR: the other client of the phase accumulator (set_period, rolled_over) and of linear_interp / ilog_2

fn adsr_run(seed: u64, sample_rate: f32, steps: u32, wild: bool) -> u64 {
    let mut rng = Lcg(seed);
    let mut h = Fnv::new();
    let mut adsr = Adsr::new(sample_rate);
    h.str(&format!("{:?}", adsr));

    for step in 0..steps {
        let op = rng.below(24);
        let arg = if wild || rng.below(8) == 0 {
            wild_f32(&mut rng)
        } else {
            rng.unit() * rng.unit() * 0.05
        };
        let n = rng.below(200);
        let mut work = adsr;
        let outcome = catch_unwind(AssertUnwindSafe(|| {
            match op {
                0 => work.gate_on(),
                1 => work.gate_off(),
                2 => work.set_input(Input::Attack(arg.into())),
                3 => work.set_input(Input::Decay(arg.into())),
                4 => work.set_input(Input::Sustain(arg.into())),
                5 => work.set_input(Input::Release(arg.into())),
                6 => {
                    for _ in 0..n {
                        work.tick();
                    }
                }
                _ => work.tick(),
            }
            work
        }));
        match outcome {
            Ok(after) => {
                adsr = after;
                h.byte(1);
            }
            Err(_) => {
                h.byte(0);
                PANICS.fetch_add(1, Ordering::Relaxed);
            }
        }
        h.f32(adsr.value());
        if wild || step % 8 == 0 {
            h.str(&format!("{:?}", adsr));
        }
    }
    h.str(&format!("{:?}", adsr));
    h.0
}

// ---------------------------------------------------------------------------------------------------------------------
// Glide: the client of is_almost / fabs

fn glide_run(seed: u64, sample_rate: f32, steps: u32) -> u64 {
    let mut rng = Lcg(seed);
    let mut h = Fnv::new();
    let mut glide = GlideProcessor::new(sample_rate);
    let mut last_t = 0.5_f32;

    for _ in 0..steps {
        if rng.below(4) == 0 {
            // times around the previous one probe both edges of the 0.05 s "unchanged" window
            let t = match rng.below(8) {
                0 => last_t + 0.05,
                1 => last_t - 0.05,
                2 => f32::from_bits(
                    (last_t + 0.05)
                        .to_bits()
                        .wrapping_add(rng.below(5))
                        .wrapping_sub(2),
                ),
                3 => f32::from_bits(
                    (last_t - 0.05)
                        .to_bits()
                        .wrapping_add(rng.below(5))
                        .wrapping_sub(2),
                ),
                4 => last_t + (rng.unit() - 0.5) * 0.2,
                5 => [
                    0.0,
                    -0.0,
                    10.0,
                    0.05,
                    0.049_999_997,
                    0.050_000_004,
                    1e-6,
                    100.0,
                ][rng.below(8) as usize],
                _ => rng.unit() * 10.0,
            };
            let t = if t.is_finite() && t >= 0.0 { t } else { 0.0 };
            glide.set_time(t);
            last_t = t;
        }
        let v = if rng.below(16) == 0 {
            (rng.unit() - 0.5) * 20.0
        } else {
            1.0
        };
        h.f32(glide.process(v));
    }
    h.0
}

// ---------------------------------------------------------------------------------------------------------------------

#[test]
fn differential_hashes() {
    // the panics provoked on purpose in the wild runs should not flood the output
    std::panic::set_hook(Box::new(|_| {}));

    let mut total = Fnv::new();
    let mut report = |name: &str, value: u64| {
        println!("HASH {:<28} {:016x}", name, value);
        total.bytes(&value.to_le_bytes());
    };

    let rates = [
        100.0_f32, 1_000.0, 8_000.0, 44_100.0, 48_000.0, 96_000.0, 192_000.0,
    ];
    for (i, sr) in rates.iter().enumerate() {
        report(
            &format!("lfo_in_range sr={}", sr),
            lfo_in_range(0x1f0_0001 + i as u64, *sr, 100_000),
        );
    }

    let wild_rates = [
        1_000.0_f32,
        48_000.0,
        1.0,
        0.001,
        1e-30,
        0.0,
        -0.0,
        -1_000.0,
        3.0e9,
        f32::MAX,
        f32::INFINITY,
        f32::NEG_INFINITY,
        f32::NAN,
    ];
    for (i, sr) in wild_rates.iter().enumerate() {
        report(
            &format!("lfo_wild sr={}", sr),
            lfo_wild(0xbad_0001 + 7 * i as u64, *sr, 40_000),
        );
    }

    for (i, sr) in rates.iter().enumerate() {
        report(
            &format!("adsr sr={}", sr),
            adsr_run(0xad5_0001 + i as u64, *sr, 100_000, false),
        );
    }
    for (i, sr) in wild_rates.iter().enumerate() {
        report(
            &format!("adsr_wild sr={}", sr),
            adsr_run(0xad5_1001 + i as u64, *sr, 20_000, true),
        );
    }

    for (i, sr) in [1_000.0_f32, 48_000.0].iter().enumerate() {
        report(
            &format!("glide sr={}", sr),
            glide_run(0x911_de01 + i as u64, *sr, 100_000),
        );
    }

    let _ = std::panic::take_hook();
    let total = total.0;
    println!("HASH {:<28} {:016x}", "TOTAL", total);
    println!(
        "HASH {:<28} {}",
        "calls that panicked",
        PANICS.load(Ordering::Relaxed)
    );
}
