//! Differential test for `synth_utils::mono_midi_receiver`.
//!
//! Drives `MonoMidiReceiver` through long pseudo-random call sequences (fixed seeds, simple LCG) using only the public
//! API, and folds every observable output into an FNV-1a hash after every single byte. The hash printed by each test
//! must be identical on the clean crate and with any behaviour-preserving change applied.
//!
//! Usage: copy to `tests/diff_test.rs` and run `cargo test --offline --test diff_test -- --nocapture`
//! (and the same with `--release`).

use synth_utils::mono_midi_receiver::{MonoMidiReceiver, NotePriority, RetriggerMode};

/// Hashes obtained on the clean crate (debug and release builds agree).
const EXPECTED_STRUCTURED: u64 = 0x7d186b24733c138f;
const EXPECTED_RAW: u64 = 0xffa92adde702be9c;
const EXPECTED_STRESS: u64 = 0xea38c573a9b29be8;
const EXPECTED_EXHAUSTIVE: u64 = 0xbf7feef2cabdc187;

struct Lcg(u64);

impl Lcg {
    fn next(&mut self) -> u32 {
        self.0 = self
            .0
            .wrapping_mul(6364136223846793005)
            .wrapping_add(1442695040888963407);
        (self.0 >> 33) as u32
    }

    fn below(&mut self, n: u32) -> u32 {
        self.next() % n
    }

    fn byte(&mut self) -> u8 {
        (self.next() >> 8) as u8
    }

    fn data7(&mut self) -> u8 {
        // biased towards the edge values
        match self.below(10) {
            0 => 0,
            1 => 127,
            2 => 63,
            3 => 64,
            4 => 1,
            _ => (self.next() >> 5) as u8 & 0x7F,
        }
    }
}

struct Fnv(u64);

impl Fnv {
    fn new() -> Self {
        Fnv(0xcbf29ce484222325)
    }

    fn u8(&mut self, b: u8) {
        self.0 ^= b as u64;
        self.0 = self.0.wrapping_mul(0x100000001b3);
    }

    fn u32(&mut self, w: u32) {
        for b in w.to_le_bytes() {
            self.u8(b);
        }
    }

    fn f32(&mut self, x: f32) {
        self.u32(x.to_bits());
    }

    fn bool(&mut self, b: bool) {
        self.u8(b as u8);
    }
}

/// hash every output which can be read without changing the receiver
fn observe(mr: &MonoMidiReceiver, h: &mut Fnv) {
    h.u8(mr.note_num());
    h.f32(mr.pitch_bend());
    h.f32(mr.velocity());
    h.f32(mr.mod_wheel());
    h.f32(mr.volume());
    h.f32(mr.vcf_cutoff());
    h.f32(mr.vcf_resonance());
    h.f32(mr.portamento_time());
    h.bool(mr.portamento_enabled());
    h.bool(mr.sustain_enabled());
    h.bool(mr.gate());
}

/// sometimes read the self-clearing edge flags, in either order, sometimes twice
fn maybe_read_edges(mr: &mut MonoMidiReceiver, rng: &mut Lcg, h: &mut Fnv) {
    match rng.below(12) {
        0 => {
            h.u8(0xA0);
            h.bool(mr.rising_gate());
        }
        1 => {
            h.u8(0xA1);
            h.bool(mr.falling_gate());
        }
        2 => {
            h.u8(0xA2);
            h.bool(mr.rising_gate());
            h.bool(mr.falling_gate());
        }
        3 => {
            h.u8(0xA3);
            h.bool(mr.falling_gate());
            h.bool(mr.rising_gate());
        }
        4 => {
            h.u8(0xA4);
            h.bool(mr.rising_gate());
            h.bool(mr.rising_gate());
            h.bool(mr.falling_gate());
            h.bool(mr.falling_gate());
        }
        _ => h.u8(0xAF),
    }
    observe(mr, h);
}

fn maybe_change_modes(mr: &mut MonoMidiReceiver, rng: &mut Lcg, h: &mut Fnv) {
    match rng.below(60) {
        0 => {
            h.u8(0xB0);
            mr.set_retrigger_mode(RetriggerMode::AllowRetrigger);
        }
        1 => {
            h.u8(0xB1);
            mr.set_retrigger_mode(RetriggerMode::NoRetrigger);
        }
        2 => {
            h.u8(0xB2);
            mr.set_note_priority(NotePriority::Last);
        }
        3 => {
            h.u8(0xB3);
            mr.set_note_priority(NotePriority::High);
        }
        4 => {
            h.u8(0xB4);
            mr.set_note_priority(NotePriority::Low);
        }
        _ => return,
    }
    observe(mr, h);
}

fn feed(mr: &mut MonoMidiReceiver, byte: u8, rng: &mut Lcg, h: &mut Fnv) {
    mr.parse(byte);
    h.u8(byte);
    observe(mr, h);
    maybe_read_edges(mr, rng, h);
    maybe_change_modes(mr, rng, h);
}

const INTERESTING_CCS: [u8; 16] = [
    0x01, 0x07, 0x47, 0x4A, 0x40, 0x41, 0x05, 0x79, 0x7B, 0x00, 0x02, 0x06, 0x78, 0x7A, 0x7C, 0x7F,
];

const REAL_TIME: [u8; 8] = [0xF8, 0xF9, 0xFA, 0xFB, 0xFC, 0xFD, 0xFE, 0xFF];

/// push one more or less well-formed MIDI message (or fragment) into `out`
fn gen_message(rng: &mut Lcg, listen: u8, notes: &[u8], out: &mut Vec<u8>) {
    // mostly the listened channel, sometimes another
    let ch = if rng.below(5) == 0 {
        rng.below(16) as u8
    } else {
        listen.min(15)
    };
    // sometimes leave the status byte away (running status)
    let with_status = rng.below(4) != 0;
    let note = if rng.below(8) == 0 {
        rng.data7()
    } else {
        notes[rng.below(notes.len() as u32) as usize]
    };

    match rng.below(100) {
        0..=34 => {
            // note on, sometimes with velocity zero
            if with_status {
                out.push(0x90 | ch);
            }
            out.push(note);
            out.push(if rng.below(6) == 0 { 0 } else { rng.data7() });
        }
        35..=59 => {
            if with_status {
                out.push(0x80 | ch);
            }
            out.push(note);
            out.push(rng.data7());
        }
        60..=79 => {
            if with_status {
                out.push(0xB0 | ch);
            }
            let cc = if rng.below(6) == 0 {
                rng.data7()
            } else {
                INTERESTING_CCS[rng.below(INTERESTING_CCS.len() as u32) as usize]
            };
            // all-notes-off and reset-all-controllers made rarer so that state can build up
            let cc = if (cc == 0x7B || cc == 0x79) && rng.below(3) != 0 {
                0x01
            } else {
                cc
            };
            out.push(cc);
            out.push(rng.data7());
        }
        80..=87 => {
            if with_status {
                out.push(0xE0 | ch);
            }
            match rng.below(6) {
                0 => out.extend_from_slice(&[0, 0]),
                1 => out.extend_from_slice(&[0x7F, 0x7F]),
                2 => out.extend_from_slice(&[0, 0x40]),
                3 => out.extend_from_slice(&[1, 0x40]),
                4 => out.extend_from_slice(&[0x7F, 0x3F]),
                _ => {
                    out.push(rng.data7());
                    out.push(rng.data7());
                }
            }
        }
        88..=89 => {
            // key pressure (three bytes, unsupported)
            out.push(0xA0 | ch);
            out.push(rng.data7());
            out.push(rng.data7());
        }
        90..=91 => {
            // program change / channel pressure (two bytes, unsupported)
            out.push(if rng.below(2) == 0 { 0xC0 } else { 0xD0 } | ch);
            out.push(rng.data7());
        }
        92..=93 => {
            // system exclusive with payload, sometimes unterminated
            out.push(0xF0);
            for _ in 0..rng.below(6) {
                out.push(rng.data7());
            }
            if rng.below(3) != 0 {
                out.push(0xF7);
            }
        }
        94..=95 => {
            // system common
            match rng.below(4) {
                0 => {
                    out.push(0xF1);
                    out.push(rng.data7());
                }
                1 => {
                    out.push(0xF2);
                    out.push(rng.data7());
                    out.push(rng.data7());
                }
                2 => {
                    out.push(0xF3);
                    out.push(rng.data7());
                }
                _ => out.push(0xF6),
            }
        }
        96..=97 => {
            // truncated message: status and maybe one data byte only
            out.push((0x80 | (rng.below(7) as u8) << 4) | ch);
            if rng.below(2) == 0 {
                out.push(rng.data7());
            }
        }
        _ => {
            // stray bytes
            for _ in 0..1 + rng.below(3) {
                out.push(rng.byte());
            }
        }
    }

    // sprinkle real-time bytes anywhere, even inside the message
    if rng.below(5) == 0 {
        let at = rng.below(out.len() as u32 + 1) as usize;
        out.insert(at, REAL_TIME[rng.below(8) as usize]);
    }
}

fn run_structured(seed: u64, channel: u8, messages: usize, wide_notes: bool, h: &mut Fnv) {
    let mut rng = Lcg(seed);
    let mut mr = MonoMidiReceiver::new(channel);
    h.u8(channel);
    observe(&mr, h);
    h.bool(mr.rising_gate());
    h.bool(mr.falling_gate());

    // a small pool of notes makes repeated note-ons / matching note-offs likely, a wide pool fills the note buffer
    let pool: Vec<u8> = if wide_notes {
        (0..48).map(|i| (i * 5 + 3) as u8 & 0x7F).collect()
    } else {
        vec![0, 1, 60, 60, 61, 64, 126, 127]
    };

    let mut msg = Vec::new();
    for _ in 0..messages {
        msg.clear();
        gen_message(&mut rng, channel, &pool, &mut msg);
        for &b in &msg {
            feed(&mut mr, b, &mut rng, h);
        }
    }
}

#[test]
fn structured_streams() {
    let mut h = Fnv::new();
    let channels = [0u8, 1, 7, 15, 16, 200, 255];
    for (i, &ch) in channels.iter().enumerate() {
        run_structured(0x1234_5678 + i as u64, ch, 6_000, false, &mut h);
        run_structured(0x9abc_def0 + i as u64, ch, 6_000, true, &mut h);
    }
    println!("DIFF_HASH structured {:016x}", h.0);
    assert_eq!(h.0, EXPECTED_STRUCTURED);
}

#[test]
fn raw_byte_streams() {
    let mut h = Fnv::new();
    for (i, &ch) in [0u8, 3, 15, 99].iter().enumerate() {
        let mut rng = Lcg(0xfeed_beef + 17 * i as u64);
        let mut mr = MonoMidiReceiver::new(ch);
        for k in 0..60_000u32 {
            // phases of completely random bytes and phases with mostly data bytes (long running-status runs)
            let b = if (k / 5_000) % 2 == 0 {
                rng.byte()
            } else if rng.below(12) == 0 {
                rng.byte() | 0x80
            } else {
                rng.data7()
            };
            feed(&mut mr, b, &mut rng, &mut h);
        }
    }
    println!("DIFF_HASH raw {:016x}", h.0);
    assert_eq!(h.0, EXPECTED_RAW);
}

/// more notes held than the receiver can remember, in every priority / retrigger combination
#[test]
fn held_note_buffer_stress() {
    let mut h = Fnv::new();
    let mut rng = Lcg(42);
    for prio in 0..3 {
        for retrig in 0..2 {
            for order in 0..3 {
                let mut mr = MonoMidiReceiver::new(5);
                mr.set_note_priority(match prio {
                    0 => NotePriority::Last,
                    1 => NotePriority::High,
                    _ => NotePriority::Low,
                });
                mr.set_retrigger_mode(if retrig == 0 {
                    RetriggerMode::NoRetrigger
                } else {
                    RetriggerMode::AllowRetrigger
                });
                let note = |i: u32| -> u8 {
                    match order {
                        0 => (10 + i) as u8,
                        1 => (100 - i) as u8,
                        _ => ((i * 37) % 128) as u8,
                    }
                };
                feed(&mut mr, 0x95, &mut rng, &mut h);
                for i in 0..40 {
                    feed(&mut mr, note(i), &mut rng, &mut h);
                    feed(&mut mr, (1 + i) as u8, &mut rng, &mut h);
                }
                // the same note many times
                for _ in 0..40 {
                    feed(&mut mr, 64, &mut rng, &mut h);
                    feed(&mut mr, 100, &mut rng, &mut h);
                }
                // release them one by one, some with note-off, some with velocity zero
                for i in 0..40 {
                    if i % 3 == 0 {
                        feed(&mut mr, 0x85, &mut rng, &mut h);
                        feed(&mut mr, note(i), &mut rng, &mut h);
                        feed(&mut mr, 77, &mut rng, &mut h);
                        feed(&mut mr, 0x95, &mut rng, &mut h);
                    } else {
                        feed(&mut mr, note(i), &mut rng, &mut h);
                        feed(&mut mr, 0, &mut rng, &mut h);
                    }
                }
                feed(&mut mr, 64, &mut rng, &mut h);
                feed(&mut mr, 0, &mut rng, &mut h);
                // stray note-off, then build up again and use all-notes-off
                feed(&mut mr, 12, &mut rng, &mut h);
                feed(&mut mr, 0, &mut rng, &mut h);
                for i in 0..35 {
                    feed(&mut mr, note(i), &mut rng, &mut h);
                    feed(&mut mr, 127, &mut rng, &mut h);
                }
                for b in [
                    0xB5, 0x7B, 0x00, 0x7B, 0x00, 0x95, 30, 1, 0xB5, 0x79, 0, 0x7B, 5,
                ] {
                    feed(&mut mr, b, &mut rng, &mut h);
                }
                h.bool(mr.rising_gate());
                h.bool(mr.falling_gate());
                observe(&mr, &mut h);
            }
        }
    }
    println!("DIFF_HASH stress {:016x}", h.0);
    assert_eq!(h.0, EXPECTED_STRESS);
}

/// every controller number with every value, every pitch bend value, every velocity, on a fresh and on a used receiver
#[test]
fn exhaustive_controllers_pitch_bend_velocity() {
    let mut h = Fnv::new();
    let mut mr = MonoMidiReceiver::new(9);
    let mut rng = Lcg(7);

    for cc in 0..128u32 {
        for val in 0..128u32 {
            // a note is held through the first half of the controllers, so all-notes-off is seen in both gate states
            if val == 0 && cc < 64 {
                for b in [0x99, 50 + (cc as u8 & 7), 90] {
                    feed(&mut mr, b, &mut rng, &mut h);
                }
            }
            if val % 16 == 0 {
                mr.parse(0xB9);
            }
            mr.parse(cc as u8);
            mr.parse(val as u8);
            observe(&mr, &mut h);
        }
        h.bool(mr.rising_gate());
        h.bool(mr.falling_gate());
    }

    mr.parse(0xE9);
    for msb in 0..128u32 {
        for lsb in 0..128u32 {
            mr.parse(lsb as u8);
            mr.parse(msb as u8);
            h.f32(mr.pitch_bend());
        }
    }
    observe(&mr, &mut h);
    // reset-all-controllers after a bend
    for b in [0xB9, 0x79, 0x00] {
        feed(&mut mr, b, &mut rng, &mut h);
    }

    for vel in 0..128u32 {
        for b in [0x99, 33, vel as u8] {
            feed(&mut mr, b, &mut rng, &mut h);
        }
        h.bool(mr.rising_gate());
        h.bool(mr.falling_gate());
        for b in [0x89, 33, vel as u8] {
            feed(&mut mr, b, &mut rng, &mut h);
        }
        h.bool(mr.falling_gate());
        h.bool(mr.rising_gate());
    }

    println!("DIFF_HASH exhaustive {:016x}", h.0);
    assert_eq!(h.0, EXPECTED_EXHAUSTIVE);
}
