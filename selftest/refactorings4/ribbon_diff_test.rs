//! Differential test for `synth_utils::ribbon_controller` (public API only).
//!
//! Copy to `tests/diff_test.rs` of the crate and run
//!
//! ```text
//! cargo test --offline --test diff_test -- --nocapture
//! cargo test --offline --release --test diff_test -- --nocapture
//! ```
//!
//! It drives ribbon controllers of many sizes with long pseudo-random call sequences (fixed seeds, simple LCG) and folds
//! every observable output into FNV-1a hashes, which are printed and compared with the values recorded on the
//! unmodified crate.
//!
//! Two hashes are kept for the well-formed configurations:
//! * `canon` - every NaN output is hashed as one canonical token (Rust leaves NaN payload/sign bits unspecified),
//! * `raw`   - the exact `to_bits()` of every output.
//!
//! A third hash (`abuse`) covers configurations outside the documented range (buffer smaller than the discard count,
//! sample rates that overflow the `u32` arithmetic of the constructor, NaN/inf/negative sample rates and resistor values).
//! There a debug build is expected to panic where a release build wraps, so every step is run under `catch_unwind`
//! and "panicked" is itself hashed as an observable outcome; this hash legitimately differs between the debug and the
//! release profile, but must not differ between the clean crate and a refactored crate within one profile.

use std::panic::{catch_unwind, AssertUnwindSafe};
use synth_utils::ribbon_controller::{sample_rate_to_capacity, RibbonController};

// ---------------------------------------------------------------------------------------------------------------------
// hashing and pseudo-random numbers
// ---------------------------------------------------------------------------------------------------------------------

#[derive(Clone, Copy)]
struct Fnv(u64);

impl Fnv {
    fn new() -> Self {
        Fnv(0xcbf2_9ce4_8422_2325)
    }
    fn byte(&mut self, b: u8) {
        self.0 ^= b as u64;
        self.0 = self.0.wrapping_mul(0x0000_0100_0000_01b3);
    }
    fn u32(&mut self, v: u32) {
        for b in v.to_le_bytes() {
            self.byte(b);
        }
    }
    fn u64(&mut self, v: u64) {
        for b in v.to_le_bytes() {
            self.byte(b);
        }
    }
    fn flag(&mut self, v: bool) {
        self.byte(if v { 0xA5 } else { 0x5A });
    }
}

/// Both hashes at once
struct Hashes {
    canon: Fnv,
    raw: Fnv,
}

impl Hashes {
    fn new() -> Self {
        Hashes {
            canon: Fnv::new(),
            raw: Fnv::new(),
        }
    }
    fn f32(&mut self, v: f32) {
        self.raw.u32(v.to_bits());
        self.canon
            .u32(if v.is_nan() { 0x7fc0_0000 } else { v.to_bits() });
    }
    fn flag(&mut self, v: bool) {
        self.raw.flag(v);
        self.canon.flag(v);
    }
    fn u64(&mut self, v: u64) {
        self.raw.u64(v);
        self.canon.u64(v);
    }
}

struct Lcg(u64);

impl Lcg {
    fn next(&mut self) -> u32 {
        self.0 = self
            .0
            .wrapping_mul(6364136223846793005)
            .wrapping_add(1442695040888963407);
        (self.0 >> 32) as u32
    }
    fn below(&mut self, n: u32) -> u32 {
        if n == 0 {
            0
        } else {
            self.next() % n
        }
    }
    /// uniform in [0, 1)
    fn unit(&mut self) -> f32 {
        (self.next() >> 8) as f32 / 16_777_216.0
    }
}

// ---------------------------------------------------------------------------------------------------------------------
// stimulus
// ---------------------------------------------------------------------------------------------------------------------

/// Values that deserve to be seen regardless of the random stream.
///
/// `boundary` is (an approximation computed by the test of) the in-range / out-of-range threshold.
fn edge_value(rng: &mut Lcg, boundary: f32) -> f32 {
    match rng.below(24) {
        0 => 0.0,
        1 => -0.0,
        2 => 1.0,
        3 => boundary,
        4 => f32::from_bits(boundary.to_bits().wrapping_sub(1)),
        5 => f32::from_bits(boundary.to_bits().wrapping_add(1)),
        6 => f32::MIN_POSITIVE,
        7 => f32::from_bits(1), // smallest subnormal
        8 => -f32::MIN_POSITIVE,
        9 => -1.0,
        10 => -0.5,
        11 => 1.0e30,
        12 => -1.0e30,
        13 => f32::MAX,
        14 => f32::MIN,
        15 => f32::NAN,
        16 => -f32::NAN,
        17 => f32::INFINITY,
        18 => f32::NEG_INFINITY,
        19 => 0.5,
        20 => f32::EPSILON,
        21 => 0.999_999_94,
        22 => 2.0,
        _ => 1.0e-20,
    }
}

/// One stimulus segment: `len` samples of a given flavour
#[derive(Clone, Copy)]
enum Flavour {
    /// uniformly random in-range samples
    InRangeRandom,
    /// a constant in-range sample
    InRangeConst(f32),
    /// a linear ramp between two in-range values
    Ramp(f32, f32),
    /// uniformly random samples in [0, 1], some of which are out of range
    FullScaleRandom,
    /// in-range samples with an out-of-range glitch with probability 1/`n` per sample
    Glitchy(u32),
    /// out-of-range samples
    Lifted,
    /// edge values, wild
    Edges,
    /// in-range samples with an occasional wild in-range value (negative, tiny, ...)
    InRangeWithEdges,
}

fn pick_flavour(rng: &mut Lcg, boundary: f32, well_formed_only: bool) -> Flavour {
    let b = if boundary.is_finite() && boundary > 0.0 {
        boundary
    } else {
        0.9
    };
    match rng.below(if well_formed_only { 12 } else { 16 }) {
        0..=2 => Flavour::InRangeRandom,
        3 => Flavour::InRangeConst(rng.unit() * b * 0.999),
        4 | 5 => Flavour::Ramp(rng.unit() * b * 0.999, rng.unit() * b * 0.999),
        6 => Flavour::FullScaleRandom,
        7 => Flavour::Glitchy(1 + rng.below(400)),
        8 | 9 => Flavour::Lifted,
        10 => Flavour::Glitchy(2000 + rng.below(4000)),
        11 => Flavour::InRangeConst(if rng.below(2) == 0 { 0.0 } else { -0.0 }),
        12 | 13 => Flavour::Edges,
        _ => Flavour::InRangeWithEdges,
    }
}

fn sample(rng: &mut Lcg, fl: Flavour, i: u32, len: u32, boundary: f32) -> f32 {
    let b = if boundary.is_finite() && boundary > 0.0 {
        boundary
    } else {
        0.9
    };
    match fl {
        Flavour::InRangeRandom => rng.unit() * b * 0.999,
        Flavour::InRangeConst(c) => c,
        Flavour::Ramp(from, to) => from + (to - from) * (i as f32 / len.max(1) as f32),
        Flavour::FullScaleRandom => {
            // mostly below the boundary, so that presses do occur
            let u = rng.unit();
            if rng.below(300) == 0 {
                b + (1.0 - b) * u
            } else {
                u * b
            }
        }
        Flavour::Glitchy(n) => {
            if rng.below(n) == 0 {
                1.0
            } else {
                rng.unit() * b * 0.999
            }
        }
        Flavour::Lifted => b + (1.0 - b) * rng.unit(),
        Flavour::Edges => edge_value(rng, boundary),
        Flavour::InRangeWithEdges => {
            if rng.below(50) == 0 {
                edge_value(rng, boundary)
            } else {
                rng.unit() * b * 0.999
            }
        }
    }
}

// ---------------------------------------------------------------------------------------------------------------------
// drivers
// ---------------------------------------------------------------------------------------------------------------------

/// Observe the controller; the self-clearing getters are only read every now and then, so that pending edges survive
/// across many polls, and are read in either order.
fn observe<const N: usize>(rib: &mut RibbonController<N>, rng: &mut Lcg, h: &mut Hashes) {
    h.f32(rib.value());
    h.flag(rib.finger_is_pressing());
    match rng.below(16) {
        0 => {
            h.flag(rib.finger_just_pressed());
        }
        1 => {
            h.flag(rib.finger_just_released());
        }
        2 => {
            h.flag(rib.finger_just_pressed());
            h.flag(rib.finger_just_released());
        }
        3 => {
            h.flag(rib.finger_just_released());
            h.flag(rib.finger_just_pressed());
            // reading twice must yield false the second time
            h.flag(rib.finger_just_released());
            h.flag(rib.finger_just_pressed());
        }
        _ => {}
    }
}

/// Drive a well-formed controller (`N` from the helper, finite resistor values, samples of any kind when `wild`).
#[allow(clippy::too_many_arguments)]
fn drive<const N: usize>(
    seed: u64,
    sample_rate_hz: f32,
    softpot: f32,
    dropper: f32,
    pullup: f32,
    num_polls: u32,
    wild: bool,
    h: &mut Hashes,
) {
    let mut rng = Lcg(seed);
    let mut rib = RibbonController::<N>::new(sample_rate_hz, softpot, dropper, pullup);
    let boundary = 1.0 - (dropper / (dropper + softpot));

    h.u64(N as u64);
    // observable before any poll
    h.f32(rib.value());
    h.flag(rib.finger_is_pressing());
    h.flag(rib.finger_just_pressed());
    h.flag(rib.finger_just_released());

    let mut done = 0u32;
    let mut presses = 0u32;
    let mut was_pressing = false;
    while done < num_polls {
        let fl = pick_flavour(&mut rng, boundary, !wild);
        // segment lengths from 1 to about 3 capture times, biased so that both short taps and full presses occur
        let len = match rng.below(4) {
            0 => 1 + rng.below(8),
            1 => 1 + rng.below(N as u32 + 2),
            _ => 1 + rng.below(3 * N as u32 + 50),
        };
        for i in 0..len {
            let s = sample(&mut rng, fl, i, len, boundary);
            rib.poll(s);
            observe(&mut rib, &mut rng, h);
            let p = rib.finger_is_pressing();
            if p && !was_pressing {
                presses += 1;
            }
            was_pressing = p;
            done += 1;
        }
    }
    // make sure that the sequences are not vacuous
    h.u64(presses as u64);
    assert!(
        presses > 3 || !sample_rate_hz.is_finite(),
        "stimulus too weak: only {} presses (N = {})",
        presses,
        N
    );
}

/// Drive a controller outside of the documented range. Every call runs under `catch_unwind`; a panic is hashed as an
/// outcome and ends the sequence.
fn abuse<const N: usize>(
    seed: u64,
    sample_rate_hz: f32,
    softpot: f32,
    dropper: f32,
    pullup: f32,
    num_polls: u32,
    h: &mut Hashes,
) {
    let mut rng = Lcg(seed);
    h.u64(N as u64);
    let made = catch_unwind(|| RibbonController::<N>::new(sample_rate_hz, softpot, dropper, pullup));
    let mut rib = match made {
        Ok(rib) => {
            h.flag(true);
            rib
        }
        Err(_) => {
            h.flag(false);
            return;
        }
    };
    let boundary = 1.0 - (dropper / (dropper + softpot));
    h.f32(rib.value());

    let mut done = 0u32;
    while done < num_polls {
        let fl = pick_flavour(&mut rng, boundary, false);
        let len = 1 + rng.below(3 * N as u32 + 50);
        for i in 0..len {
            let s = sample(&mut rng, fl, i, len, boundary);
            let r = catch_unwind(AssertUnwindSafe(|| rib.poll(s)));
            h.u64(done as u64);
            h.flag(r.is_ok());
            if r.is_err() {
                return;
            }
            observe(&mut rib, &mut rng, h);
            done += 1;
        }
    }
}

// ---------------------------------------------------------------------------------------------------------------------
// the test
// ---------------------------------------------------------------------------------------------------------------------

/// (canon, raw, abuse) as recorded on the unmodified crate
#[cfg(debug_assertions)]
const EXPECTED: (u64, u64, u64) = (
    0x836c_04cb_766f_d3b6,
    0xcc5f_693f_9e02_06b6,
    0x952d_d751_0cab_74a5,
);
#[cfg(not(debug_assertions))]
const EXPECTED: (u64, u64, u64) = (
    0x836c_04cb_766f_d3b6,
    0xcc5f_693f_9e02_06b6,
    0xc46c_2593_eced_530a,
);

macro_rules! well_formed {
    ($h:expr, $seed:expr, $sr:expr, $polls:expr) => {{
        const N: usize = sample_rate_to_capacity($sr);
        // the resistor values of the crate's own tests and example
        drive::<N>($seed, $sr as f32, 20E3, 820.0, 1E6, $polls, false, $h);
        // a 10k softpot with other resistors, and samples of every kind (negative, huge, NaN, inf)
        drive::<N>($seed ^ 0x9E37_79B9, $sr as f32, 10E3, 470.0, 220E3, $polls, true, $h);
    }};
}

#[test]
fn ribbon_differential() {
    // the abuse cases panic on purpose in debug builds; keep the output readable
    std::panic::set_hook(Box::new(|_| {}));

    let mut h = Hashes::new();

    // sample rates over the documented range [100 Hz, 192 kHz]; the low ones give zero ignore / discard counts
    well_formed!(&mut h, 1, 100, 4_000);
    well_formed!(&mut h, 2, 101, 4_000);
    well_formed!(&mut h, 3, 499, 8_000);
    well_formed!(&mut h, 4, 500, 8_000);
    well_formed!(&mut h, 5, 999, 10_000);
    well_formed!(&mut h, 6, 1_000, 10_000);
    well_formed!(&mut h, 7, 1_001, 10_000);
    well_formed!(&mut h, 8, 2_000, 20_000);
    well_formed!(&mut h, 9, 8_000, 100_000);
    well_formed!(&mut h, 10, 10_000, 200_000);
    well_formed!(&mut h, 11, 44_100, 200_000);
    well_formed!(&mut h, 12, 48_000, 200_000);
    well_formed!(&mut h, 13, 96_000, 200_000);
    well_formed!(&mut h, 14, 192_000, 250_000);

    // fractional sample rates, and a buffer that is larger than the helper says (still well formed)
    {
        const N: usize = sample_rate_to_capacity(10_000);
        drive::<N>(15, 9_999.5, 20E3, 820.0, 1E6, 100_000, true, &mut h);
        drive::<N>(16, 2_500.25, 20E3, 1_000.0, 470E3, 100_000, true, &mut h);
        drive::<400>(17, 10_000.0, 20E3, 820.0, 1E6, 100_000, false, &mut h);
        drive::<21>(18, 10_000.0, 20E3, 820.0, 1E6, 50_000, true, &mut h);
        drive::<1>(19, 100.0, 20E3, 820.0, 1E6, 5_000, true, &mut h);
        // buffer exactly as large as the discard count: the average is taken over zero samples
        drive::<20>(21, 10_000.0, 20E3, 820.0, 1E6, 20_000, true, &mut h);
    }

    let mut a = Hashes::new();
    {
        // buffer smaller than the discard count: subtraction underflow
        abuse::<4>(31, 10_000.0, 20E3, 820.0, 1E6, 2_000, &mut a);
        abuse::<19>(32, 10_000.0, 20E3, 820.0, 1E6, 5_000, &mut a);
        abuse::<1>(33, 48_000.0, 20E3, 820.0, 1E6, 2_000, &mut a);
        abuse::<1>(30, 1_000.0, 20E3, 820.0, 1E6, 2_000, &mut a);
        // sample rates that overflow the u32 products in the constructor (the second only the rise-time product)
        abuse::<64>(34, 5.0e6, 20E3, 820.0, 1E6, 2_000, &mut a);
        abuse::<64>(35, 3.0e6, 20E3, 820.0, 1E6, 2_000, &mut a);
        abuse::<64>(36, 2_147_483.0, 20E3, 820.0, 1E6, 20_000, &mut a);
        abuse::<64>(37, 2_147_484.0, 20E3, 820.0, 1E6, 2_000, &mut a);
        abuse::<64>(38, 4_294_967.0, 20E3, 820.0, 1E6, 2_000, &mut a);
        abuse::<64>(39, 4_294_968.0, 20E3, 820.0, 1E6, 2_000, &mut a);
        abuse::<64>(40, f32::INFINITY, 20E3, 820.0, 1E6, 2_000, &mut a);
        // sample rates that convert to zero
        abuse::<64>(41, f32::NAN, 20E3, 820.0, 1E6, 5_000, &mut a);
        abuse::<64>(42, -48_000.0, 20E3, 820.0, 1E6, 5_000, &mut a);
        abuse::<64>(43, f32::NEG_INFINITY, 20E3, 820.0, 1E6, 5_000, &mut a);
        abuse::<64>(44, 0.0, 20E3, 820.0, 1E6, 5_000, &mut a);
        // odd resistor values
        abuse::<18>(45, 1_000.0, f32::NAN, 820.0, 1E6, 5_000, &mut a);
        abuse::<18>(46, 1_000.0, 20E3, f32::NAN, 1E6, 5_000, &mut a);
        abuse::<18>(47, 1_000.0, 20E3, 820.0, f32::NAN, 5_000, &mut a);
        abuse::<18>(48, 1_000.0, 20E3, 820.0, 0.0, 5_000, &mut a);
        abuse::<18>(49, 1_000.0, 0.0, 0.0, 1E6, 5_000, &mut a);
        abuse::<18>(50, 1_000.0, 20E3, 0.0, 1E6, 5_000, &mut a);
        abuse::<18>(51, 1_000.0, 0.0, 820.0, 1E6, 5_000, &mut a);
        abuse::<18>(52, 1_000.0, -20E3, 820.0, 1E6, 5_000, &mut a);
        abuse::<18>(53, 1_000.0, 20E3, -820.0, -1E6, 5_000, &mut a);
        abuse::<18>(54, 1_000.0, f32::INFINITY, 820.0, 1E6, 5_000, &mut a);
        abuse::<18>(55, 1_000.0, 20E3, f32::INFINITY, 1E6, 5_000, &mut a);
        abuse::<18>(56, 1_000.0, 20E3, 820.0, f32::INFINITY, 5_000, &mut a);
        abuse::<18>(57, 1_000.0, 1.0e38, 3.0e38, 1.0e-38, 5_000, &mut a);
    }

    let got = (h.canon.0, h.raw.0, a.canon.0);
    let profile = if cfg!(debug_assertions) {
        "debug"
    } else {
        "release"
    };
    println!(
        "RIBBON-DIFF {} canon={:016x} raw={:016x} abuse={:016x}",
        profile, got.0, got.1, got.2
    );
    if EXPECTED != (0, 0, 0) {
        assert_eq!(
            got, EXPECTED,
            "observable behaviour of the ribbon controller differs from the recorded baseline"
        );
    }
}
