//! Differential test for the glide processor (and, indirectly, the private `utils` helpers).
//!
//! Copy to `tests/diff_test.rs` of the crate and run
//!     cargo test --offline --test diff_test -- --nocapture
//!     cargo test --offline --release --test diff_test -- --nocapture
//! It only uses the public API of `synth_utils`, drives it with long pseudo-random call sequences (LCG, fixed seeds,
//! edge values mixed in) and prints FNV-1a hashes of every observable output.  Two hashes are printed per section:
//! `raw` hashes the exact f32 bit patterns, `canon` maps every NaN to one canonical bit pattern first.

use std::panic::{catch_unwind, AssertUnwindSafe};
use synth_utils::adsr::{Adsr, Input};
use synth_utils::glide_processor::GlideProcessor;
use synth_utils::lfo::{Lfo, Waveshape};

struct Lcg(u64);

impl Lcg {
    fn next(&mut self) -> u32 {
        self.0 = self
            .0
            .wrapping_mul(6364136223846793005)
            .wrapping_add(1442695040888963407);
        (self.0 >> 32) as u32
    }
    /// uniform in [0, 1)
    fn unit(&mut self) -> f32 {
        (self.next() >> 8) as f32 / (1u32 << 24) as f32
    }
    fn below(&mut self, n: u32) -> u32 {
        self.next() % n
    }
}

struct Hash {
    raw: u64,
    canon: u64,
}

impl Hash {
    fn new() -> Self {
        Self {
            raw: 0xcbf29ce484222325,
            canon: 0xcbf29ce484222325,
        }
    }
    fn step(h: &mut u64, word: u32) {
        for b in word.to_le_bytes() {
            *h ^= b as u64;
            *h = h.wrapping_mul(0x100000001b3);
        }
    }
    fn u32(&mut self, w: u32) {
        Self::step(&mut self.raw, w);
        Self::step(&mut self.canon, w);
    }
    fn f32(&mut self, v: f32) {
        Self::step(&mut self.raw, v.to_bits());
        Self::step(
            &mut self.canon,
            if v.is_nan() { 0x7fc00000 } else { v.to_bits() },
        );
    }
    fn str(&mut self, s: &str) {
        for b in s.bytes() {
            self.u32(b as u32);
        }
        self.u32(0xffff_ffff);
    }
}

const SAMPLE_RATES: [f32; 14] = [
    100.0,
    1_000.0,
    8_000.0,
    44_100.0,
    48_000.0,
    96_000.0,
    192_000.0,
    0.3,          // sample_rate/4 is below the 0.1 Hz minimum cutoff
    0.4,
    1.0,
    1.0e-30,
    1.0e30,
    f32::MAX,
    f32::INFINITY,
];

const EDGE_TIMES: [f32; 40] = [
    0.0,
    -0.0,
    -1.0, // the initial value of the time cache
    -0.95,
    -1.05,
    -0.9499,
    -1.0501,
    -0.94,
    -1.06,
    0.05,
    0.049,
    0.051,
    0.1,
    0.5,
    1.0,
    2.0,
    9.95,
    10.0,
    10.05,
    10.06,
    11.0,
    100.0,
    1.0e-3,
    1.0e-6,
    2.0e-5,
    1.0e-38,
    1.0e-45,
    -1.0e-45,
    1.0e30,
    f32::MAX,
    f32::MIN,
    f32::MIN_POSITIVE,
    f32::EPSILON,
    -5.0,
    -1.0e30,
    f32::INFINITY,
    f32::NEG_INFINITY,
    f32::NAN,
    -f32::NAN,
    3.4e38,
];

const EDGE_INPUTS: [f32; 16] = [
    0.0,
    -0.0,
    1.0,
    -1.0,
    10.0,
    -10.0,
    0.5,
    1.0e-45,
    -1.0e-45,
    1.0e-20,
    1.0e20,
    -1.0e20,
    f32::MAX,
    f32::MIN,
    f32::MIN_POSITIVE,
    1.0 / 12.0,
];

const POISON_INPUTS: [f32; 4] = [f32::INFINITY, f32::NEG_INFINITY, f32::NAN, 3.0e38];

fn pick_time(rng: &mut Lcg) -> f32 {
    match rng.below(8) {
        0 | 1 => EDGE_TIMES[rng.below(EDGE_TIMES.len() as u32) as usize],
        2 | 3 => rng.unit() * 10.0,
        4 => rng.unit() * 0.2,
        5 => rng.unit() * 0.01,
        6 => (rng.unit() - 0.5) * 4.0,
        _ => f32::from_bits(rng.next()),
    }
}

fn pick_input(rng: &mut Lcg, allow_poison: bool) -> f32 {
    match rng.below(16) {
        0 => EDGE_INPUTS[rng.below(EDGE_INPUTS.len() as u32) as usize],
        1 if allow_poison && rng.below(64) == 0 => {
            POISON_INPUTS[rng.below(POISON_INPUTS.len() as u32) as usize]
        }
        2 | 3 => rng.unit() * 10.0,
        4 => (rng.unit() - 0.5) * 20.0,
        5 if allow_poison && rng.below(8) == 0 => f32::from_bits(rng.next()),
        _ => (rng.below(121) as f32) / 12.0,
    }
}

/// one long random session on one processor
fn glide_session(h: &mut Hash, seed: u64, sr: f32, steps: u32, allow_poison: bool) {
    let mut rng = Lcg(seed);
    let mut gp = GlideProcessor::new(sr);
    let mut held = 0.0_f32;
    for _ in 0..steps {
        match rng.below(32) {
            0 => {
                let t = pick_time(&mut rng);
                gp.set_time(t);
                h.u32(0x5e77_1e00);
            }
            1 => {
                // the same time twice, then a neighbour inside / outside the 0.05 s window
                let t = pick_time(&mut rng);
                gp.set_time(t);
                gp.set_time(t);
                h.f32(gp.process(held));
                gp.set_time(t + 0.049);
                h.f32(gp.process(held));
                gp.set_time(t + 0.051);
                h.f32(gp.process(held));
                gp.set_time(t - 0.1);
            }
            2 | 3 => held = pick_input(&mut rng, allow_poison),
            _ => {}
        }
        h.f32(gp.process(held));
    }
}

#[test]
fn glide_random_sessions() {
    let mut h = Hash::new();
    let mut seed = 1_u64;
    for (i, sr) in SAMPLE_RATES.iter().enumerate() {
        for rep in 0..6 {
            seed = seed.wrapping_mul(0x9e3779b97f4a7c15).wrapping_add(i as u64 + 17);
            glide_session(&mut h, seed, *sr, 20_000, rep >= 3);
        }
    }
    println!("DIFF glide_random_sessions raw={:016x} canon={:016x}", h.raw, h.canon);
}

/// every edge time as the first, second and third call on a fresh processor
#[test]
fn glide_edge_time_grid() {
    let mut h = Hash::new();
    for sr in SAMPLE_RATES {
        for t0 in EDGE_TIMES {
            // first call only
            let mut gp = GlideProcessor::new(sr);
            gp.set_time(t0);
            for i in 0..12 {
                h.f32(gp.process(if i < 2 { 0.0 } else { 1.0 }));
            }
            for t1 in EDGE_TIMES {
                let mut gp = GlideProcessor::new(sr);
                h.f32(gp.process(0.25));
                gp.set_time(t0);
                h.f32(gp.process(1.0));
                h.f32(gp.process(1.0));
                gp.set_time(t1);
                h.f32(gp.process(1.0));
                h.f32(gp.process(-2.0));
                gp.set_time(t0);
                h.f32(gp.process(-2.0));
                h.f32(gp.process(3.0));
                gp.set_time(-1.0);
                h.f32(gp.process(3.0));
                h.f32(gp.process(0.0));
            }
        }
    }
    println!("DIFF glide_edge_time_grid raw={:016x} canon={:016x}", h.raw, h.canon);
}

/// step responses with no set_time call at all, with one call, and with slowly swept times
#[test]
fn glide_step_responses() {
    let mut h = Hash::new();
    for sr in [100.0_f32, 1_000.0, 48_000.0, 192_000.0] {
        let mut gp = GlideProcessor::new(sr);
        for i in 0..2_000 {
            h.f32(gp.process(if i < 10 { 0.0 } else { 5.0 }));
        }
        for t in [0.0_f32, 0.001, 0.01, 0.02, 0.04, 0.06, 0.5, 1.0, 5.0, 10.0, 20.0] {
            let mut gp = GlideProcessor::new(sr);
            gp.set_time(t);
            for i in 0..3_000 {
                h.f32(gp.process(if i < 10 { 0.0 } else { 1.0 }));
            }
        }
        // sweep: steps of 0.02 s are mostly swallowed by the 0.05 s window
        let mut gp = GlideProcessor::new(sr);
        let mut t = 0.0_f32;
        for i in 0..6_000 {
            t += 0.02;
            if t > 10.5 {
                t = -0.3;
            }
            gp.set_time(t);
            h.f32(gp.process(((i / 500) % 3) as f32));
        }
    }
    println!("DIFF glide_step_responses raw={:016x} canon={:016x}", h.raw, h.canon);
}

/// construction with legal and illegal sample rates: records whether it panics and the panic message
#[test]
fn glide_constructor_panics() {
    let prev = std::panic::take_hook();
    std::panic::set_hook(Box::new(|_| {}));
    let mut h = Hash::new();
    let rates = [
        0.0_f32,
        -0.0,
        -1.0,
        -48_000.0,
        f32::NAN,
        f32::NEG_INFINITY,
        f32::INFINITY,
        f32::MAX,
        f32::MIN_POSITIVE,
        1.0e-45,
        2.0e-45,
        4.0e-45,
        6.0e-45,
        7.0e-45,
        8.0e-45,
        1.0e-44,
        1.0e-40,
        1.0e-38,
        0.1,
        0.2,
        0.39,
        0.4,
        0.41,
        1.0,
        100.0,
        48_000.0,
    ];
    for sr in rates {
        let r = catch_unwind(AssertUnwindSafe(|| {
            let mut out = [0.0_f32; 24];
            let mut gp = GlideProcessor::new(sr);
            for (i, o) in out.iter_mut().enumerate() {
                if i % 6 == 3 {
                    gp.set_time(EDGE_TIMES[(i * 7) % EDGE_TIMES.len()]);
                }
                *o = gp.process(1.0);
            }
            out
        }));
        match r {
            Ok(out) => {
                h.u32(1);
                for o in out {
                    h.f32(o);
                }
            }
            Err(e) => {
                h.u32(2);
                if let Some(s) = e.downcast_ref::<String>() {
                    h.str(s);
                } else if let Some(s) = e.downcast_ref::<&str>() {
                    h.str(s);
                } else {
                    h.u32(3);
                }
            }
        }
    }
    std::panic::set_hook(prev);
    println!("DIFF glide_constructor_panics raw={:016x} canon={:016x}", h.raw, h.canon);
}

/// `utils` is private; its helpers are observable through the LFO and the ADSR (table index width from `ilog_2`,
/// interpolation from `linear_interp`)
#[test]
fn utils_through_lfo_and_adsr() {
    let mut h = Hash::new();
    let mut rng = Lcg(0xfeed_beef);
    for sr in [100.0_f32, 1_000.0, 48_000.0] {
        let mut lfo = Lfo::new(sr);
        for _ in 0..20_000 {
            match rng.below(64) {
                0 => lfo.set_frequency(rng.unit() * sr),
                1 => lfo.set_phase((rng.unit() - 0.5) * 8.0),
                2 => lfo.reset(),
                _ => {}
            }
            lfo.tick();
            for w in [
                Waveshape::Sine,
                Waveshape::Triangle,
                Waveshape::UpSaw,
                Waveshape::DownSaw,
                Waveshape::Square,
            ] {
                h.f32(lfo.get(w));
            }
        }
        let mut adsr = Adsr::new(sr);
        for _ in 0..40_000 {
            match rng.below(200) {
                0 => adsr.gate_on(),
                1 => adsr.gate_off(),
                2 => adsr.set_input(Input::Attack((rng.unit() * 0.05).into())),
                3 => adsr.set_input(Input::Decay((rng.unit() * 0.05).into())),
                4 => adsr.set_input(Input::Sustain((rng.unit() * 1.5 - 0.25).into())),
                5 => adsr.set_input(Input::Release((rng.unit() * 0.05).into())),
                6 => adsr.set_input(Input::Attack(f32::from_bits(rng.next()).into())),
                _ => {}
            }
            adsr.tick();
            h.f32(adsr.value());
        }
    }
    println!("DIFF utils_through_lfo_and_adsr raw={:016x} canon={:016x}", h.raw, h.canon);
}
