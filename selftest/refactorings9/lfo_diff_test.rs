//! Differential test for the LFO module (src/lfo.rs, src/phase_accumulator.rs, src/utils.rs).
//!
//! Copy to `tests/diff_test.rs` and run
//!     cargo test --offline --test diff_test -- --nocapture
//!     cargo test --offline --release --test diff_test -- --nocapture
//! It drives the public API with long pseudo-random call sequences and prints an FNV-1a hash of
//! every observable output (f32 bit patterns, `Debug` text, `PartialEq` results, and whether a call
//! panicked).  The hashes of a refactored crate must equal those of the clean crate *for the same
//! build profile* (debug and release differ from each other where the clean crate overflows: an
//! out-of-range frequency makes `tick` panic in debug builds and wrap in release builds, and the
//! test records exactly that).
//!
//! Only the public API of `synth_utils` is used.  The ADSR and the glide processor are driven too,
//! because they share `phase_accumulator.rs` / `utils.rs` with the LFO.

use std::panic::{catch_unwind, AssertUnwindSafe};
use synth_utils::adsr::{self, Adsr};
use synth_utils::glide_processor::GlideProcessor;
use synth_utils::lfo::{Lfo, Waveshape};

// ---------------------------------------------------------------- hashing / rng

struct Fnv(u64);

impl Fnv {
    fn new() -> Self {
        Fnv(0xcbf2_9ce4_8422_2325)
    }
    fn byte(&mut self, b: u8) {
        self.0 ^= b as u64;
        self.0 = self.0.wrapping_mul(0x0000_0100_0000_01b3);
    }
    fn u32(&mut self, v: u32) {
        for b in v.to_le_bytes() {
            self.byte(b);
        }
    }
    fn f32(&mut self, v: f32) {
        self.u32(v.to_bits());
    }
    fn bool(&mut self, v: bool) {
        self.byte(v as u8 + 1);
    }
    fn str(&mut self, s: &str) {
        for b in s.bytes() {
            self.byte(b);
        }
        self.byte(0xff);
    }
}

struct Lcg(u64);

impl Lcg {
    fn next(&mut self) -> u32 {
        self.0 = self
            .0
            .wrapping_mul(6364136223846793005)
            .wrapping_add(1442695040888963407);
        (self.0 >> 32) as u32
    }
    fn below(&mut self, n: u32) -> u32 {
        self.next() % n
    }
    /// uniform in [0, 1)
    fn unit(&mut self) -> f32 {
        (self.next() >> 8) as f32 / 16_777_216.0
    }
}

const SHAPES: [Waveshape; 5] = [
    Waveshape::Sine,
    Waveshape::Triangle,
    Waveshape::UpSaw,
    Waveshape::DownSaw,
    Waveshape::Square,
];

const EDGE_F32: [f32; 28] = [
    0.0,
    -0.0,
    1.0,
    -1.0,
    0.5,
    -0.5,
    0.25,
    0.75,
    0.999_999_94,
    1.000_000_1,
    -0.999_999_94,
    1.0e-10,
    -1.0e-10,
    f32::MIN_POSITIVE,
    1.0e-45,
    3.0,
    -2.0,
    1234.567,
    -98765.43,
    8_388_608.5,
    16_777_216.0,
    4.0e9,
    1.0e30,
    -1.0e30,
    f32::MAX,
    f32::INFINITY,
    f32::NEG_INFINITY,
    f32::NAN,
];

fn observe_lfo(h: &mut Fnv, lfo: &Lfo) {
    for ws in SHAPES {
        h.f32(lfo.get(ws));
    }
}

fn observe_lfo_full(h: &mut Fnv, lfo: &Lfo, other: &Lfo) {
    observe_lfo(h, lfo);
    h.str(&format!("{:?}", lfo));
    h.str(&format!("{:#?}", lfo));
    h.str(&format!("{:x?}", lfo));
    h.bool(lfo == other);
    let copy = *lfo;
    h.bool(copy == *lfo);
    observe_lfo(h, &copy);
}

/// runs `f`, hashes whether it panicked; a panicking call leaves the object as the crate left it
fn guarded<F: FnOnce()>(h: &mut Fnv, f: F) {
    let ok = catch_unwind(AssertUnwindSafe(f)).is_ok();
    h.bool(ok);
}

// ---------------------------------------------------------------- LFO

/// in-range use: sample rates in [100, 192k], frequencies in [0, sr], any finite phase
fn lfo_in_range(seed: u64) -> u64 {
    let mut h = Fnv::new();
    let mut r = Lcg(seed);
    let rates = [100.0_f32, 441.0, 1_000.0, 8_000.0, 44_100.0, 48_000.0, 96_000.0, 192_000.0];
    for round in 0..64 {
        let sr = if round < rates.len() {
            rates[round]
        } else {
            100.0 + r.unit() * 191_900.0
        };
        let mut lfo = Lfo::new(sr);
        let reference = Lfo::new(sr);
        observe_lfo_full(&mut h, &lfo, &reference);
        for step in 0..6_000 {
            match r.below(64) {
                0 => {
                    let f = match r.below(8) {
                        0 => 0.0,
                        1 => sr,
                        2 => sr * 0.5,
                        3 => sr / 16_777_216.0,
                        4 => r.unit() * 0.01,
                        5 => r.unit() * 20.0,
                        _ => r.unit() * sr,
                    };
                    lfo.set_frequency(f);
                }
                1 => lfo.reset(),
                2 => {
                    let p = match r.below(6) {
                        0 => EDGE_F32[r.below(25) as usize], // finite entries only
                        1 => r.unit(),
                        2 => -r.unit(),
                        3 => (r.unit() - 0.5) * 1.0e4,
                        4 => r.below(17) as f32 / 16.0,
                        _ => (r.unit() - 0.5) * 8.0,
                    };
                    lfo.set_phase(p);
                }
                _ => guarded(&mut h, || lfo.tick()),
            }
            if step % 97 == 0 {
                observe_lfo_full(&mut h, &lfo, &reference);
            } else {
                observe_lfo(&mut h, &lfo);
            }
        }
    }
    h.0
}

/// anything goes: NaN / inf / negative / huge sample rates, frequencies and phases; panics recorded
fn lfo_wild(seed: u64) -> u64 {
    let mut h = Fnv::new();
    let mut r = Lcg(seed);
    for _round in 0..96 {
        let sr = match r.below(4) {
            0 => EDGE_F32[r.below(EDGE_F32.len() as u32) as usize],
            1 => r.unit() * 10.0,
            _ => 100.0 + r.unit() * 191_900.0,
        };
        let mut lfo = Lfo::new(sr);
        let reference = Lfo::new(sr);
        for step in 0..3_000 {
            match r.below(24) {
                0 => {
                    let f = match r.below(5) {
                        0 => EDGE_F32[r.below(EDGE_F32.len() as u32) as usize],
                        1 => r.unit() * sr * 300.0,
                        2 => -r.unit() * sr,
                        3 => sr * 255.9 + r.unit() * sr * 0.2, // around the u32 overflow edge of acc + inc
                        _ => r.unit() * sr,
                    };
                    lfo.set_frequency(f);
                }
                1 => lfo.reset(),
                2 => {
                    let p = match r.below(3) {
                        0 => EDGE_F32[r.below(EDGE_F32.len() as u32) as usize],
                        1 => (r.unit() - 0.5) * 1.0e9,
                        _ => (r.unit() - 0.5) * 4.0,
                    };
                    lfo.set_phase(p);
                }
                _ => guarded(&mut h, || lfo.tick()),
            }
            if step % 61 == 0 {
                observe_lfo_full(&mut h, &lfo, &reference);
            } else {
                observe_lfo(&mut h, &lfo);
            }
        }
    }
    h.0
}

/// very slow and exact sweeps: every accumulator value near the wrap and near the quarter points
fn lfo_sweeps() -> u64 {
    let mut h = Fnv::new();
    // one counter step per tick, started just before each interesting phase
    for start in [0.0_f32, 0.2499, 0.4999, 0.7499, 0.9995, 0.99999] {
        let mut lfo = Lfo::new(16_777_216.0);
        lfo.set_frequency(1.0);
        lfo.set_phase(start);
        for _ in 0..40_000 {
            lfo.tick();
            observe_lfo(&mut h, &lfo);
        }
    }
    // a full cycle in 2^14 + 1 and 1000 ticks, three cycles each
    for (sr, f) in [(16_385.0_f32, 1.0_f32), (1_000.0, 1.0), (48_000.0, 7.3), (100.0, 49.99), (100.0, 100.0)] {
        let mut lfo = Lfo::new(sr);
        lfo.set_frequency(f);
        for _ in 0..50_000 {
            lfo.tick();
            observe_lfo(&mut h, &lfo);
        }
        h.str(&format!("{:?}", lfo));
    }
    // every 1/4096 phase, positive and negative
    let mut lfo = Lfo::new(1_000.0);
    for i in -8192..=8192 {
        lfo.set_phase(i as f32 / 4096.0);
        observe_lfo(&mut h, &lfo);
        lfo.set_phase(i as f32 / 4096.0 + 1.0e-5);
        observe_lfo(&mut h, &lfo);
    }
    h.0
}

// ---------------------------------------------------------------- ADSR and glide (share the private modules)

fn adsr_seq(seed: u64, wild: bool) -> u64 {
    let mut h = Fnv::new();
    let mut r = Lcg(seed);
    for _round in 0..48 {
        let sr = if wild {
            match r.below(4) {
                0 => EDGE_F32[r.below(EDGE_F32.len() as u32) as usize],
                1 => r.unit() * 50.0,
                _ => 100.0 + r.unit() * 191_900.0,
            }
        } else {
            [100.0_f32, 1_000.0, 44_100.0, 192_000.0][r.below(4) as usize] + r.unit()
        };
        let mut env = Adsr::new(sr);
        for step in 0..4_000 {
            match r.below(40) {
                0 => env.gate_on(),
                1 => env.gate_off(),
                2 | 3 => {
                    let v = match r.below(4) {
                        0 => EDGE_F32[r.below(if wild { 28 } else { 25 }) as usize],
                        1 => r.unit() * 0.01,
                        2 => r.unit(),
                        _ => r.unit() * 25.0 - 2.0,
                    };
                    // `(-0.0f32).max(0.0)` (in adsr.rs, outside the module under test) may be either zero
                    // depending on the optimisation level; keep that platform quirk out of the hashes
                    let v = if v == 0.0 { 0.0 } else { v };
                    env.set_input(match r.below(4) {
                        0 => adsr::Input::Attack(v.into()),
                        1 => adsr::Input::Decay(v.into()),
                        2 => adsr::Input::Sustain(v.into()),
                        _ => adsr::Input::Release(v.into()),
                    });
                }
                _ => guarded(&mut h, || env.tick()),
            }
            h.f32(env.value());
            if step % 53 == 0 {
                h.str(&format!("{:?}", env));
            }
        }
    }
    h.0
}

fn glide_seq(seed: u64) -> u64 {
    let mut h = Fnv::new();
    let mut r = Lcg(seed);
    for _round in 0..16 {
        let sr = [100.0_f32, 1_000.0, 48_000.0, 192_000.0][r.below(4) as usize];
        let mut g = GlideProcessor::new(sr);
        for _ in 0..4_000 {
            if r.below(16) == 0 {
                let t = match r.below(4) {
                    0 => 0.0,
                    1 => r.unit() * 0.2,
                    2 => r.unit() * 12.0,
                    _ => r.unit() * 0.049,
                };
                g.set_time(t);
            }
            let x = if r.below(8) == 0 { r.unit() * 10.0 - 5.0 } else { 1.0 };
            h.f32(g.process(x));
        }
    }
    h.0
}

#[test]
fn differential_hashes() {
    // the expected overflow panics of the clean crate would flood the output
    std::panic::set_hook(Box::new(|_| {}));
    let profile = if cfg!(debug_assertions) { "debug" } else { "release" };
    let mut lines = Vec::new();
    lines.push(format!("lfo_in_range {:016x}", lfo_in_range(0x1234_5678_9abc_def0)));
    lines.push(format!("lfo_in_range2 {:016x}", lfo_in_range(42)));
    lines.push(format!("lfo_wild {:016x}", lfo_wild(0x0bad_cafe_f00d_0001)));
    lines.push(format!("lfo_wild2 {:016x}", lfo_wild(7)));
    lines.push(format!("lfo_sweeps {:016x}", lfo_sweeps()));
    lines.push(format!("adsr {:016x}", adsr_seq(99, false)));
    lines.push(format!("adsr_wild {:016x}", adsr_seq(100, true)));
    lines.push(format!("glide {:016x}", glide_seq(5)));
    let _ = std::panic::take_hook();
    let mut all = Fnv::new();
    for l in &lines {
        all.str(l);
        println!("DIFFHASH[{}] {}", profile, l);
    }
    println!("DIFFHASH[{}] TOTAL {:016x}", profile, all.0);
}
