//! Differential test for `synth_utils::mono_midi_receiver`.
//!
//! Drives the receiver through long pseudo-random byte / call sequences (fixed seeds) using only the public API and
//! hashes every observable output after every step. The printed hashes must be identical before and after a
//! behaviour-preserving change.
//!
//! Run with: `cp diff_test.rs <crate>/tests/ && cargo test --offline --test diff_test -- --nocapture`
//! (and the same with `--release`).

use synth_utils::mono_midi_receiver::{MonoMidiReceiver, NotePriority, RetriggerMode};

struct Lcg(u64);

impl Lcg {
    fn next(&mut self) -> u32 {
        self.0 = self
            .0
            .wrapping_mul(6364136223846793005)
            .wrapping_add(1442695040888963407);
        (self.0 >> 33) as u32
    }
    fn below(&mut self, n: u32) -> u32 {
        self.next() % n
    }
}

struct Fnv(u64);

impl Fnv {
    fn new() -> Self {
        Fnv(0xcbf29ce484222325)
    }
    fn byte(&mut self, b: u8) {
        self.0 ^= b as u64;
        self.0 = self.0.wrapping_mul(0x100000001b3);
    }
    fn u32(&mut self, v: u32) {
        for b in v.to_le_bytes() {
            self.byte(b);
        }
    }
    fn f32(&mut self, v: f32) {
        self.u32(v.to_bits());
    }
    fn bool(&mut self, v: bool) {
        self.byte(v as u8);
    }
}

/// hash all outputs that can be read without changing the state
fn observe(mr: &MonoMidiReceiver, h: &mut Fnv) {
    h.byte(mr.note_num());
    h.f32(mr.pitch_bend());
    h.f32(mr.velocity());
    h.f32(mr.mod_wheel());
    h.f32(mr.volume());
    h.f32(mr.vcf_cutoff());
    h.f32(mr.vcf_resonance());
    h.f32(mr.portamento_time());
    h.bool(mr.portamento_enabled());
    h.bool(mr.sustain_enabled());
    h.bool(mr.gate());
}

/// sometimes read the self-clearing edge flags (these reads are part of the call history)
fn maybe_read_edges(mr: &mut MonoMidiReceiver, rng: &mut Lcg, h: &mut Fnv) {
    match rng.below(8) {
        0 => {
            h.byte(0xA0);
            h.bool(mr.rising_gate());
        }
        1 => {
            h.byte(0xA1);
            h.bool(mr.falling_gate());
        }
        2 => {
            h.byte(0xA2);
            h.bool(mr.rising_gate());
            h.bool(mr.falling_gate());
            h.bool(mr.rising_gate());
            h.bool(mr.falling_gate());
        }
        3 => {
            h.byte(0xA3);
            h.bool(mr.falling_gate());
            h.bool(mr.rising_gate());
        }
        _ => (),
    }
}

fn maybe_change_modes(mr: &mut MonoMidiReceiver, rng: &mut Lcg, h: &mut Fnv) {
    match rng.below(97) {
        0 => {
            h.byte(0xB0);
            mr.set_retrigger_mode(RetriggerMode::AllowRetrigger)
        }
        1 => {
            h.byte(0xB1);
            mr.set_retrigger_mode(RetriggerMode::NoRetrigger)
        }
        2 => {
            h.byte(0xB2);
            mr.set_note_priority(NotePriority::Last)
        }
        3 => {
            h.byte(0xB3);
            mr.set_note_priority(NotePriority::High)
        }
        4 => {
            h.byte(0xB4);
            mr.set_note_priority(NotePriority::Low)
        }
        _ => (),
    }
}

fn feed(mr: &mut MonoMidiReceiver, byte: u8, rng: &mut Lcg, h: &mut Fnv) {
    mr.parse(byte);
    observe(mr, h);
    maybe_read_edges(mr, rng, h);
    observe(mr, h);
}

const EDGE_DATA: [u8; 12] = [0, 1, 2, 63, 64, 65, 126, 127, 5, 7, 0x47, 0x4A];
const CCS: [u8; 14] = [
    0x01, 0x07, 0x47, 0x4A, 0x40, 0x41, 0x05, 0x79, 0x7B, 0x00, 0x7F, 0x78, 0x7A, 0x06,
];
const REALTIME: [u8; 8] = [0xF8, 0xF9, 0xFA, 0xFB, 0xFC, 0xFD, 0xFE, 0xFF];

fn data_byte(rng: &mut Lcg) -> u8 {
    match rng.below(4) {
        0 => EDGE_DATA[rng.below(EDGE_DATA.len() as u32) as usize],
        // a small cluster so that note-offs often match held notes
        1 => 40 + rng.below(8) as u8,
        _ => rng.below(128) as u8,
    }
}

/// one structured (mostly well-formed) message, bytes are pushed into `out`
fn structured_message(rng: &mut Lcg, channel: u8, out: &mut Vec<u8>) {
    // mostly the listened channel, sometimes a different one
    let ch = if rng.below(5) == 0 {
        rng.below(16) as u8
    } else {
        channel.min(15)
    };
    // sometimes use running status (omit the status byte)
    let with_status = rng.below(3) != 0;
    match rng.below(16) {
        0..=5 => {
            if with_status {
                out.push(0x90 | ch);
            }
            out.push(data_byte(rng));
            // velocity, zero fairly often
            out.push(if rng.below(4) == 0 { 0 } else { data_byte(rng) });
        }
        6..=8 => {
            if with_status {
                out.push(0x80 | ch);
            }
            out.push(data_byte(rng));
            out.push(data_byte(rng));
        }
        9..=11 => {
            if with_status {
                out.push(0xB0 | ch);
            }
            out.push(if rng.below(6) == 0 {
                rng.below(128) as u8
            } else {
                CCS[rng.below(CCS.len() as u32) as usize]
            });
            out.push(data_byte(rng));
        }
        12..=13 => {
            if with_status {
                out.push(0xE0 | ch);
            }
            match rng.below(6) {
                0 => out.extend_from_slice(&[0, 0]),
                1 => out.extend_from_slice(&[0, 64]),
                2 => out.extend_from_slice(&[127, 127]),
                3 => out.extend_from_slice(&[1, 64]),
                4 => out.extend_from_slice(&[127, 63]),
                _ => {
                    out.push(rng.below(128) as u8);
                    out.push(rng.below(128) as u8);
                }
            }
        }
        14 => {
            // other channel voice / system messages
            match rng.below(8) {
                0 => out.extend_from_slice(&[0xA0 | ch, data_byte(rng), data_byte(rng)]),
                1 => out.extend_from_slice(&[0xC0 | ch, data_byte(rng)]),
                2 => out.extend_from_slice(&[0xD0 | ch, data_byte(rng)]),
                3 => {
                    out.push(0xF0);
                    for _ in 0..rng.below(12) {
                        out.push(data_byte(rng));
                    }
                    if rng.below(4) != 0 {
                        out.push(0xF7);
                    }
                }
                4 => out.extend_from_slice(&[0xF1, data_byte(rng)]),
                5 => out.extend_from_slice(&[0xF2, data_byte(rng), data_byte(rng)]),
                6 => out.extend_from_slice(&[0xF3, data_byte(rng)]),
                _ => out.push(0xF4 + rng.below(4) as u8),
            }
        }
        _ => {
            // truncated message: a status byte and possibly one data byte
            out.push(0x80 + rng.below(0x70) as u8);
            if rng.below(2) == 0 {
                out.push(data_byte(rng));
            }
        }
    }
}

fn new_receiver(rng: &mut Lcg, channel: u8, h: &mut Fnv) -> MonoMidiReceiver {
    let mut mr = MonoMidiReceiver::new(channel);
    match rng.below(3) {
        0 => mr.set_retrigger_mode(RetriggerMode::AllowRetrigger),
        1 => mr.set_retrigger_mode(RetriggerMode::NoRetrigger),
        _ => (),
    }
    match rng.below(4) {
        0 => mr.set_note_priority(NotePriority::Last),
        1 => mr.set_note_priority(NotePriority::High),
        2 => mr.set_note_priority(NotePriority::Low),
        _ => (),
    }
    observe(&mr, h);
    // the edge flags of a fresh receiver
    if rng.below(2) == 0 {
        h.bool(mr.rising_gate());
        h.bool(mr.falling_gate());
    }
    mr
}

/// completely random bytes, status bytes are made a bit rarer so that messages complete
fn run_random_bytes(seed: u64, channel: u8, steps: usize) -> u64 {
    let mut rng = Lcg(seed);
    let mut h = Fnv::new();
    let mut mr = new_receiver(&mut rng, channel, &mut h);
    for _ in 0..steps {
        let byte = match rng.below(8) {
            0 => rng.below(256) as u8,
            1 => 0x80 + rng.below(0x80) as u8,
            2 => (0x80 + (rng.below(7) as u8) * 0x10) | channel.min(15),
            _ => data_byte(&mut rng),
        };
        feed(&mut mr, byte, &mut rng, &mut h);
        maybe_change_modes(&mut mr, &mut rng, &mut h);
    }
    h.0
}

/// structured messages with real-time bytes sprinkled in between all bytes
fn run_structured(seed: u64, channel: u8, messages: usize) -> u64 {
    let mut rng = Lcg(seed);
    let mut h = Fnv::new();
    let mut mr = new_receiver(&mut rng, channel, &mut h);
    let mut bytes = Vec::new();
    for _ in 0..messages {
        bytes.clear();
        structured_message(&mut rng, channel, &mut bytes);
        for &b in bytes.iter() {
            if rng.below(10) == 0 {
                let rt = REALTIME[rng.below(8) as usize];
                feed(&mut mr, rt, &mut rng, &mut h);
            }
            feed(&mut mr, b, &mut rng, &mut h);
        }
        maybe_change_modes(&mut mr, &mut rng, &mut h);
    }
    h.0
}

/// mash down many notes (more than the 32 the receiver can remember), then release them in random order
fn run_note_mash(seed: u64, channel: u8, rounds: usize) -> u64 {
    let mut rng = Lcg(seed);
    let mut h = Fnv::new();
    let mut mr = new_receiver(&mut rng, channel, &mut h);
    let ch = channel.min(15);
    for _ in 0..rounds {
        let n_on = 1 + rng.below(80);
        feed(&mut mr, 0x90 | ch, &mut rng, &mut h);
        for _ in 0..n_on {
            let note = if rng.below(3) == 0 {
                rng.below(128) as u8
            } else {
                30 + rng.below(40) as u8
            };
            feed(&mut mr, note, &mut rng, &mut h);
            let vel = 1 + rng.below(127) as u8;
            feed(&mut mr, vel, &mut rng, &mut h);
        }
        maybe_change_modes(&mut mr, &mut rng, &mut h);
        match rng.below(4) {
            0 => {
                // all notes off, any value byte
                feed(&mut mr, 0xB0 | ch, &mut rng, &mut h);
                feed(&mut mr, 0x7B, &mut rng, &mut h);
                let v = data_byte(&mut rng);
                feed(&mut mr, v, &mut rng, &mut h);
            }
            1 => {
                // release every note number, with real note-off messages
                feed(&mut mr, 0x80 | ch, &mut rng, &mut h);
                let start = rng.below(128) as u8;
                for i in 0..128u32 {
                    let note = ((start as u32 + i * 37) % 128) as u8;
                    feed(&mut mr, note, &mut rng, &mut h);
                    let v = data_byte(&mut rng);
                    feed(&mut mr, v, &mut rng, &mut h);
                }
            }
            2 => {
                // release every note number, with zero-velocity note-ons
                feed(&mut mr, 0x90 | ch, &mut rng, &mut h);
                let start = rng.below(128) as u8;
                for i in 0..128u32 {
                    let note = ((start as u32 + i * 51) % 128) as u8;
                    feed(&mut mr, note, &mut rng, &mut h);
                    feed(&mut mr, 0, &mut rng, &mut h);
                }
            }
            _ => {
                // release only some of them
                feed(&mut mr, 0x80 | ch, &mut rng, &mut h);
                for _ in 0..rng.below(60) {
                    let note = 30 + rng.below(40) as u8;
                    feed(&mut mr, note, &mut rng, &mut h);
                    feed(&mut mr, 0, &mut rng, &mut h);
                }
            }
        }
    }
    h.0
}

/// a few keys played in short overlapping phrases so that the gate rises and falls all the time; the edge flags are
/// read only now and then, and only between messages, so that edges are often cancelled before they are read
fn run_small_keyboard(seed: u64, channel: u8, messages: usize) -> u64 {
    let mut rng = Lcg(seed);
    let mut h = Fnv::new();
    let mut mr = new_receiver(&mut rng, channel, &mut h);
    let ch = channel.min(15);
    let n_keys = 1 + rng.below(4);
    let read_div = 1 + rng.below(6);
    for _ in 0..messages {
        let note = 60 + rng.below(n_keys) as u8;
        let msg: [u8; 3] = match rng.below(16) {
            0..=5 => [0x90 | ch, note, 1 + rng.below(127) as u8],
            6..=9 => [0x80 | ch, note, data_byte(&mut rng)],
            10..=12 => [0x90 | ch, note, 0],
            13 => [0xB0 | ch, 0x7B, data_byte(&mut rng)],
            14 => [0x90 | (rng.below(16) as u8), note, data_byte(&mut rng)],
            _ => [0xB0 | ch, CCS[rng.below(CCS.len() as u32) as usize], data_byte(&mut rng)],
        };
        for (i, &b) in msg.iter().enumerate() {
            // now and then an active-sensing byte precedes the message
            if i == 0 && rng.below(4) == 0 {
                mr.parse(0xFE);
                observe(&mr, &mut h);
            }
            mr.parse(b);
            observe(&mr, &mut h);
        }
        if rng.below(read_div) == 0 {
            match rng.below(3) {
                0 => {
                    h.byte(0xC0);
                    h.bool(mr.rising_gate());
                }
                1 => {
                    h.byte(0xC1);
                    h.bool(mr.falling_gate());
                }
                _ => {
                    h.byte(0xC2);
                    h.bool(mr.falling_gate());
                    h.bool(mr.rising_gate());
                    h.bool(mr.gate());
                }
            }
        }
        maybe_change_modes(&mut mr, &mut rng, &mut h);
    }
    h.0
}

/// every controller number with every value, and every pitch bend value, on the listened channel
fn run_exhaustive_controllers(channel: u8) -> u64 {
    let mut rng = Lcg(0xC0FFEE ^ channel as u64);
    let mut h = Fnv::new();
    let mut mr = MonoMidiReceiver::new(channel);
    let ch = channel.min(15);
    observe(&mr, &mut h);
    for cc in 0..128u32 {
        for val in 0..128u32 {
            // alternate between explicit and running status
            if (cc + val) % 3 == 0 {
                feed(&mut mr, 0xB0 | ch, &mut rng, &mut h);
            }
            feed(&mut mr, cc as u8, &mut rng, &mut h);
            feed(&mut mr, val as u8, &mut rng, &mut h);
        }
    }
    feed(&mut mr, 0xE0 | ch, &mut rng, &mut h);
    for msb in 0..128u32 {
        for lsb in 0..128u32 {
            feed(&mut mr, lsb as u8, &mut rng, &mut h);
            feed(&mut mr, msb as u8, &mut rng, &mut h);
        }
    }
    // a note on, then reset all controllers, then all notes off
    for b in [0x90 | ch, 60, 100, 0xB0 | ch, 0x79, 0, 0x7B, 0] {
        feed(&mut mr, b, &mut rng, &mut h);
    }
    h.0
}

#[test]
fn differential_hashes() {
    let channels: [u8; 7] = [0, 1, 9, 15, 16, 200, 255];

    let mut total = Fnv::new();
    let mix = |name: &str, v: u64, total: &mut Fnv| {
        println!("DIFFHASH {name} {v:016x}");
        total.u32(v as u32);
        total.u32((v >> 32) as u32);
    };

    let mut h_rand = Fnv::new();
    let mut h_struct = Fnv::new();
    let mut h_mash = Fnv::new();
    let mut h_ctrl = Fnv::new();
    let mut h_keys = Fnv::new();
    for (i, &ch) in channels.iter().enumerate() {
        for s in 0..4u64 {
            let seed = 0x9E3779B97F4A7C15u64.wrapping_mul(1 + s + 16 * i as u64);
            let a = run_random_bytes(seed ^ 0x1111, ch, 60_000);
            let b = run_structured(seed ^ 0x2222, ch, 30_000);
            let c = run_note_mash(seed ^ 0x3333, ch, 150);
            let e = run_small_keyboard(seed ^ 0x4444, ch, 40_000);
            for (h, v) in [(&mut h_rand, a), (&mut h_struct, b), (&mut h_mash, c), (&mut h_keys, e)] {
                h.u32(v as u32);
                h.u32((v >> 32) as u32);
            }
        }
        let d = run_exhaustive_controllers(ch);
        h_ctrl.u32(d as u32);
        h_ctrl.u32((d >> 32) as u32);
    }
    mix("random_bytes", h_rand.0, &mut total);
    mix("structured", h_struct.0, &mut total);
    mix("note_mash", h_mash.0, &mut total);
    mix("controllers", h_ctrl.0, &mut total);
    mix("small_keyboard", h_keys.0, &mut total);
    println!("DIFFHASH TOTAL {:016x}", total.0);
}
