//! Differential test for `adsr` (and the `phase_accumulator` it shares with `lfo`).
//!
//! Uses only the public API of `synth_utils`.  Drives the envelope generator (and, because the phase accumulator is
//! shared, the LFO) with long pseudo-random call sequences and folds every observable output -- `value()` bits, the
//! `Debug` rendering, `Clone`/`Copy` results, `PartialEq` results, the `From` conversions and whether / where a call
//! panicked -- into FNV-1a hashes.  Run with
//!
//! ```text
//! cp diff_test.rs <crate>/tests/ && cargo test --offline --test diff_test -- --nocapture
//! cp diff_test.rs <crate>/tests/ && cargo test --offline --release --test diff_test -- --nocapture
//! ```
//!
//! and compare the `HASH ...` lines between two versions of the crate.

use std::fmt::Write as _;
use std::panic::{catch_unwind, AssertUnwindSafe};

use synth_utils::adsr::{self, Adsr, Input, State, SustainLevel, TimePeriod};
use synth_utils::lfo::{Lfo, Waveshape};

// ---------------------------------------------------------------------------------------------------------------------
// plumbing

struct Fnv(u64);

impl Fnv {
    fn new() -> Self {
        Fnv(0xcbf2_9ce4_8422_2325)
    }
    fn byte(&mut self, b: u8) {
        self.0 ^= b as u64;
        self.0 = self.0.wrapping_mul(0x0000_0100_0000_01b3);
    }
    fn bytes(&mut self, bs: &[u8]) {
        for b in bs {
            self.byte(*b);
        }
    }
    fn u32(&mut self, v: u32) {
        self.bytes(&v.to_le_bytes());
    }
    fn u64(&mut self, v: u64) {
        self.bytes(&v.to_le_bytes());
    }
    fn f32(&mut self, v: f32) {
        self.u32(v.to_bits());
    }
    fn bool(&mut self, v: bool) {
        self.byte(v as u8);
    }
    fn str(&mut self, s: &str) {
        self.u64(s.len() as u64);
        self.bytes(s.as_bytes());
    }
}

struct Lcg(u64);

impl Lcg {
    fn new(seed: u64) -> Self {
        Lcg(seed.wrapping_mul(0x9e37_79b9_7f4a_7c15) ^ 0x1234_5678_9abc_def0)
    }
    fn next_u32(&mut self) -> u32 {
        self.0 = self
            .0
            .wrapping_mul(6364136223846793005)
            .wrapping_add(1442695040888963407);
        (self.0 >> 32) as u32
    }
    fn below(&mut self, n: u32) -> u32 {
        ((self.next_u32() as u64 * n as u64) >> 32) as u32
    }
    /// uniform in [0, 1)
    fn unit(&mut self) -> f32 {
        (self.next_u32() >> 8) as f32 / 16_777_216.0_f32
    }
}

const EDGE_F32: [f32; 30] = [
    0.0,
    -0.0,
    1.0,
    -1.0,
    0.5,
    0.25,
    0.75,
    0.001,
    0.000_999_9,
    0.001_000_1,
    20.0,
    19.999_998,
    20.000_002,
    0.01,
    0.1,
    2.0,
    1.000_000_1,
    0.999_999_94,
    1.0e-10,
    -1.0e-10,
    1.0e10,
    -1.0e10,
    f32::MAX,
    f32::MIN,
    f32::MIN_POSITIVE,
    1.0e-45, // subnormal
    f32::INFINITY,
    f32::NEG_INFINITY,
    f32::NAN,
    f32::EPSILON,
];

/// an arbitrary f32: edge value, "sensible" value, or random bit pattern
fn any_f32(rng: &mut Lcg) -> f32 {
    match rng.below(8) {
        0 | 1 => EDGE_F32[rng.below(EDGE_F32.len() as u32) as usize],
        2 => f32::from_bits(rng.next_u32()),
        3 => -f32::from_bits(0x7fc0_0000 | (rng.next_u32() & 0x003f_ffff)), // NaNs with payloads and sign
        4 => rng.unit() * 2.0 - 0.5,
        5 => rng.unit(),
        // log-uniform 1e-4 .. 1e2
        6 => {
            let mut v = 1.0e-4_f32;
            for _ in 0..rng.below(7) {
                v *= 10.0;
            }
            v * (1.0 + 9.0 * rng.unit())
        }
        _ => rng.unit() * 0.05,
    }
}

/// a time that makes phases short enough to complete within the run
fn short_time(rng: &mut Lcg, sample_rate: f32) -> f32 {
    // between 0 and ~300 ticks
    let ticks = rng.below(300) as f32 + rng.unit();
    ticks / sample_rate
}

fn dbg_into<T: core::fmt::Debug>(buf: &mut String, h: &mut Fnv, t: &T, pretty: bool) {
    buf.clear();
    if pretty {
        write!(buf, "{:#?}", t).unwrap();
    } else {
        write!(buf, "{:?}", t).unwrap();
    }
    h.str(buf);
}

fn silence_panics() {
    std::panic::set_hook(Box::new(|_| {}));
}

// ---------------------------------------------------------------------------------------------------------------------
// ADSR

/// One pseudo-random call sequence on one envelope. Returns normally or panics (the caller records which).
fn adsr_sequence(h: &mut Fnv, seed: u64, sample_rate: f32, n_ops: u32, flavour: u32, dbg_every: u32) {
    let mut rng = Lcg::new(seed);
    let mut buf = String::new();
    let mut adsr = Adsr::new(sample_rate);
    h.f32(adsr.value());
    dbg_into(&mut buf, h, &adsr, false);

    for i in 0..n_ops {
        // record progress first so that the position of a panic is part of the hash
        h.u32(i);
        let op = rng.below(100);
        // flavour 0: tick heavy, 1: event heavy, 2: parameter heavy, 3: mostly sensible short times
        let (p_tick, p_gate) = match flavour {
            0 => (90, 95),
            1 => (50, 85),
            2 => (40, 55),
            _ => (85, 93),
        };
        if op < p_tick {
            let burst = if rng.below(16) == 0 { rng.below(400) + 1 } else { 1 };
            for _ in 0..burst {
                adsr.tick();
                h.f32(adsr.value());
            }
        } else if op < p_gate {
            if rng.below(2) == 0 {
                adsr.gate_on();
            } else {
                adsr.gate_off();
            }
            // sometimes send the same event twice in a row
            if rng.below(8) == 0 {
                adsr.gate_on();
            }
            if rng.below(8) == 0 {
                adsr.gate_off();
            }
        } else {
            let v = if flavour == 3 || rng.below(3) == 0 {
                short_time(&mut rng, if sample_rate.is_finite() && sample_rate > 1.0 { sample_rate } else { 1000.0 })
            } else {
                any_f32(&mut rng)
            };
            let input = match rng.below(4) {
                0 => Input::Attack(v.into()),
                1 => Input::Decay(v.into()),
                2 => {
                    let s = if rng.below(2) == 0 { rng.unit() } else { any_f32(&mut rng) };
                    Input::Sustain(s.into())
                }
                _ => Input::Release(v.into()),
            };
            adsr.set_input(input);
            if rng.below(32) == 0 {
                dbg_into(&mut buf, h, &input, false);
            }
        }
        h.f32(adsr.value());

        if dbg_every != 0 && i % dbg_every == 0 {
            dbg_into(&mut buf, h, &adsr, rng.below(4) == 0);
        }
        if rng.below(64) == 0 {
            // Clone / Copy must carry the complete state
            let copy = adsr;
            #[allow(clippy::clone_on_copy)]
            let clone = copy.clone();
            adsr = clone;
            h.f32(adsr.value());
        }
    }
    dbg_into(&mut buf, h, &adsr, true);
}

fn run_adsr_sequence(h: &mut Fnv, seed: u64, sample_rate: f32, n_ops: u32, flavour: u32, dbg_every: u32) -> bool {
    h.u64(seed);
    h.f32(sample_rate);
    let r = catch_unwind(AssertUnwindSafe(|| {
        adsr_sequence(h, seed, sample_rate, n_ops, flavour, dbg_every);
    }));
    h.bool(r.is_err());
    r.is_err()
}

const SANE_RATES: [f32; 9] = [
    100.0, 441.0, 1_000.0, 8_000.0, 22_050.0, 44_100.0, 48_000.0, 96_000.0, 192_000.0,
];

const ODD_RATES: [f32; 16] = [
    0.0,
    -0.0,
    -1.0,
    -48_000.0,
    1.0e-3,
    1.0,
    10.0,
    99.0,
    3.9,
    4.0,
    1.0e9,
    1.0e20,
    f32::MAX,
    f32::INFINITY,
    f32::NEG_INFINITY,
    f32::NAN,
];

#[test]
fn adsr_random_sequences() {
    silence_panics();
    let mut h = Fnv::new();
    let mut seed = 1_u64;
    for flavour in 0..4 {
        for sr in SANE_RATES {
            for _ in 0..6 {
                let panicked = run_adsr_sequence(&mut h, seed, sr, 4_000, flavour, 7);
                assert!(!panicked, "in-range sample rate {} must never panic (seed {})", sr, seed);
                seed += 1;
            }
        }
    }
    println!("HASH adsr_random_sequences {:016x}", h.0);
}

#[test]
fn adsr_out_of_range_sample_rates() {
    silence_panics();
    let mut h = Fnv::new();
    let mut panics = 0_u32;
    let mut seed = 10_001_u64;
    for flavour in 0..4 {
        for sr in ODD_RATES {
            for _ in 0..4 {
                // panics are counted for information (they are also part of the hash)
                if run_adsr_sequence(&mut h, seed, sr, 1_500, flavour, 5) {
                    panics += 1;
                }
                seed += 1;
            }
        }
    }
    h.u32(panics);
    println!(
        "HASH adsr_out_of_range_sample_rates {:016x} (sequences ending in a panic: {})",
        h.0, panics
    );
}

/// complete envelopes with every tick hashed, including the slowest possible phases
#[test]
fn adsr_full_envelopes() {
    silence_panics();
    let mut h = Fnv::new();
    let mut buf = String::new();
    let cases: [(f32, f32, f32, f32, f32); 12] = [
        // sample rate, attack, decay, sustain, release
        (1_000.0, 0.1, 0.1, 0.5, 0.1),
        (1_000.0, 0.001, 0.001, 1.0, 0.001),
        (1_000.0, 0.0, -3.0, 0.0, f32::NAN),
        (100.0, 0.001, 0.004, 0.3, 0.02),
        (100.0, 20.0, 20.0, 0.9, 20.0),
        (44_100.0, 0.37, 1.21, 0.123_456, 2.5),
        (48_000.0, 3.0, 0.5, 0.999_999, 1.0),
        (192_000.0, 0.001, 0.001, 0.0, 0.001),
        (192_000.0, 20.0, 0.3, 0.7, 1.0),
        (192_000.0, 1.0, 20.0, 0.25, 0.01),
        (96_000.0, 0.5, 0.5, 0.5, 25.0),
        (8_000.0, f32::INFINITY, 1.0e9, 2.0, f32::MAX),
    ];
    for (sr, a, d, s, r) in cases {
        let mut adsr = Adsr::new(sr);
        adsr.set_input(Input::Attack(a.into()));
        adsr.set_input(Input::Decay(d.into()));
        adsr.set_input(Input::Sustain(s.into()));
        adsr.set_input(Input::Release(r.into()));
        let a_ticks = (f32::from(TimePeriod::from(a)) * sr) as u64;
        let d_ticks = (f32::from(TimePeriod::from(d)) * sr) as u64;
        let r_ticks = (f32::from(TimePeriod::from(r)) * sr) as u64;
        adsr.gate_on();
        h.f32(adsr.value());
        let n_on = a_ticks + d_ticks + (a_ticks + d_ticks) / 2 + 50;
        for t in 0..n_on {
            adsr.tick();
            h.f32(adsr.value());
            if t % 100_003 == 0 {
                dbg_into(&mut buf, &mut h, &adsr, false);
            }
        }
        dbg_into(&mut buf, &mut h, &adsr, false);
        adsr.gate_off();
        h.f32(adsr.value());
        let n_off = r_ticks + r_ticks / 2 + 50;
        for t in 0..n_off {
            adsr.tick();
            h.f32(adsr.value());
            if t % 100_003 == 0 {
                dbg_into(&mut buf, &mut h, &adsr, false);
            }
        }
        dbg_into(&mut buf, &mut h, &adsr, true);

        // retrigger / release in the middle of every phase, at several positions
        for cut in [1_u64, 2, 3, 17, 100, 1_000, 33_333] {
            let mut e = Adsr::new(sr);
            e.set_input(Input::Attack(a.into()));
            e.set_input(Input::Decay(d.into()));
            e.set_input(Input::Sustain(s.into()));
            e.set_input(Input::Release(r.into()));
            e.gate_on();
            for _ in 0..cut {
                e.tick();
                h.f32(e.value());
            }
            e.gate_off();
            for _ in 0..cut {
                e.tick();
                h.f32(e.value());
            }
            e.gate_on();
            for _ in 0..(cut * 2) {
                e.tick();
                h.f32(e.value());
            }
            // change the time of the running phase, then carry on
            e.set_input(Input::Attack((a * 0.5).into()));
            e.set_input(Input::Decay((d * 2.0).into()));
            e.set_input(Input::Sustain((s * 0.5).into()));
            for _ in 0..(cut * 3) {
                e.tick();
                h.f32(e.value());
            }
            e.gate_off();
            e.set_input(Input::Release((r * 0.25).into()));
            for _ in 0..(cut * 2) {
                e.tick();
                h.f32(e.value());
            }
            dbg_into(&mut buf, &mut h, &e, false);
        }
    }
    println!("HASH adsr_full_envelopes {:016x}", h.0);
}

#[test]
fn adsr_conversions_and_public_types() {
    let mut h = Fnv::new();
    let mut buf = String::new();
    let mut rng = Lcg::new(777);
    let mut vals: Vec<f32> = EDGE_F32.to_vec();
    for _ in 0..20_000 {
        vals.push(any_f32(&mut rng));
    }
    let mut prev = 0.0_f32;
    for v in vals {
        let t = TimePeriod::from(v);
        let s = SustainLevel::from(v);
        h.f32(f32::from(t));
        h.f32(f32::from(s));
        h.bool(t == TimePeriod::from(prev));
        h.bool(s == SustainLevel::from(prev));
        dbg_into(&mut buf, &mut h, &t, false);
        dbg_into(&mut buf, &mut h, &s, false);
        let inputs = [
            Input::Attack(t),
            Input::Decay(t),
            Input::Sustain(s),
            Input::Release(t),
        ];
        for (i, a) in inputs.iter().enumerate() {
            dbg_into(&mut buf, &mut h, a, i == 2);
            for b in inputs.iter() {
                h.bool(a == b);
            }
            h.bool(*a == Input::Attack(prev.into()));
        }
        prev = v;
    }
    let states = [
        State::AtRest,
        State::Attack,
        State::Decay,
        State::Sustain,
        State::Release,
    ];
    for a in states {
        dbg_into(&mut buf, &mut h, &a, false);
        for b in states {
            h.bool(a == b);
        }
    }
    h.f32(adsr::MIN_TIME_PERIOD_SEC);
    h.f32(adsr::MAX_TIME_PERIOD_SEC);
    println!("HASH adsr_conversions_and_public_types {:016x}", h.0);
}

// ---------------------------------------------------------------------------------------------------------------------
// LFO (shares the phase accumulator)

const SHAPES: [Waveshape; 5] = [
    Waveshape::Sine,
    Waveshape::Triangle,
    Waveshape::UpSaw,
    Waveshape::DownSaw,
    Waveshape::Square,
];

fn lfo_observe(h: &mut Fnv, lfo: &Lfo) {
    for s in SHAPES {
        h.f32(lfo.get(s));
    }
}

fn lfo_sequence(h: &mut Fnv, seed: u64, sample_rate: f32, n_ops: u32, wild: bool) {
    let mut rng = Lcg::new(seed);
    let mut buf = String::new();
    let mut lfo = Lfo::new(sample_rate);
    let mut other = Lfo::new(sample_rate);
    lfo_observe(h, &lfo);
    dbg_into(&mut buf, h, &lfo, false);
    for i in 0..n_ops {
        h.u32(i);
        match rng.below(20) {
            0 => {
                let f = if wild {
                    any_f32(&mut rng)
                } else {
                    match rng.below(4) {
                        0 => 0.0,
                        1 => sample_rate,
                        2 => rng.unit() * sample_rate,
                        _ => rng.unit() * 20.0,
                    }
                };
                lfo.set_frequency(f);
                if rng.below(2) == 0 {
                    other.set_frequency(f);
                }
            }
            1 => {
                let p = match rng.below(4) {
                    0 => any_f32(&mut rng),
                    1 => rng.unit(),
                    2 => -rng.unit() * 10.0,
                    _ => rng.unit() * 1000.0,
                };
                lfo.set_phase(p);
                if rng.below(2) == 0 {
                    other.set_phase(p);
                }
            }
            2 => {
                lfo.reset();
                if rng.below(2) == 0 {
                    other.reset();
                }
            }
            3 => {
                other = lfo;
            }
            _ => {
                let burst = if rng.below(16) == 0 { rng.below(300) + 1 } else { 1 };
                for _ in 0..burst {
                    lfo.tick();
                    lfo_observe(h, &lfo);
                }
                if rng.below(2) == 0 {
                    other.tick();
                }
            }
        }
        lfo_observe(h, &lfo);
        h.bool(lfo == other);
        h.bool(other == lfo);
        if i % 5 == 0 {
            dbg_into(&mut buf, h, &lfo, rng.below(4) == 0);
        }
    }
    dbg_into(&mut buf, h, &lfo, true);
    dbg_into(&mut buf, h, &other, true);
}

#[test]
fn lfo_random_sequences() {
    silence_panics();
    let mut h = Fnv::new();
    let mut panics = 0_u32;
    let mut seed = 50_001_u64;
    for wild in [false, true] {
        for sr in SANE_RATES.iter().chain(ODD_RATES.iter()) {
            for _ in 0..3 {
                h.u64(seed);
                h.f32(*sr);
                let r = catch_unwind(AssertUnwindSafe(|| {
                    lfo_sequence(&mut h, seed, *sr, 2_000, wild);
                }));
                h.bool(r.is_err());
                if r.is_err() {
                    panics += 1;
                }
                seed += 1;
            }
        }
    }
    h.u32(panics);
    println!(
        "HASH lfo_random_sequences {:016x} (sequences ending in a panic: {})",
        h.0, panics
    );
}
