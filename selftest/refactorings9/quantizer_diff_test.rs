// Differential test for src/quantizer.rs.
//
// Drives the public API of `synth_utils::quantizer` with long pseudo-random call sequences (fixed-seed LCG) and
// edge values, hashes every observable output (FNV-1a, 64 bit) and prints the hashes. The same file is run on the
// clean crate and on every refactoring; the hashes must be identical.
//
// Run with:  cargo test --offline --test diff_test -- --nocapture      (and again with --release)

use synth_utils::quantizer::{Conversion, Note, Quantizer};

struct Lcg(u64);

impl Lcg {
    fn next(&mut self) -> u32 {
        self.0 = self
            .0
            .wrapping_mul(6364136223846793005)
            .wrapping_add(1442695040888963407);
        (self.0 >> 32) as u32
    }

    fn below(&mut self, n: u32) -> u32 {
        self.next() % n
    }

    fn unit(&mut self) -> f32 {
        (self.next() >> 8) as f32 / (1u32 << 24) as f32
    }
}

struct Fnv(u64);

impl Fnv {
    fn new() -> Self {
        Fnv(0xcbf2_9ce4_8422_2325)
    }

    fn byte(&mut self, b: u8) {
        self.0 ^= b as u64;
        self.0 = self.0.wrapping_mul(0x0000_0100_0000_01b3);
    }

    fn u32(&mut self, v: u32) {
        for b in v.to_le_bytes() {
            self.byte(b);
        }
    }

    fn conv(&mut self, c: &Conversion) {
        self.byte(c.note_num);
        self.u32(c.stairstep.to_bits());
        self.u32(c.fraction.to_bits());
    }

    fn scale(&mut self, q: &Quantizer) {
        let mut m = 0u32;
        for n in 0..=255u8 {
            // numbers above 11 act as 11
            if q.is_allowed(Note::from(n)) {
                m = m.wrapping_mul(3).wrapping_add(1 + n as u32);
            }
        }
        self.u32(m);
        for n in [
            Note::C,
            Note::CSHARP,
            Note::D,
            Note::DSHARP,
            Note::E,
            Note::F,
            Note::FSHARP,
            Note::G,
            Note::GSHARP,
            Note::A,
            Note::ASHARP,
            Note::B,
        ] {
            self.byte(q.is_allowed(n) as u8);
            self.byte(u8::from(n));
        }
    }
}

const EDGES: [f32; 40] = [
    0.0,
    -0.0,
    1.0e-7,
    -1.0e-7,
    f32::MIN_POSITIVE,
    -f32::MIN_POSITIVE,
    1.0e-45,
    0.5,
    1.0,
    -1.0,
    1.0 / 12.0,
    11.0 / 12.0,
    0.999_999_9,
    1.000_000_1,
    9.0,
    9.916_666,
    9.916_667,
    9.958_333,
    9.99,
    9.999_999,
    10.0,
    10.000_001,
    10.05,
    10.1,
    11.0,
    100.0,
    -100.0,
    4294.967_3,
    4294.968,
    1.0e9,
    -1.0e9,
    1.0e30,
    f32::MAX,
    f32::MIN,
    f32::INFINITY,
    f32::NEG_INFINITY,
    f32::NAN,
    -f32::NAN,
    f32::EPSILON,
    5.0,
];

fn random_input(r: &mut Lcg, last: f32) -> f32 {
    match r.below(16) {
        // anywhere in range
        0..=4 => r.unit() * 10.0,
        // small jitter around the previous input (hysteresis region)
        5..=8 => last + (r.unit() - 0.5) * 0.04,
        // right on top of a semitone boundary, plus or minus up to 1.5 hysteresis widths
        9..=11 => r.below(122) as f32 / 12.0 + (r.unit() - 0.5) * 0.025,
        // exact semitone voltages
        12 => r.below(125) as f32 / 12.0,
        // out of range, both sides
        13 => (r.unit() - 0.5) * 40.0,
        // raw bit patterns: every class of f32 including NaN payloads, infinities, subnormals
        14 => f32::from_bits(r.next()),
        // edge table
        _ => EDGES[r.below(EDGES.len() as u32) as usize],
    }
}

fn random_notes(r: &mut Lcg, buf: &mut [Note; 16]) -> usize {
    let len = match r.below(8) {
        0 => 0,
        1..=4 => 1 + r.below(3),
        5 | 6 => 1 + r.below(12),
        _ => 16,
    } as usize;
    for slot in buf.iter_mut().take(len) {
        *slot = if r.below(10) == 0 {
            // unclamped note numbers, above 11 act as 11
            Note::new(r.next() as u8)
        } else {
            Note::from(r.below(12) as u8)
        };
    }
    len
}

fn run_sequence(seed: u64, steps: usize, convert_weight: u32) -> u64 {
    let mut r = Lcg(seed);
    let mut h = Fnv::new();
    let mut q = Quantizer::new();
    let mut buf = [Note::C; 16];
    let mut last = 0.0_f32;
    h.scale(&q);
    for _ in 0..steps {
        match r.below(convert_weight + 3) {
            0 => {
                let n = random_notes(&mut r, &mut buf);
                q.allow(&buf[..n]);
                h.scale(&q);
            }
            1 | 2 => {
                let n = random_notes(&mut r, &mut buf);
                q.forbid(&buf[..n]);
                h.scale(&q);
            }
            _ => {
                let v = random_input(&mut r, last);
                if v.is_finite() {
                    last = v.max(-1.0).min(11.0);
                }
                let c = q.convert(v);
                h.conv(&c);
                // the returned record is a copy: converting the same value again is also observable
                if r.below(8) == 0 {
                    let c2 = q.convert(v);
                    h.conv(&c2);
                }
            }
        }
    }
    h.0
}

/// Every scale (all 4095 non-empty masks) x a sweep over the whole range, fresh quantizer and with history.
fn run_all_scales() -> u64 {
    let mut h = Fnv::new();
    let all = [
        Note::C,
        Note::CSHARP,
        Note::D,
        Note::DSHARP,
        Note::E,
        Note::F,
        Note::FSHARP,
        Note::G,
        Note::GSHARP,
        Note::A,
        Note::ASHARP,
        Note::B,
    ];
    for mask in 0u32..4096 {
        let mut q = Quantizer::new();
        let mut forbidden = [Note::C; 12];
        let mut k = 0;
        for (i, n) in all.iter().enumerate() {
            if mask >> i & 1 == 0 {
                forbidden[k] = *n;
                k += 1;
            }
        }
        q.forbid(&forbidden[..k]);
        h.scale(&q);
        // upward sweep with history, quarter semitone steps, beyond both ends
        let mut i = -8i32;
        while i <= 488 {
            let v = i as f32 / 48.0;
            h.conv(&q.convert(v));
            i += 1;
        }
        // downward sweep with history, coarser
        let mut i = 1210i32;
        while i >= -10 {
            let v = i as f32 / 120.0 + 0.001;
            h.conv(&q.convert(v));
            i -= 7;
        }
        // fresh quantizer for every input
        for j in 0..61 {
            let mut f = Quantizer::new();
            f.forbid(&forbidden[..k]);
            let v = j as f32 / 6.0 + 0.03;
            h.conv(&f.convert(v));
        }
    }
    h.0
}

/// Every edge value as the first conversion, as a second conversion after every other edge value, and after a
/// scale change that forbids the note just reported.
fn run_edges() -> u64 {
    let mut h = Fnv::new();
    h.conv(&Conversion::new());
    for &a in EDGES.iter() {
        let mut q = Quantizer::new();
        h.conv(&q.convert(a));
        for &b in EDGES.iter() {
            let mut q = Quantizer::new();
            let ca = q.convert(a);
            h.conv(&ca);
            h.conv(&q.convert(b));
            q.forbid(&[Note::from(ca.note_num % 12)]);
            h.scale(&q);
            h.conv(&q.convert(b));
            h.conv(&q.convert(a));
            q.allow(&[Note::from(ca.note_num % 12)]);
            h.conv(&q.convert(a));
            // C forbidden on a fresh quantizer: the initial cached note (0) is not allowed
            let mut q = Quantizer::new();
            q.forbid(&[Note::C]);
            h.conv(&q.convert(a));
            h.conv(&q.convert(b));
        }
    }
    // forbid / allow with empty slices, and forbidding everything in different orders
    let mut q = Quantizer::new();
    q.forbid(&[]);
    q.allow(&[]);
    h.scale(&q);
    for last in 0..12u8 {
        let mut notes = [Note::C; 12];
        for (i, slot) in notes.iter_mut().enumerate() {
            *slot = Note::from(((i as u8) + last + 1) % 12);
        }
        let mut q = Quantizer::new();
        q.forbid(&notes);
        h.scale(&q);
        h.conv(&q.convert(0.0));
        h.conv(&q.convert(5.5));
        h.conv(&q.convert(10.0));
        q.forbid(&[]);
        h.scale(&q);
        q.forbid(&[Note::from(last)]);
        h.scale(&q);
        q.forbid(&[Note::from(last), Note::from(last)]);
        h.scale(&q);
    }
    h.0
}

/// Fine sweep (1/50 semitone) of the whole range for a few scales, up then down, so that every
/// bucket edge and every hysteresis edge is crossed in both directions.
fn run_fine_sweep() -> u64 {
    let mut h = Fnv::new();
    let scales: [&[Note]; 5] = [
        &[],
        &[Note::CSHARP, Note::DSHARP, Note::FSHARP, Note::GSHARP, Note::ASHARP],
        &[Note::C, Note::B],
        &[
            Note::C,
            Note::CSHARP,
            Note::D,
            Note::DSHARP,
            Note::E,
            Note::F,
            Note::G,
            Note::GSHARP,
            Note::A,
            Note::ASHARP,
            Note::B,
        ],
        &[
            Note::CSHARP,
            Note::D,
            Note::DSHARP,
            Note::E,
            Note::F,
            Note::FSHARP,
            Note::G,
            Note::GSHARP,
            Note::A,
            Note::ASHARP,
            Note::B,
        ],
    ];
    for s in scales.iter() {
        let mut q = Quantizer::new();
        q.forbid(s);
        h.scale(&q);
        let mut i = -100i32;
        while i <= 6100 {
            h.conv(&q.convert(i as f32 / 600.0));
            i += 1;
        }
        while i >= -100 {
            h.conv(&q.convert(i as f32 / 600.0));
            i -= 1;
        }
    }
    h.0
}

#[test]
fn quantizer_differential_hashes() {
    let seeds: [u64; 6] = [1, 2, 0xDEAD_BEEF, 0x1234_5678_9ABC_DEF0, 42, 987_654_321];
    let mut total = Fnv::new();
    for (i, &s) in seeds.iter().enumerate() {
        // mostly conversions, and scale-change heavy
        let a = run_sequence(s, 200_000, 20);
        let b = run_sequence(s ^ 0x5555_5555, 100_000, 2);
        println!("QHASH seq{} {:016x} {:016x}", i, a, b);
        total.u32(a as u32);
        total.u32((a >> 32) as u32);
        total.u32(b as u32);
        total.u32((b >> 32) as u32);
    }
    let c = run_all_scales();
    println!("QHASH scales {:016x}", c);
    let d = run_edges();
    println!("QHASH edges {:016x}", d);
    let e = run_fine_sweep();
    println!("QHASH sweep {:016x}", e);
    for v in [c, d, e] {
        total.u32(v as u32);
        total.u32((v >> 32) as u32);
    }
    println!("QHASH TOTAL {:016x}", total.0);
}
