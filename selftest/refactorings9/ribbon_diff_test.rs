//! Differential test for `synth_utils::ribbon_controller`.
//!
//! Drives ribbon controllers of several sample rates / buffer capacities / resistor sets with long pseudo-random
//! call sequences and hashes every observable output (FNV-1a over the bit patterns). The hash printed by the
//! clean crate must be identical to the one printed with each refactoring applied, in debug and release builds.
//!
//! Copy to `tests/diff_test.rs` and run `cargo test --offline --test diff_test -- --nocapture`.

use synth_utils::ribbon_controller::{sample_rate_to_capacity, RibbonController};

struct Lcg(u64);

impl Lcg {
    fn next_u32(&mut self) -> u32 {
        self.0 = self
            .0
            .wrapping_mul(6364136223846793005)
            .wrapping_add(1442695040888963407);
        (self.0 >> 32) as u32
    }

    fn below(&mut self, n: u32) -> u32 {
        self.next_u32() % n
    }

    fn unit(&mut self) -> f32 {
        (self.next_u32() >> 8) as f32 / (1u32 << 24) as f32
    }
}

struct Fnv(u64);

impl Fnv {
    fn new() -> Self {
        Fnv(0xcbf2_9ce4_8422_2325)
    }

    fn byte(&mut self, b: u8) {
        self.0 ^= b as u64;
        self.0 = self.0.wrapping_mul(0x0000_0100_0000_01b3);
    }

    fn u32(&mut self, v: u32) {
        for b in v.to_le_bytes() {
            self.byte(b);
        }
    }

    fn f32(&mut self, v: f32) {
        self.u32(v.to_bits());
    }

    fn bool(&mut self, v: bool) {
        self.byte(v as u8);
    }
}

const EDGE_SAMPLES: [f32; 24] = [
    0.0,
    -0.0,
    1.0,
    -1.0,
    0.5,
    0.25,
    0.9,
    0.95,
    0.96,
    0.960_614_8,
    0.960_614_74,
    0.960_614_86,
    0.97,
    0.999_999_94,
    1.000_000_1,
    f32::MIN_POSITIVE,
    1.0e-45,
    -1.0e-45,
    1.0e30,
    -1.0e30,
    f32::MAX,
    f32::MIN,
    f32::INFINITY,
    f32::NEG_INFINITY,
];

/// One pseudo-random sample. `mode` selects the flavour of the current stretch of samples.
fn sample(rng: &mut Lcg, mode: u32, hold: f32) -> f32 {
    match mode {
        // a steady finger with a little noise
        0 => hold + (rng.unit() - 0.5) * 0.01,
        // a steady finger, exactly constant
        1 => hold,
        // anything in [0, 1)
        2 => rng.unit(),
        // mostly in range with occasional out-of-range glitches
        3 => {
            if rng.below(97) == 0 {
                1.0
            } else {
                rng.unit() * 0.9
            }
        }
        // finger lifted
        4 => 0.97 + rng.unit() * 0.03,
        // edge values, NaN included
        5 => {
            let i = rng.below(EDGE_SAMPLES.len() as u32 + 2) as usize;
            if i < EDGE_SAMPLES.len() {
                EDGE_SAMPLES[i]
            } else if i == EDGE_SAMPLES.len() {
                f32::NAN
            } else {
                -f32::NAN
            }
        }
        // arbitrary bit patterns
        6 => f32::from_bits(rng.next_u32()),
        // a slow slide
        _ => (hold + rng.unit() * 0.001).min(0.95),
    }
}

fn observe<const N: usize>(h: &mut Fnv, rng: &mut Lcg, rib: &mut RibbonController<N>) {
    h.f32(rib.value());
    h.bool(rib.finger_is_pressing());
    // the self-clearing edge getters are read at pseudo-random moments so that the pending state is exercised too
    match rng.below(8) {
        0 => {
            h.byte(0xA0);
            h.bool(rib.finger_just_pressed());
        }
        1 => {
            h.byte(0xA1);
            h.bool(rib.finger_just_released());
        }
        2 => {
            h.byte(0xA2);
            h.bool(rib.finger_just_pressed());
            h.bool(rib.finger_just_released());
            h.bool(rib.finger_just_pressed());
            h.bool(rib.finger_just_released());
        }
        _ => h.byte(0xA3),
    }
}

fn drive<const N: usize>(
    h: &mut Fnv,
    seed: u64,
    steps: u32,
    sample_rate_hz: f32,
    softpot_ohms: f32,
    dropper_ohms: f32,
    pullup_ohms: f32,
) {
    let mut rng = Lcg(seed);
    let mut rib = RibbonController::<N>::new(sample_rate_hz, softpot_ohms, dropper_ohms, pullup_ohms);
    h.u32(N as u32);
    observe(h, &mut rng, &mut rib);

    let mut mode = 0;
    let mut hold = 0.42_f32;
    let mut left = 0_u32;
    for _ in 0..steps {
        if left == 0 {
            mode = rng.below(8);
            hold = rng.unit() * 0.95;
            // stretches from much shorter to much longer than the capture time
            left = match rng.below(4) {
                0 => 1 + rng.below(4),
                1 => 1 + rng.below(N as u32 + 2),
                2 => 1 + rng.below(2 * N as u32 + 40),
                _ => N as u32 + rng.below(3 * N as u32 + 40),
            };
        }
        left -= 1;
        let s = sample(&mut rng, mode, hold);
        rib.poll(s);
        observe(h, &mut rng, &mut rib);
    }
    // drain both edge flags at the end
    h.bool(rib.finger_just_pressed());
    h.bool(rib.finger_just_released());
    h.bool(rib.finger_just_pressed());
    h.bool(rib.finger_just_released());
    h.f32(rib.value());
}

#[test]
fn ribbon_differential_hash() {
    let mut h = Fnv::new();

    // the helper itself
    for sr in [
        0_u32, 1, 99, 100, 101, 499, 500, 999, 1_000, 1_001, 8_000, 10_000, 44_100, 48_000, 96_000, 192_000,
        286_331,
    ] {
        h.u32(sample_rate_to_capacity(sr) as u32);
    }

    const C100: usize = sample_rate_to_capacity(100);
    const C500: usize = sample_rate_to_capacity(500);
    const C1K: usize = sample_rate_to_capacity(1_000);
    const C10K: usize = sample_rate_to_capacity(10_000);
    const C44K: usize = sample_rate_to_capacity(44_100);
    const C192K: usize = sample_rate_to_capacity(192_000);

    // the documented set-up at several sample rates
    drive::<C100>(&mut h, 1, 20_000, 100.0, 20E3, 820.0, 1E6);
    drive::<C500>(&mut h, 2, 20_000, 500.0, 20E3, 820.0, 1E6);
    drive::<C1K>(&mut h, 3, 40_000, 1_000.0, 10E3, 470.0, 1E6);
    drive::<C10K>(&mut h, 4, 200_000, 10_000.0, 20E3, 820.0, 1E6);
    drive::<C10K>(&mut h, 5, 200_000, 10_000.0, 10E3, 1_000.0, 100E3);
    drive::<C44K>(&mut h, 6, 400_000, 44_100.0, 20E3, 820.0, 1E6);
    drive::<C192K>(&mut h, 7, 1_500_000, 192_000.0, 20E3, 820.0, 470E3);

    // fractional sample rate, truncated by the constructor
    drive::<C10K>(&mut h, 8, 100_000, 10_000.9, 20E3, 820.0, 1E6);

    // capacities that do not come from the helper: larger, smaller, one more than the discarded tail, exactly the
    // discarded tail (the mean of zero samples is NaN), and a single slot with nothing discarded
    drive::<500>(&mut h, 9, 100_000, 10_000.0, 20E3, 820.0, 1E6);
    drive::<64>(&mut h, 10, 100_000, 10_000.0, 20E3, 820.0, 1E6);
    drive::<21>(&mut h, 11, 50_000, 10_000.0, 20E3, 820.0, 1E6);
    drive::<20>(&mut h, 12, 50_000, 10_000.0, 20E3, 820.0, 1E6);
    drive::<1>(&mut h, 13, 20_000, 100.0, 20E3, 820.0, 1E6);

    // odd electrical parameters: no dropper (boundary 1.0), huge dropper (boundary near 0), zero / infinite / NaN
    // / negative resistances, tiny pull-up (large correction), sample rates that are zero, negative or NaN (-> 0)
    drive::<C10K>(&mut h, 14, 60_000, 10_000.0, 20E3, 0.0, 1E6);
    drive::<C10K>(&mut h, 15, 60_000, 10_000.0, 20E3, 1E9, 1E6);
    drive::<C10K>(&mut h, 16, 60_000, 10_000.0, 0.0, 0.0, 1E6);
    drive::<C10K>(&mut h, 17, 60_000, 10_000.0, 20E3, 820.0, 0.0);
    drive::<C10K>(&mut h, 18, 60_000, 10_000.0, 20E3, 820.0, f32::INFINITY);
    drive::<C10K>(&mut h, 19, 60_000, 10_000.0, f32::INFINITY, 820.0, 1E6);
    drive::<C10K>(&mut h, 20, 60_000, 10_000.0, f32::NAN, 820.0, 1E6);
    drive::<C10K>(&mut h, 21, 60_000, 10_000.0, -20E3, 820.0, 1E6);
    drive::<C10K>(&mut h, 22, 60_000, 10_000.0, 20E3, 820.0, 1E3);
    drive::<C10K>(&mut h, 23, 60_000, 10_000.0, 20E3, 820.0, -1E4);
    drive::<C100>(&mut h, 24, 20_000, 0.0, 20E3, 820.0, 1E6);
    drive::<C100>(&mut h, 25, 20_000, -48_000.0, 20E3, 820.0, 1E6);
    drive::<C100>(&mut h, 26, 20_000, f32::NAN, 20E3, 820.0, 1E6);
    drive::<C100>(&mut h, 27, 20_000, 999.99, 20E3, 820.0, 1E6);

    println!("RIBBON_DIFF_HASH = {:016x}", h.0);
}
