//! Differential test for `synth_utils::mono_midi_receiver` (public API only).
//!
//! Drives `MonoMidiReceiver` with long pseudo-random call sequences (LCG, fixed seeds) and folds every observable
//! output after every call into an FNV-1a hash. The hashes are printed (`--nocapture`) and compared with the values
//! obtained on the unmodified crate, so the test fails if any observable output differs anywhere in any sequence.
//!
//! Copy to `tests/diff_test.rs` of the crate and run
//! `cargo test --offline --test diff_test -- --nocapture` (and the same with `--release`).

use synth_utils::mono_midi_receiver::{MonoMidiReceiver, NotePriority, RetriggerMode};

/// Hashes obtained on the unmodified crate (debug and release builds agree).
const EXPECTED: [(&str, u64); 9] = [
    ("raw_bytes", 0xc1c45ca90c9b26b0),
    ("structured", 0x16ef4ce7298c65e2),
    ("realtime_interleaved", 0x1692061dec0fd53f),
    ("note_flood", 0xd07803bc6e7f088b),
    ("controllers_exhaustive", 0x2941be887ec3466d),
    ("pitch_bend_exhaustive", 0x8ca51c3f4996e159),
    ("all_channels", 0xe0a5c2a0ffe055a6),
    ("edges_exhaustive_small", 0x0c2922e21355d76d),
    ("combined", 0x06a5b6d62deb3b30),
];

// ---------------------------------------------------------------------------------------------------------------------

struct Lcg(u64);

impl Lcg {
    fn new(seed: u64) -> Self {
        Lcg(seed)
    }
    fn next_u32(&mut self) -> u32 {
        self.0 = self
            .0
            .wrapping_mul(6364136223846793005)
            .wrapping_add(1442695040888963407);
        (self.0 >> 32) as u32
    }
    fn below(&mut self, n: u32) -> u32 {
        self.next_u32() % n
    }
    fn byte(&mut self) -> u8 {
        (self.next_u32() >> 11) as u8
    }
    fn pick(&mut self, xs: &[u8]) -> u8 {
        xs[self.below(xs.len() as u32) as usize]
    }
}

struct Fnv(u64);

impl Fnv {
    fn new() -> Self {
        Fnv(0xcbf29ce484222325)
    }
    fn u8(&mut self, b: u8) {
        self.0 ^= b as u64;
        self.0 = self.0.wrapping_mul(0x100000001b3);
    }
    fn u32(&mut self, v: u32) {
        for b in v.to_le_bytes() {
            self.u8(b);
        }
    }
    fn u64(&mut self, v: u64) {
        for b in v.to_le_bytes() {
            self.u8(b);
        }
    }
    fn f32(&mut self, v: f32) {
        self.u32(v.to_bits());
    }
    fn bool(&mut self, v: bool) {
        self.u8(v as u8 + 1);
    }
}

/// Hash everything observable through `&self` getters.
fn observe(h: &mut Fnv, mr: &MonoMidiReceiver) {
    h.u8(mr.note_num());
    h.f32(mr.pitch_bend());
    h.f32(mr.velocity());
    h.f32(mr.mod_wheel());
    h.f32(mr.volume());
    h.f32(mr.vcf_cutoff());
    h.f32(mr.vcf_resonance());
    h.f32(mr.portamento_time());
    h.bool(mr.portamento_enabled());
    h.bool(mr.sustain_enabled());
    h.bool(mr.gate());
}

/// Randomly read the self-clearing edge flags (reading is itself an observable, state-changing call).
fn maybe_read_edges(h: &mut Fnv, mr: &mut MonoMidiReceiver, rng: &mut Lcg, one_in: u32) {
    match rng.below(one_in.max(4)) {
        0 => {
            h.u8(0xA0);
            h.bool(mr.rising_gate());
        }
        1 => {
            h.u8(0xA1);
            h.bool(mr.falling_gate());
        }
        2 => {
            h.u8(0xA2);
            h.bool(mr.rising_gate());
            h.bool(mr.falling_gate());
            // second read must be cleared
            h.bool(mr.rising_gate());
            h.bool(mr.falling_gate());
        }
        3 => {
            h.u8(0xA3);
            h.bool(mr.falling_gate());
            h.bool(mr.rising_gate());
        }
        _ => h.u8(0xAF),
    }
}

fn maybe_set_modes(h: &mut Fnv, mr: &mut MonoMidiReceiver, rng: &mut Lcg, one_in: u32) {
    match rng.below(one_in.max(5)) {
        0 => {
            h.u8(0xB0);
            mr.set_retrigger_mode(RetriggerMode::AllowRetrigger)
        }
        1 => {
            h.u8(0xB1);
            mr.set_retrigger_mode(RetriggerMode::NoRetrigger)
        }
        2 => {
            h.u8(0xB2);
            mr.set_note_priority(NotePriority::Last)
        }
        3 => {
            h.u8(0xB3);
            mr.set_note_priority(NotePriority::High)
        }
        4 => {
            h.u8(0xB4);
            mr.set_note_priority(NotePriority::Low)
        }
        _ => (),
    }
}

fn feed(h: &mut Fnv, mr: &mut MonoMidiReceiver, b: u8) {
    mr.parse(b);
    observe(h, mr);
}

const EDGE_CHANNELS: [u8; 8] = [0, 1, 7, 14, 15, 16, 200, 255];
const CCS: [u8; 16] = [
    0x01, 0x07, 0x47, 0x4A, 0x40, 0x41, 0x05, 0x79, 0x7B, // handled
    0x00, 0x02, 0x06, 0x78, 0x7A, 0x7C, 0x7F, // neighbours, not handled
];
const EDGE_DATA: [u8; 10] = [0, 1, 2, 62, 63, 64, 65, 100, 126, 127];
const REALTIME: [u8; 8] = [0xF8, 0xF9, 0xFA, 0xFB, 0xFC, 0xFD, 0xFE, 0xFF];

// ---------------------------------------------------------------------------------------------------------------------
// scenarios

/// 1. completely random bytes, all byte values, every edge channel
fn raw_bytes() -> u64 {
    let mut h = Fnv::new();
    for (i, &ch) in EDGE_CHANNELS.iter().enumerate() {
        let mut rng = Lcg::new(0x1234_5678_9ABC_DEF0 ^ (i as u64) << 17);
        let mut mr = MonoMidiReceiver::new(ch);
        observe(&mut h, &mr);
        for _ in 0..60_000 {
            // half of the time restrict the status nibble so that listened-channel messages are frequent
            let mut b = rng.byte();
            if b >= 0x80 && b < 0xF0 && rng.below(2) == 0 {
                b = (b & 0xF0) | ch.min(15);
            }
            feed(&mut h, &mut mr, b);
            maybe_read_edges(&mut h, &mut mr, &mut rng, 9);
            maybe_set_modes(&mut h, &mut mr, &mut rng, 200);
        }
    }
    h.0
}

/// emit one well-formed (or deliberately truncated) message
fn emit_message(h: &mut Fnv, mr: &mut MonoMidiReceiver, rng: &mut Lcg, ch: u8, interleave_rt: bool) {
    let other_ch = (ch.min(15) + 1 + rng.below(15) as u8) & 0x0F;
    let use_ch = if rng.below(5) == 0 { other_ch } else { ch.min(15) };
    let running = rng.below(3) == 0; // omit the status byte: relies on running status, whatever it is
    let truncate = rng.below(17) == 0; // drop the last data byte
    let small_note = || -> [u8; 6] { [36, 40, 43, 48, 0, 127] };
    let note = if rng.below(4) == 0 { rng.byte() & 0x7F } else { rng.pick(&small_note()) };
    let data = if rng.below(2) == 0 { rng.pick(&EDGE_DATA) } else { rng.byte() & 0x7F };

    let mut bytes: [u8; 8] = [0; 8];
    let mut n = 0usize;
    let mut push = |b: u8| {
        bytes[n] = b;
        n += 1;
    };

    match rng.below(16) {
        0..=4 => {
            // note on (velocity zero now and then)
            if !running {
                push(0x90 | use_ch);
            }
            push(note);
            push(if rng.below(5) == 0 { 0 } else { data });
        }
        5..=7 => {
            if !running {
                push(0x80 | use_ch);
            }
            push(note);
            push(data);
        }
        8..=10 => {
            if !running {
                push(0xB0 | use_ch);
            }
            push(if rng.below(6) == 0 { rng.byte() & 0x7F } else { rng.pick(&CCS) });
            push(data);
        }
        11 => {
            if !running {
                push(0xE0 | use_ch);
            }
            push(if rng.below(2) == 0 { rng.pick(&[0, 1, 0x7F, 0x40]) } else { rng.byte() & 0x7F });
            push(if rng.below(2) == 0 { rng.pick(&[0, 0x3F, 0x40, 0x41, 0x7F]) } else { rng.byte() & 0x7F });
        }
        12 => {
            // unsupported channel messages: poly pressure (2 data), program change (1), channel pressure (1)
            match rng.below(3) {
                0 => {
                    push(0xA0 | use_ch);
                    push(note);
                    push(data);
                }
                1 => {
                    push(0xC0 | use_ch);
                    push(data);
                }
                _ => {
                    push(0xD0 | use_ch);
                    push(data);
                }
            }
        }
        13 => {
            // system common: cancels running status
            match rng.below(5) {
                0 => {
                    push(0xF1);
                    push(data);
                }
                1 => {
                    push(0xF2);
                    push(data);
                    push(note);
                }
                2 => {
                    push(0xF3);
                    push(data);
                }
                3 => push(0xF6),
                _ => push(rng.pick(&[0xF4, 0xF5, 0xF7])),
            }
        }
        14 => {
            // sysex with a short payload, sometimes unterminated
            push(0xF0);
            let len = rng.below(5);
            for _ in 0..len {
                push(rng.byte() & 0x7F);
            }
            if rng.below(4) != 0 {
                push(0xF7);
            }
        }
        _ => {
            // stray data bytes
            push(data);
            if rng.below(2) == 0 {
                push(note);
            }
        }
    }
    let n_emit = if truncate && n > 1 { n - 1 } else { n };
    for &b in &bytes[..n_emit] {
        if interleave_rt {
            while rng.below(3) == 0 {
                let rt = rng.pick(&REALTIME);
                feed(h, mr, rt);
            }
        }
        feed(h, mr, b);
        if rng.below(8) == 0 {
            maybe_read_edges(h, mr, rng, 4);
        }
    }
}

/// 2. structured traffic: mostly well formed messages with running status, truncation, other channels, sysex
fn structured(interleave_rt: bool, seed: u64) -> u64 {
    let mut h = Fnv::new();
    for (i, &ch) in EDGE_CHANNELS.iter().enumerate() {
        let mut rng = Lcg::new(seed.wrapping_add(0x9E37_79B9_7F4A_7C15u64.wrapping_mul(i as u64 + 1)));
        let mut mr = MonoMidiReceiver::new(ch);
        for _ in 0..25_000 {
            emit_message(&mut h, &mut mr, &mut rng, ch, interleave_rt);
            maybe_read_edges(&mut h, &mut mr, &mut rng, 6);
            maybe_set_modes(&mut h, &mut mr, &mut rng, 40);
        }
    }
    h.0
}

/// 4. many more than 32 outstanding notes, then released in various orders, every priority / retrigger mode
fn note_flood() -> u64 {
    let mut h = Fnv::new();
    let mut rng = Lcg::new(0x0BAD_CAFE_F00D_0001);
    for prio in 0..3u8 {
        for retrig in 0..2u8 {
            let mut mr = MonoMidiReceiver::new(3);
            mr.set_note_priority(match prio {
                0 => NotePriority::Last,
                1 => NotePriority::High,
                _ => NotePriority::Low,
            });
            mr.set_retrigger_mode(if retrig == 0 { RetriggerMode::NoRetrigger } else { RetriggerMode::AllowRetrigger });
            for round in 0..40u32 {
                // press 20..100 notes (duplicates included), well past the 32-note buffer
                let n_press = 20 + rng.below(80);
                feed(&mut h, &mut mr, 0x93);
                for _ in 0..n_press {
                    let note = if round % 2 == 0 { rng.byte() & 0x7F } else { 30 + rng.below(40) as u8 };
                    feed(&mut h, &mut mr, note);
                    feed(&mut h, &mut mr, 1 + (rng.byte() % 127));
                    maybe_read_edges(&mut h, &mut mr, &mut rng, 5);
                }
                // release: ascending, descending, random, all-notes-off
                match round % 4 {
                    0 => {
                        feed(&mut h, &mut mr, 0x83);
                        for note in 0..128u8 {
                            feed(&mut h, &mut mr, note);
                            feed(&mut h, &mut mr, 64);
                            maybe_read_edges(&mut h, &mut mr, &mut rng, 7);
                        }
                    }
                    1 => {
                        // running status note-on with velocity 0
                        for note in (0..128u8).rev() {
                            feed(&mut h, &mut mr, note);
                            feed(&mut h, &mut mr, 0);
                            maybe_read_edges(&mut h, &mut mr, &mut rng, 7);
                        }
                    }
                    2 => {
                        feed(&mut h, &mut mr, 0x83);
                        for _ in 0..300 {
                            feed(&mut h, &mut mr, rng.byte() & 0x7F);
                            feed(&mut h, &mut mr, rng.byte() & 0x7F);
                            maybe_read_edges(&mut h, &mut mr, &mut rng, 7);
                        }
                        // leftovers stay held into the next round
                    }
                    _ => {
                        feed(&mut h, &mut mr, 0xB3);
                        feed(&mut h, &mut mr, 0x7B);
                        feed(&mut h, &mut mr, rng.byte() & 0x7F);
                        maybe_read_edges(&mut h, &mut mr, &mut rng, 4);
                        // a second all-notes-off with the gate already low
                        feed(&mut h, &mut mr, 0x7B);
                        feed(&mut h, &mut mr, 0);
                        maybe_read_edges(&mut h, &mut mr, &mut rng, 4);
                    }
                }
            }
        }
    }
    h.0
}

/// 5. every controller number with every value, on the listened and on another channel, with reset in between
fn controllers_exhaustive() -> u64 {
    let mut h = Fnv::new();
    for &ch in &[0u8, 9, 15, 77] {
        let mut mr = MonoMidiReceiver::new(ch);
        let c = ch.min(15);
        // a held note so that all-notes-off has something to do
        for cc in 0..128u8 {
            for val in 0..128u8 {
                if val % 32 == 0 {
                    feed(&mut h, &mut mr, 0x90 | c);
                    feed(&mut h, &mut mr, cc);
                    feed(&mut h, &mut mr, val | 1);
                }
                feed(&mut h, &mut mr, 0xB0 | c);
                feed(&mut h, &mut mr, cc);
                feed(&mut h, &mut mr, val);
                // running status repeat
                feed(&mut h, &mut mr, cc);
                feed(&mut h, &mut mr, 127 - val);
                // other channel must be ignored
                feed(&mut h, &mut mr, 0xB0 | ((c + 1) & 0x0F));
                feed(&mut h, &mut mr, cc);
                feed(&mut h, &mut mr, val ^ 0x55);
                h.bool(mr.rising_gate());
                h.bool(mr.falling_gate());
            }
            // reset all controllers after each controller number, then check again
            feed(&mut h, &mut mr, 0xB0 | c);
            feed(&mut h, &mut mr, 0x79);
            feed(&mut h, &mut mr, cc);
        }
    }
    h.0
}

/// 6. every 14-bit pitch bend value
fn pitch_bend_exhaustive() -> u64 {
    let mut h = Fnv::new();
    let mut mr = MonoMidiReceiver::new(5);
    feed(&mut h, &mut mr, 0xE5);
    for v in 0..16384u32 {
        feed(&mut h, &mut mr, (v & 0x7F) as u8);
        feed(&mut h, &mut mr, (v >> 7) as u8);
    }
    // with explicit status and an other-channel message in between
    for v in (0..16384u32).step_by(37) {
        feed(&mut h, &mut mr, 0xE5);
        feed(&mut h, &mut mr, (v & 0x7F) as u8);
        feed(&mut h, &mut mr, (v >> 7) as u8);
        feed(&mut h, &mut mr, 0xE6);
        feed(&mut h, &mut mr, (v >> 7) as u8);
        feed(&mut h, &mut mr, (v & 0x7F) as u8);
    }
    h.0
}

/// 7. every constructor argument 0..=255, same traffic sent on every channel
fn all_channels() -> u64 {
    let mut h = Fnv::new();
    for ch_arg in 0..=255u8 {
        let mut rng = Lcg::new(0x5151_5151_0000_0000 + ch_arg as u64);
        let mut mr = MonoMidiReceiver::new(ch_arg);
        for _ in 0..40 {
            let c = rng.below(16) as u8;
            let note = rng.byte() & 0x7F;
            feed(&mut h, &mut mr, 0x90 | c);
            feed(&mut h, &mut mr, note);
            feed(&mut h, &mut mr, rng.byte() & 0x7F);
            feed(&mut h, &mut mr, 0xB0 | c);
            feed(&mut h, &mut mr, rng.pick(&CCS));
            feed(&mut h, &mut mr, rng.pick(&EDGE_DATA));
            feed(&mut h, &mut mr, 0xE0 | c);
            feed(&mut h, &mut mr, rng.byte() & 0x7F);
            feed(&mut h, &mut mr, rng.byte() & 0x7F);
            if rng.below(2) == 0 {
                feed(&mut h, &mut mr, 0x80 | c);
                feed(&mut h, &mut mr, note);
                feed(&mut h, &mut mr, rng.byte() & 0x7F);
            }
            h.bool(mr.rising_gate());
            h.bool(mr.falling_gate());
        }
    }
    h.0
}

/// 8. exhaustive short event sequences over a tiny alphabet: all 9^5 sequences for each of the 6 mode combinations
fn edges_exhaustive_small() -> u64 {
    let mut h = Fnv::new();
    const N_EV: u32 = 9;
    const LEN: u32 = 5;
    for prio in 0..3u8 {
        for retrig in 0..2u8 {
            for code in 0..N_EV.pow(LEN) {
                let mut mr = MonoMidiReceiver::new(0);
                mr.set_note_priority(match prio {
                    0 => NotePriority::Last,
                    1 => NotePriority::High,
                    _ => NotePriority::Low,
                });
                mr.set_retrigger_mode(if retrig == 0 { RetriggerMode::NoRetrigger } else { RetriggerMode::AllowRetrigger });
                let mut c = code;
                for _ in 0..LEN {
                    let ev = c % N_EV;
                    c /= N_EV;
                    match ev {
                        0 => [0x90, 60, 100].iter().for_each(|&b| mr.parse(b)),
                        1 => [0x90, 50, 1].iter().for_each(|&b| mr.parse(b)),
                        2 => [0x90, 70, 127].iter().for_each(|&b| mr.parse(b)),
                        3 => [0x80, 60, 0].iter().for_each(|&b| mr.parse(b)),
                        4 => [0x90, 50, 0].iter().for_each(|&b| mr.parse(b)),
                        5 => [0x80, 70, 64].iter().for_each(|&b| mr.parse(b)),
                        6 => [0xB0, 0x7B, 0].iter().for_each(|&b| mr.parse(b)),
                        7 => h.bool(mr.rising_gate()),
                        _ => h.bool(mr.falling_gate()),
                    }
                    observe(&mut h, &mr);
                }
                h.bool(mr.rising_gate());
                h.bool(mr.falling_gate());
            }
        }
    }
    h.0
}

#[test]
fn differential_hashes() {
    let results: [(&str, u64); 8] = [
        ("raw_bytes", raw_bytes()),
        ("structured", structured(false, 0xDEAD_BEEF_0000_0001)),
        ("realtime_interleaved", structured(true, 0xDEAD_BEEF_0000_0002)),
        ("note_flood", note_flood()),
        ("controllers_exhaustive", controllers_exhaustive()),
        ("pitch_bend_exhaustive", pitch_bend_exhaustive()),
        ("all_channels", all_channels()),
        ("edges_exhaustive_small", edges_exhaustive_small()),
    ];
    let mut comb = Fnv::new();
    for (_, v) in results.iter() {
        comb.u64(*v);
    }
    let mut all: Vec<(&str, u64)> = results.to_vec();
    all.push(("combined", comb.0));

    for (name, v) in all.iter() {
        println!("DIFFHASH {:<24} {:#018x}", name, v);
    }
    let mut bad = 0;
    for ((name, v), (ename, ev)) in all.iter().zip(EXPECTED.iter()) {
        assert_eq!(name, ename);
        if v != ev {
            println!("MISMATCH {:<24} got {:#018x} expected {:#018x}", name, v, ev);
            bad += 1;
        }
    }
    assert_eq!(bad, 0, "observable behaviour differs from the reference crate");
}

/// Sanity check of the harness itself against documented behaviour, so that a hash over constant garbage cannot pass.
#[test]
fn harness_sanity() {
    let mut mr = MonoMidiReceiver::new(1);
    for b in [0x91, 42, 127] {
        mr.parse(b);
    }
    assert!(mr.gate());
    assert_eq!(mr.note_num(), 42);
    assert_eq!(mr.velocity(), 1.0);
    assert!(mr.rising_gate());
    assert!(!mr.rising_gate());
    for b in [0xF8, 0xB1, 0xF8, 0x7B, 0xFE, 0] {
        mr.parse(b);
    }
    assert!(!mr.gate());
    assert!(mr.falling_gate());
    assert!(!mr.falling_gate());
    for b in [0xE1, 0, 0x40] {
        mr.parse(b);
    }
    assert_eq!(mr.pitch_bend(), 0.0);
}
