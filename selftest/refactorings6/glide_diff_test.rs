//! Differential test for the glide processor (src/glide_processor.rs, src/utils.rs).
//!
//! Uses only the public API of `synth_utils`. Drives `GlideProcessor` with long pseudo-random call sequences
//! (LCG, fixed seeds, edge values), hashes the bit pattern of every observable output (and whether a call panicked)
//! with FNV-1a 64 and prints the hashes. `utils` is a private module, so `linear_interp` / `ilog_2` are exercised
//! through their only public users, the ADSR and the LFO.
//!
//! Run: copy to `tests/diff_test.rs`, then `cargo test --offline --test diff_test -- --nocapture`
//! (and the same with `--release`). The hashes must be identical before/after a behaviour-preserving change and
//! identical between debug and release builds.

use std::panic::{catch_unwind, AssertUnwindSafe};
use synth_utils::adsr::{self, Adsr};
use synth_utils::glide_processor::GlideProcessor;
use synth_utils::lfo::{Lfo, Waveshape};

/// Two FNV-1a 64 accumulators over the same stream of outputs:
/// * `.0` "canonical": every NaN is hashed as the one value 0x7fc00000. Sign and payload of a NaN *result* are not
///   specified by Rust / IEEE 754 and differ between debug and release builds of the unmodified crate, so this is the
///   hash that is comparable across build profiles;
/// * `.1` "raw": the exact bit pattern of every output, NaN payloads included; comparable only within one profile.
struct Fnv(u64, u64);
impl Fnv {
    fn new() -> Self {
        Fnv(0xcbf2_9ce4_8422_2325, 0xcbf2_9ce4_8422_2325)
    }
    fn step(acc: &mut u64, v: u32) {
        for b in v.to_le_bytes() {
            *acc ^= b as u64;
            *acc = acc.wrapping_mul(0x0000_0100_0000_01b3);
        }
    }
    fn u32(&mut self, v: u32) {
        Self::step(&mut self.0, v);
        Self::step(&mut self.1, v);
    }
    fn byte(&mut self, b: u8) {
        self.u32(b as u32);
    }
    fn f32(&mut self, v: f32) {
        Self::step(&mut self.0, if v.is_nan() { 0x7fc0_0000 } else { v.to_bits() });
        Self::step(&mut self.1, v.to_bits());
    }
}

struct Lcg(u64);
impl Lcg {
    fn next(&mut self) -> u32 {
        self.0 = self
            .0
            .wrapping_mul(6364136223846793005)
            .wrapping_add(1442695040888963407);
        (self.0 >> 32) as u32
    }
    /// uniform in [0, 1)
    fn unit(&mut self) -> f32 {
        (self.next() >> 8) as f32 / 16_777_216.0
    }
    fn below(&mut self, n: u32) -> u32 {
        self.next() % n
    }
}

const SAMPLE_RATES: [f32; 10] = [
    100.0, 441.0, 1_000.0, 8_000.0, 44_100.0, 48_000.0, 96_000.0, 192_000.0, 0.5, 1.0e9,
];

const EDGE_TIMES: [f32; 28] = [
    0.0,
    -0.0,
    1.0e-9,
    1.0e-4,
    0.001,
    0.01,
    0.04,
    0.05,
    0.0500001,
    0.06,
    0.1,
    0.5,
    1.0,
    2.0,
    5.0,
    9.95,
    10.0,
    10.05,
    11.0,
    100.0,
    1.0e30,
    -1.0,
    -1.0e-30,
    f32::MIN_POSITIVE,
    f32::MAX,
    f32::INFINITY,
    f32::NEG_INFINITY,
    f32::NAN,
];

const EDGE_INPUTS: [f32; 16] = [
    0.0,
    -0.0,
    1.0,
    -1.0,
    10.0,
    -10.0,
    1.0e-30,
    1.0e30,
    -1.0e30,
    f32::MAX,
    f32::MIN,
    f32::MIN_POSITIVE,
    1.0e-45,
    f32::INFINITY,
    f32::NEG_INFINITY,
    f32::NAN,
];

fn pick_time(r: &mut Lcg, wild: bool) -> f32 {
    match r.below(if wild { 8 } else { 6 }) {
        0 | 1 => r.unit() * 10.0,
        2 => r.unit() * 0.2,
        3 => r.unit() * 0.002,
        4 => [0.0_f32, 0.05, 0.1, 1.0, 10.0, 9.95][r.below(6) as usize],
        5 => r.unit() * 12.0,
        6 => EDGE_TIMES[r.below(EDGE_TIMES.len() as u32) as usize],
        _ => f32::from_bits(r.next()),
    }
}

fn pick_input(r: &mut Lcg, wild: bool) -> f32 {
    match r.below(if wild { 8 } else { 6 }) {
        0 | 1 => r.unit() * 10.0,
        2 => r.unit() * 20.0 - 10.0,
        3 => (r.below(121) as f32) / 12.0,
        4 => [0.0_f32, 1.0, 10.0, -10.0, 5.0][r.below(5) as usize],
        5 => r.unit(),
        6 => EDGE_INPUTS[r.below(EDGE_INPUTS.len() as u32) as usize],
        _ => f32::from_bits(r.next()),
    }
}

/// one long random session on one processor; `wild` adds NaN/inf/huge/arbitrary-bit-pattern arguments
fn glide_session(h: &mut Fnv, seed: u64, sample_rate: f32, wild: bool, steps: usize) {
    let mut r = Lcg(seed);
    let made = catch_unwind(|| GlideProcessor::new(sample_rate));
    let mut gp = match made {
        Ok(gp) => {
            h.byte(1);
            gp
        }
        Err(_) => {
            h.byte(0);
            return;
        }
    };
    let mut held = 0.0_f32;
    for _ in 0..steps {
        match r.below(16) {
            0 => {
                let t = pick_time(&mut r, wild);
                let ok = catch_unwind(AssertUnwindSafe(|| gp.set_time(t))).is_ok();
                h.byte(ok as u8);
            }
            1 | 2 => held = pick_input(&mut r, wild),
            3 => {
                // a run of samples with a held input: convergence / monotonic behaviour
                let n = 1 + r.below(64);
                for _ in 0..n {
                    h.f32(gp.process(held));
                }
            }
            4 => {
                // set_time with a value close to the one just set: exercises the "is almost" gate
                let t = pick_time(&mut r, false);
                gp.set_time(t);
                let d = (r.unit() - 0.5) * 0.2;
                gp.set_time(t + d);
                h.f32(gp.process(held));
            }
            _ => {
                let v = if r.below(4) == 0 {
                    pick_input(&mut r, wild)
                } else {
                    held
                };
                h.f32(gp.process(v));
            }
        }
    }
}

fn glide_hash() -> (u64, u64) {
    let mut h = Fnv::new();

    // constructor over edge sample rates (panics are part of the observable behaviour)
    let rates = [
        0.0_f32,
        -0.0,
        -1.0,
        1.0e-30,
        f32::MIN_POSITIVE,
        0.5,
        1.0,
        100.0,
        44_100.0,
        192_000.0,
        1.0e9,
        1.0e30,
        f32::MAX,
        f32::INFINITY,
        f32::NEG_INFINITY,
        f32::NAN,
    ];
    for (i, &sr) in rates.iter().enumerate() {
        glide_session(&mut h, 0x1000 + i as u64, sr, true, 400);
    }

    // every edge time x every edge input on a fresh processor, at three sample rates
    for &sr in &[100.0_f32, 48_000.0, 192_000.0] {
        for &t in EDGE_TIMES.iter() {
            for &v in EDGE_INPUTS.iter() {
                let mut gp = GlideProcessor::new(sr);
                let ok = catch_unwind(AssertUnwindSafe(|| gp.set_time(t))).is_ok();
                h.byte(ok as u8);
                for _ in 0..6 {
                    h.f32(gp.process(v));
                }
                for _ in 0..6 {
                    h.f32(gp.process(1.0));
                }
            }
        }
    }

    // pairs of consecutive set_time calls: second one honoured or not
    for &t0 in EDGE_TIMES.iter() {
        for &t1 in EDGE_TIMES.iter() {
            let mut gp = GlideProcessor::new(1_000.0);
            gp.set_time(t0);
            h.f32(gp.process(1.0));
            gp.set_time(t1);
            for _ in 0..4 {
                h.f32(gp.process(1.0));
            }
        }
    }

    // sweep of time differences around the 0.05 s threshold
    for i in 0..2_000u32 {
        let mut gp = GlideProcessor::new(1_000.0);
        let base = (i % 20) as f32 * 0.5;
        let d = (i as f32 - 1_000.0) * 0.0001;
        gp.set_time(base);
        h.f32(gp.process(1.0));
        gp.set_time(base + d);
        h.f32(gp.process(1.0));
        h.f32(gp.process(1.0));
    }

    // long random sessions, tame and wild
    for (i, &sr) in SAMPLE_RATES.iter().enumerate() {
        glide_session(&mut h, 0xC0FFEE + 17 * i as u64, sr, false, 60_000);
        glide_session(&mut h, 0xBADF00D + 31 * i as u64, sr, true, 60_000);
    }

    // step responses (C13 / C14 shape)
    for &sr in &[100.0_f32, 1_000.0, 48_000.0] {
        for &t in &[0.0_f32, 0.001, 0.01, 0.1, 0.5, 1.0, 3.0, 10.0, 20.0] {
            let mut gp = GlideProcessor::new(sr);
            gp.set_time(t);
            let n = ((t.min(10.0) * sr) as usize).max(16) + 8;
            for k in 0..n {
                let y = gp.process(1.0);
                if k < 64 || k % 97 == 0 || k + 8 >= n {
                    h.f32(y);
                }
            }
        }
    }
    (h.0, h.1)
}

/// the other users of `utils` (`linear_interp`, `ilog_2`): ADSR and LFO outputs
fn utils_users_hash() -> (u64, u64) {
    let mut h = Fnv::new();
    let mut r = Lcg(0x5EED_0001);

    for &sr in &[100.0_f32, 1_000.0, 48_000.0, 192_000.0] {
        let mut env = Adsr::new(sr);
        for _ in 0..40_000 {
            match r.below(64) {
                0 => env.gate_on(),
                1 => env.gate_off(),
                2 => env.set_input(adsr::Input::Attack((r.unit() * 0.05).into())),
                3 => env.set_input(adsr::Input::Decay((r.unit() * 0.05).into())),
                4 => env.set_input(adsr::Input::Sustain((r.unit() * 1.2 - 0.1).into())),
                5 => env.set_input(adsr::Input::Release((r.unit() * 0.05).into())),
                6 => env.set_input(adsr::Input::Attack(
                    EDGE_TIMES[r.below(EDGE_TIMES.len() as u32) as usize].into(),
                )),
                _ => {
                    env.tick();
                    h.f32(env.value());
                }
            }
        }

        let mut lfo = Lfo::new(sr);
        for _ in 0..40_000 {
            match r.below(64) {
                0 => lfo.set_frequency(r.unit() * sr),
                1 => lfo.set_frequency(r.unit() * 20.0),
                2 => lfo.reset(),
                3 => lfo.set_phase(r.unit() * 8.0 - 4.0),
                _ => {
                    lfo.tick();
                    for w in [
                        Waveshape::Sine,
                        Waveshape::Triangle,
                        Waveshape::UpSaw,
                        Waveshape::DownSaw,
                        Waveshape::Square,
                    ] {
                        h.f32(lfo.get(w));
                    }
                }
            }
        }
    }
    (h.0, h.1)
}

#[test]
fn differential_hashes() {
    // silence the messages of the expected, caught panics
    std::panic::set_hook(Box::new(|_| {}));
    let g = glide_hash();
    let u = utils_users_hash();
    let _ = std::panic::take_hook();
    println!(
        "DIFFHASH glide={:016x} utils_users={:016x} | raw(profile-specific) glide={:016x} utils_users={:016x}",
        g.0, u.0, g.1, u.1
    );
}
