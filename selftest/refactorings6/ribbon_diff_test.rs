//! Differential test for `synth_utils::ribbon_controller` (public API only).
//!
//! Copy to `tests/diff_test.rs` of the crate and run
//! `cargo test --offline --test diff_test -- --nocapture --test-threads=1`
//! (and the same with `--release`). Every observable output of long pseudo-random call sequences is folded into an
//! FNV-1a hash which is printed as `HASH <name> <hex>`; the hashes of the clean crate and of each refactoring must be
//! identical (within the same build profile).

use std::panic::{catch_unwind, AssertUnwindSafe};
use synth_utils::ribbon_controller::{sample_rate_to_capacity, RibbonController};

// ---------------------------------------------------------------------------------------------------------------------

struct Fnv(u64);

impl Fnv {
    fn new() -> Self {
        Fnv(0xcbf2_9ce4_8422_2325)
    }
    fn byte(&mut self, b: u8) {
        self.0 ^= b as u64;
        self.0 = self.0.wrapping_mul(0x0000_0100_0000_01b3);
    }
    fn u32(&mut self, v: u32) {
        for b in v.to_le_bytes() {
            self.byte(b);
        }
    }
    fn u64(&mut self, v: u64) {
        for b in v.to_le_bytes() {
            self.byte(b);
        }
    }
    fn f32(&mut self, v: f32) {
        self.u32(v.to_bits());
    }
    fn bool(&mut self, v: bool) {
        self.byte(v as u8);
    }
}

struct Lcg(u64);

impl Lcg {
    fn next_u32(&mut self) -> u32 {
        self.0 = self
            .0
            .wrapping_mul(6364136223846793005)
            .wrapping_add(1442695040888963407);
        (self.0 >> 32) as u32
    }
    /// uniform in [0, 1)
    fn unit(&mut self) -> f32 {
        (self.next_u32() >> 8) as f32 / (1u32 << 24) as f32
    }
    fn below(&mut self, n: u32) -> u32 {
        self.next_u32() % n
    }
}

const EDGE_SAMPLES: [f32; 22] = [
    0.0,
    -0.0,
    1.0,
    -1.0,
    0.5,
    0.96,
    0.960_614_8,
    0.960_614_86,
    0.960_614_9,
    0.999_999_94,
    1.000_000_1,
    f32::MIN_POSITIVE,
    1.0e-45,
    -1.0e-45,
    1.0e30,
    -1.0e30,
    f32::MAX,
    f32::MIN,
    f32::INFINITY,
    f32::NEG_INFINITY,
    f32::NAN,
    -f32::NAN,
];

/// Observe everything that can be observed without mutating, then (depending on `read_edges`) the self-clearing flags.
fn observe<const N: usize>(h: &mut Fnv, rib: &mut RibbonController<N>, read_edges: u32) {
    h.f32(rib.value());
    h.bool(rib.finger_is_pressing());
    if read_edges & 1 != 0 {
        h.bool(rib.finger_just_pressed());
    }
    if read_edges & 2 != 0 {
        h.bool(rib.finger_just_released());
    }
    if read_edges & 4 != 0 {
        // reading twice in a row must show the self-clearing behaviour
        h.bool(rib.finger_just_pressed());
        h.bool(rib.finger_just_released());
    }
}

/// One long pseudo-random session on one controller.
///
/// The sample generator switches between modes so that long uninterrupted presses (longer than the buffer), short taps,
/// isolated glitches, slow sweeps, values hugging the press boundary and edge values (negative, huge, NaN, inf) all
/// occur many times.
fn session<const N: usize>(
    h: &mut Fnv,
    seed: u64,
    steps: usize,
    sr: f32,
    softpot: f32,
    dropper: f32,
    pullup: f32,
) {
    let mut rng = Lcg(seed);
    let mut rib = RibbonController::<N>::new(sr, softpot, dropper, pullup);
    let boundary = 1.0 - (dropper / (dropper + softpot));

    observe(h, &mut rib, 7);

    let mut mode = 0u32;
    let mut remaining = 0usize;
    let mut centre = 0.3f32;
    let mut sweep = 0.0f32;
    let mut edge_policy = 3u32;

    for _ in 0..steps {
        if remaining == 0 {
            mode = rng.below(10);
            let scale = match rng.below(4) {
                0 => 3,
                1 => N / 2 + 1,
                2 => N + 8,
                _ => 3 * N + 50,
            };
            remaining = 1 + rng.below(scale as u32) as usize;
            centre = rng.unit();
            sweep = (rng.unit() - 0.5) * 0.01;
            edge_policy = rng.below(8);
        }
        remaining -= 1;

        let x = match mode {
            // steady press with noise
            0 | 1 | 2 => centre * boundary * 0.98 + (rng.unit() - 0.5) * 0.01,
            // slow sweep
            3 => {
                centre += sweep;
                centre
            }
            // anything in [0, 1)
            4 => rng.unit(),
            // finger lifted: at or above the boundary
            5 => boundary + rng.unit() * (1.0 - boundary),
            // hugging the boundary from both sides
            6 => boundary + (rng.unit() - 0.5) * 1.0e-6,
            // press with rare glitches
            7 => {
                if rng.below(97) == 0 {
                    1.0
                } else {
                    centre * 0.9
                }
            }
            // edge values
            8 => EDGE_SAMPLES[rng.below(EDGE_SAMPLES.len() as u32) as usize],
            // exact constants, long runs of identical samples
            _ => [0.0f32, 0.25, 0.42, 0.9, 1.0][rng.below(5) as usize],
        };

        rib.poll(x);
        let policy = if edge_policy < 4 { edge_policy } else { rng.below(8) };
        observe(h, &mut rib, policy);
    }

    observe(h, &mut rib, 7);
}

fn report(name: &str, h: &Fnv) {
    println!("HASH {} {:016x}", name, h.0);
}

// ---------------------------------------------------------------------------------------------------------------------

const CAP_100: usize = sample_rate_to_capacity(100);
const CAP_1K: usize = sample_rate_to_capacity(1_000);
const CAP_10K: usize = sample_rate_to_capacity(10_000);
const CAP_44K1: usize = sample_rate_to_capacity(44_100);
const CAP_192K: usize = sample_rate_to_capacity(192_000);

#[test]
fn capacity_helper() {
    let mut h = Fnv::new();
    // every sample rate for which the helper does not overflow u32 (sr * 15_000 <= u32::MAX), on a coarse grid plus
    // all small ones
    for sr in 0..=20_000u32 {
        h.u64(sample_rate_to_capacity(sr) as u64);
    }
    let mut sr = 20_000u32;
    while sr <= 286_331 {
        h.u64(sample_rate_to_capacity(sr) as u64);
        sr += 37;
    }
    h.u64(sample_rate_to_capacity(286_331) as u64);
    h.u64(CAP_100 as u64);
    h.u64(CAP_1K as u64);
    h.u64(CAP_10K as u64);
    h.u64(CAP_44K1 as u64);
    h.u64(CAP_192K as u64);
    // overflowing arguments: panic in debug, wrap in release; the outcome must be the same as before either way
    for sr in [286_332u32, 300_000, 1_000_000, 4_294_967, 4_294_968, u32::MAX] {
        match catch_unwind(|| sample_rate_to_capacity(sr)) {
            Ok(c) => {
                h.byte(1);
                h.u64(c as u64);
            }
            Err(_) => h.byte(0),
        }
    }
    report("capacity_helper", &h);
}

#[test]
fn sessions_matched_capacity() {
    let mut h = Fnv::new();
    session::<CAP_100>(&mut h, 1, 40_000, 100.0, 20.0e3, 820.0, 1.0e6);
    session::<CAP_1K>(&mut h, 2, 60_000, 1_000.0, 10.0e3, 470.0, 220.0e3);
    session::<CAP_10K>(&mut h, 3, 300_000, 10_000.0, 20.0e3, 820.0, 1.0e6);
    session::<CAP_10K>(&mut h, 4, 300_000, 10_000.0, 10.0e3, 1.0e3, 100.0e3);
    session::<CAP_44K1>(&mut h, 5, 600_000, 44_100.0, 20.0e3, 820.0, 1.0e6);
    session::<CAP_192K>(&mut h, 6, 1_500_000, 192_000.0, 20.0e3, 820.0, 1.0e6);
    // fractional sample rate (truncated by `as u32`)
    session::<CAP_10K>(&mut h, 7, 100_000, 10_000.9, 20.0e3, 820.0, 1.0e6);
    report("sessions_matched_capacity", &h);
}

#[test]
fn sessions_odd_parameters() {
    let mut h = Fnv::new();
    // buffer larger than needed, buffer of other sizes that are still large enough for the discard allowance
    session::<CAP_10K>(&mut h, 11, 100_000, 1_000.0, 20.0e3, 820.0, 1.0e6);
    session::<64>(&mut h, 12, 50_000, 10_000.0, 20.0e3, 820.0, 1.0e6);
    session::<21>(&mut h, 13, 50_000, 10_000.0, 20.0e3, 820.0, 1.0e6);
    session::<20>(&mut h, 14, 50_000, 10_000.0, 20.0e3, 820.0, 1.0e6);
    session::<1>(&mut h, 15, 20_000, 100.0, 20.0e3, 820.0, 1.0e6);
    session::<1>(&mut h, 16, 20_000, 0.0, 20.0e3, 820.0, 1.0e6);
    // degenerate electrical parameters: the boundary / error constant become 0, 1, NaN, inf, negative
    let odd = [0.0f32, -0.0, 1.0, -820.0, 1.0e30, f32::INFINITY, f32::NAN, 820.0];
    let mut seed = 100;
    for &softpot in &odd {
        for &dropper in &odd {
            for &pullup in &[0.0f32, 1.0e6, -1.0e6, f32::INFINITY, f32::NAN] {
                seed += 1;
                session::<CAP_1K>(&mut h, seed, 3_000, 1_000.0, softpot, dropper, pullup);
            }
        }
    }
    // odd sample rates that `as u32` maps to 0
    for &sr in &[f32::NAN, -1.0f32, -1.0e30, f32::NEG_INFINITY, 0.5] {
        seed += 1;
        session::<4>(&mut h, seed, 5_000, sr, 20.0e3, 820.0, 1.0e6);
    }
    report("sessions_odd_parameters", &h);
}

/// Configurations outside the documented contract which panic in a debug build (arithmetic overflow) and wrap in a
/// release build. Whatever happens must happen identically, at the same step, after the refactoring.
#[test]
fn sessions_out_of_contract() {
    let prev = std::panic::take_hook();
    std::panic::set_hook(Box::new(|_| {}));

    let mut h = Fnv::new();

    // constructor overflow: sample_rate_hz as u32 * 1_000 or * 2_000 does not fit in u32
    for &sr in &[
        2_147_483.0f32,
        2_147_484.0,
        2_147_500.0,
        4_294_967.0,
        4_294_968.0,
        4_295_000.0,
        1.0e9,
        1.0e12,
        f32::MAX,
        f32::INFINITY,
    ] {
        let r = catch_unwind(|| {
            let mut h = Fnv::new();
            session::<8>(&mut h, 77, 2_000, sr, 20.0e3, 820.0, 1.0e6);
            h.0
        });
        match r {
            Ok(v) => {
                h.byte(1);
                h.u64(v);
            }
            Err(_) => h.byte(0),
        }
    }

    // buffer smaller than the discard allowance: `capacity - num_to_discard_at_end` underflows when the buffer fills
    fn undersized<const N: usize>(h: &mut Fnv, seed: u64, sr: f32) {
        let mut rng = Lcg(seed);
        let mut rib = RibbonController::<N>::new(sr, 20.0e3, 820.0, 1.0e6);
        let mut step = 0u32;
        let mut panics = 0u32;
        while step < 5_000 && panics < 50 {
            step += 1;
            let x = if rng.below(41) == 0 { 1.0 } else { rng.unit() * 0.9 };
            let r = catch_unwind(AssertUnwindSafe(|| rib.poll(x)));
            h.bool(r.is_ok());
            if r.is_err() {
                panics += 1;
                h.u32(step);
            }
            // the state left behind by a panicking poll is observable too
            observe(h, &mut rib, rng.below(8));
        }
    }
    undersized::<5>(&mut h, 31, 10_000.0);
    undersized::<19>(&mut h, 32, 10_000.0);
    undersized::<1>(&mut h, 33, 1_000.0);
    undersized::<100>(&mut h, 34, 192_000.0);

    std::panic::set_hook(prev);
    report("sessions_out_of_contract", &h);
}

/// A few hand-written sequences with exact expectations derived from the documentation (C15/C16), as a sanity check
/// that the hashed sessions exercise a working controller.
#[test]
fn scripted_sequences() {
    let mut h = Fnv::new();
    let mut rib = RibbonController::<CAP_10K>::new(10_000.0, 20.0e3, 820.0, 1.0e6);
    // 10 settling samples (the 10th is already stored) + 171 buffer slots => 180 samples for a press
    for i in 0..179 {
        rib.poll(0.42);
        assert!(!rib.finger_is_pressing(), "pressed too early at {}", i);
        observe(&mut h, &mut rib, 0);
    }
    rib.poll(0.42);
    assert!(rib.finger_is_pressing());
    assert!(rib.finger_just_pressed());
    assert!(!rib.finger_just_pressed());
    assert!(!rib.finger_just_released());
    observe(&mut h, &mut rib, 7);
    let held = rib.value();
    rib.poll(1.0);
    assert!(!rib.finger_is_pressing());
    assert!(rib.finger_just_released());
    assert!(!rib.finger_just_released());
    assert_eq!(rib.value().to_bits(), held.to_bits());
    // glitches never add up
    for _ in 0..10 {
        for _ in 0..179 {
            rib.poll(0.1);
        }
        rib.poll(0.99);
        assert!(!rib.finger_is_pressing());
        assert!(!rib.finger_just_pressed());
        assert_eq!(rib.value().to_bits(), held.to_bits());
        observe(&mut h, &mut rib, 7);
    }
    report("scripted_sequences", &h);
}
