//! Differential test for src/adsr.rs and src/phase_accumulator.rs.
//!
//! Drives `adsr::Adsr` (and `lfo::Lfo`, the only other user of the private `PhaseAccumulator`) through the public API
//! with long pseudo-random call sequences and hashes every observable output (values as raw f32 bits, `Debug`
//! renderings, `PartialEq` results, conversions, and the position of any panic).  The hashes are printed; they must be
//! identical before and after a behaviour-preserving change (compare within the same build profile).
//!
//! Run with:  cargo test --offline --test diff_test -- --nocapture
//!            cargo test --offline --release --test diff_test -- --nocapture

use std::fmt::Write as _;
use std::panic::{catch_unwind, AssertUnwindSafe};

use synth_utils::adsr::{self, Adsr, Input, State, SustainLevel, TimePeriod};
use synth_utils::lfo::{Lfo, Waveshape};

// ------------------------------------------------------------------------------------------------------------------
// hashing and random numbers
// ------------------------------------------------------------------------------------------------------------------

/// FNV-1a, 64 bit
struct Hasher(u64);

impl Hasher {
    fn new() -> Self {
        Hasher(0xcbf2_9ce4_8422_2325)
    }
    fn byte(&mut self, b: u8) {
        self.0 ^= b as u64;
        self.0 = self.0.wrapping_mul(0x0000_0100_0000_01b3);
    }
    fn bytes(&mut self, bs: &[u8]) {
        for b in bs {
            self.byte(*b);
        }
    }
    fn u32(&mut self, v: u32) {
        self.bytes(&v.to_le_bytes());
    }
    fn u64(&mut self, v: u64) {
        self.bytes(&v.to_le_bytes());
    }
    fn f32(&mut self, v: f32) {
        self.u32(v.to_bits());
    }
    fn bool(&mut self, v: bool) {
        self.byte(v as u8);
    }
    fn str(&mut self, s: &str) {
        self.u64(s.len() as u64);
        self.bytes(s.as_bytes());
    }
}

/// Plain 64-bit LCG (Knuth's MMIX constants), upper bits are used
struct Lcg(u64);

impl Lcg {
    fn next_u32(&mut self) -> u32 {
        self.0 = self
            .0
            .wrapping_mul(6364136223846793005)
            .wrapping_add(1442695040888963407);
        (self.0 >> 32) as u32
    }
    fn below(&mut self, n: u32) -> u32 {
        self.next_u32() % n
    }
    /// uniform in `[0, 1)`
    fn unit(&mut self) -> f32 {
        (self.next_u32() >> 8) as f32 / 16_777_216.0_f32
    }
    fn range(&mut self, lo: f32, hi: f32) -> f32 {
        lo + (hi - lo) * self.unit()
    }
}

const EDGE_F32: [f32; 40] = [
    0.0,
    -0.0,
    1.0,
    -1.0,
    0.5,
    0.25,
    0.75,
    0.999_999_94,
    1.000_000_1,
    0.001,
    0.000_999_999_9,
    0.001_000_000_1,
    0.002,
    0.01,
    0.03,
    0.1,
    0.15,
    2.0,
    10.0,
    19.999_998,
    20.0,
    20.000_002,
    100.0,
    -0.001,
    -20.0,
    1.0e-10,
    1.0e10,
    -1.0e10,
    1.0e-38,
    1.0e-45,
    f32::MIN_POSITIVE,
    f32::MAX,
    f32::MIN,
    f32::EPSILON,
    f32::INFINITY,
    f32::NEG_INFINITY,
    f32::NAN,
    16_777_216.0,
    4_294_967_296.0,
    -4_294_967_296.0,
];

/// a "wild" f32: an edge value, an arbitrary bit pattern (NaNs, infinities and subnormals included), or a plain number
fn wild_f32(rng: &mut Lcg) -> f32 {
    match rng.below(4) {
        0 => EDGE_F32[rng.below(EDGE_F32.len() as u32) as usize],
        1 => f32::from_bits(rng.next_u32()),
        2 => rng.range(-2.0, 30.0),
        _ => rng.range(0.0, 1.0),
    }
}

fn debug_of<T: core::fmt::Debug>(scratch: &mut String, v: &T) {
    scratch.clear();
    write!(scratch, "{:?}", v).unwrap();
}

// ------------------------------------------------------------------------------------------------------------------
// ADSR
// ------------------------------------------------------------------------------------------------------------------

#[derive(Clone, Copy)]
enum TimeStyle {
    /// times that make phases last a handful to a few hundred ticks
    Short,
    /// times over the whole legal range, phases may last very long
    Full,
    /// anything at all, in or out of range, NaN and infinities included
    Wild,
}

fn pick_time(rng: &mut Lcg, sample_rate: f32, style: TimeStyle) -> f32 {
    match style {
        TimeStyle::Short => {
            let ticks = 1.0 + rng.below(300) as f32 + rng.unit();
            if sample_rate.is_finite() && sample_rate > 0.0 {
                ticks / sample_rate
            } else {
                rng.range(0.001, 0.3)
            }
        }
        TimeStyle::Full => match rng.below(3) {
            0 => rng.range(0.001, 0.05),
            1 => rng.range(0.001, 1.0),
            _ => rng.range(0.001, 20.0),
        },
        TimeStyle::Wild => wild_f32(rng),
    }
}

fn pick_sustain(rng: &mut Lcg, style: TimeStyle) -> f32 {
    match style {
        TimeStyle::Wild => wild_f32(rng),
        _ => match rng.below(8) {
            0 => 0.0,
            1 => 1.0,
            _ => rng.unit(),
        },
    }
}

fn observe_adsr(h: &mut Hasher, scratch: &mut String, a: &Adsr) {
    h.f32(a.value());
    debug_of(scratch, a);
    h.str(scratch);
}

/// one pseudo-random call history on one envelope; every observable is hashed after every call
fn adsr_sequence(h: &mut Hasher, seed: u64, sample_rate: f32, style: TimeStyle, n_ops: u32) {
    let mut rng = Lcg(seed);
    let mut scratch = String::new();
    let mut a = Adsr::new(sample_rate);
    h.f32(sample_rate);
    observe_adsr(h, &mut scratch, &a);

    for op_idx in 0..n_ops {
        h.u32(op_idx);
        let op = rng.below(100);
        h.u32(op);
        match op {
            0..=2 => {
                a.gate_on();
            }
            3..=5 => {
                a.gate_off();
            }
            6..=7 => {
                let t = pick_time(&mut rng, sample_rate, style);
                h.f32(t);
                a.set_input(Input::Attack(t.into()));
            }
            8..=9 => {
                let t = pick_time(&mut rng, sample_rate, style);
                h.f32(t);
                a.set_input(Input::Decay(t.into()));
            }
            10..=11 => {
                let s = pick_sustain(&mut rng, style);
                h.f32(s);
                a.set_input(Input::Sustain(s.into()));
            }
            12..=13 => {
                let t = pick_time(&mut rng, sample_rate, style);
                h.f32(t);
                a.set_input(Input::Release(t.into()));
            }
            14 => {
                // a burst of ticks, so that long phases do get finished from time to time
                let burst = rng.below(2_000);
                for _ in 0..burst {
                    a.tick();
                    h.f32(a.value());
                }
            }
            15 => {
                // the envelope is Copy: the copy must behave like the original
                let mut b = a;
                b.tick();
                b.gate_off();
                b.tick();
                observe_adsr(h, &mut scratch, &b);
                let mut c = a.clone();
                c.gate_on();
                c.tick();
                observe_adsr(h, &mut scratch, &c);
            }
            16 => {
                // gate events back to back, without a tick in between
                a.gate_on();
                observe_adsr(h, &mut scratch, &a);
                a.gate_off();
                observe_adsr(h, &mut scratch, &a);
                a.gate_on();
            }
            _ => {
                a.tick();
            }
        }
        observe_adsr(h, &mut scratch, &a);
    }
}

/// a complete gate-on ... sustain ... gate-off ... rest cycle with every tick observed, counts the ticks per phase
fn adsr_full_cycle(
    h: &mut Hasher,
    sample_rate: f32,
    (a_t, d_t, s_l, r_t): (f32, f32, f32, f32),
    max_ticks: u32,
    stride: u32,
) {
    let mut scratch = String::new();
    let mut a = Adsr::new(sample_rate);
    a.set_input(Input::Attack(a_t.into()));
    a.set_input(Input::Decay(d_t.into()));
    a.set_input(Input::Sustain(s_l.into()));
    a.set_input(Input::Release(r_t.into()));
    observe_adsr(h, &mut scratch, &a);
    a.gate_on();
    observe_adsr(h, &mut scratch, &a);
    let mut n = 0_u32;
    loop {
        a.tick();
        n += 1;
        h.f32(a.value());
        // the phase is only visible through Debug; for very long phases look at it only every `stride` ticks
        if n % stride == 0 {
            debug_of(&mut scratch, &a);
            h.str(&scratch);
            if scratch.contains("state: Sustain") {
                break;
            }
        }
        if n >= max_ticks {
            break;
        }
    }
    h.u32(n);
    observe_adsr(h, &mut scratch, &a);
    for _ in 0..5 {
        a.tick();
        observe_adsr(h, &mut scratch, &a);
    }
    a.gate_off();
    observe_adsr(h, &mut scratch, &a);
    n = 0;
    loop {
        a.tick();
        n += 1;
        h.f32(a.value());
        // the phase is only visible through Debug; for very long phases look at it only every `stride` ticks
        if n % stride == 0 {
            debug_of(&mut scratch, &a);
            h.str(&scratch);
            if scratch.contains("state: AtRest") {
                break;
            }
        }
        if n >= max_ticks {
            break;
        }
    }
    h.u32(n);
    observe_adsr(h, &mut scratch, &a);
    for _ in 0..5 {
        a.tick();
        observe_adsr(h, &mut scratch, &a);
    }
}

/// runs `f`, hashing whether it panicked; everything hashed before the panic stays in the hash
fn guarded(h: &mut Hasher, f: impl FnOnce(&mut Hasher)) -> bool {
    let r = catch_unwind(AssertUnwindSafe(|| f(&mut *h)));
    h.bool(r.is_err());
    r.is_err()
}

const SAMPLE_RATES: [f32; 12] = [
    100.0, 1_000.0, 8_000.0, 44_100.0, 48_000.0, 96_000.0, 192_000.0, 123.456, 1.0e6, 10.0, 31_250.0, 22_050.0,
];

/// sample rates far outside the documented range: panics (debug overflow) are possible here and must stay put
const ODD_SAMPLE_RATES: [f32; 14] = [
    0.0,
    -0.0,
    -1_000.0,
    f32::NAN,
    f32::INFINITY,
    f32::NEG_INFINITY,
    1.0e-30,
    1.0e30,
    0.004,
    0.06,
    0.5,
    1.0,
    3.9,
    4.0,
];

fn hash_adsr_sequences() -> (u64, u32) {
    let mut h = Hasher::new();
    let mut panics = 0_u32;
    let styles = [TimeStyle::Short, TimeStyle::Full, TimeStyle::Wild];
    let mut seed = 0x5eed_0001_u64;
    for sr in SAMPLE_RATES {
        for style in styles {
            for _rep in 0..2 {
                seed = seed.wrapping_mul(0x9e37_79b9_7f4a_7c15).wrapping_add(12345);
                let s = seed;
                if guarded(&mut h, |h| adsr_sequence(h, s, sr, style, 6_000)) {
                    panics += 1;
                }
            }
        }
    }
    for sr in ODD_SAMPLE_RATES {
        for style in styles {
            for _rep in 0..3 {
                seed = seed.wrapping_mul(0x9e37_79b9_7f4a_7c15).wrapping_add(12345);
                let s = seed;
                if guarded(&mut h, |h| adsr_sequence(h, s, sr, style, 3_000)) {
                    panics += 1;
                }
            }
        }
    }
    (h.0, panics)
}

fn hash_adsr_cycles() -> (u64, u32) {
    let mut h = Hasher::new();
    let mut panics = 0_u32;
    let mut rng = Lcg(0xc1c1_e5);
    // the unit-test configuration and the defaults
    guarded(&mut h, |h| adsr_full_cycle(h, 1_000.0, (0.1, 0.1, 0.5, 0.1), 100_000, 1));
    guarded(&mut h, |h| adsr_full_cycle(h, 1_000.0, (0.001, 0.001, 1.0, 0.001), 100_000, 1));
    // the slowest envelope at a high sample rate: much more than one tick per table step
    guarded(&mut h, |h| adsr_full_cycle(h, 48_000.0, (20.0, 20.0, 0.3, 20.0), 3_000_000, 97));
    guarded(&mut h, |h| adsr_full_cycle(h, 192_000.0, (1.0e9, f32::INFINITY, 0.0, 3.0), 9_000_000, 251));
    // the fastest envelope at a low sample rate: less than one tick per phase
    guarded(&mut h, |h| adsr_full_cycle(h, 100.0, (0.0, -1.0, f32::NAN, f32::NEG_INFINITY), 1_000, 1));
    for sr in SAMPLE_RATES.iter().chain(ODD_SAMPLE_RATES.iter()) {
        for _ in 0..6 {
            let a_t = pick_time(&mut rng, *sr, TimeStyle::Short);
            let d_t = pick_time(&mut rng, *sr, TimeStyle::Short);
            let r_t = pick_time(&mut rng, *sr, TimeStyle::Short);
            let s_l = pick_sustain(&mut rng, TimeStyle::Short);
            if guarded(&mut h, |h| adsr_full_cycle(h, *sr, (a_t, d_t, s_l, r_t), 20_000, 1)) {
                panics += 1;
            }
            let a_t = wild_f32(&mut rng);
            let d_t = wild_f32(&mut rng);
            let r_t = wild_f32(&mut rng);
            let s_l = wild_f32(&mut rng);
            if guarded(&mut h, |h| adsr_full_cycle(h, *sr, (a_t, d_t, s_l, r_t), 20_000, 1)) {
                panics += 1;
            }
        }
    }
    (h.0, panics)
}

// ------------------------------------------------------------------------------------------------------------------
// conversions, constants, derived traits
// ------------------------------------------------------------------------------------------------------------------

fn hash_conversions() -> u64 {
    let mut h = Hasher::new();
    let mut scratch = String::new();
    let mut rng = Lcg(0xc0ffee);

    h.f32(adsr::MIN_TIME_PERIOD_SEC);
    h.f32(adsr::MAX_TIME_PERIOD_SEC);

    let mut one = |h: &mut Hasher, x: f32, prev: f32| {
        let t: TimePeriod = x.into();
        let s: SustainLevel = x.into();
        let tf: f32 = t.into();
        let sf: f32 = s.into();
        h.f32(tf);
        h.f32(sf);
        debug_of(&mut scratch, &t);
        h.str(&scratch);
        debug_of(&mut scratch, &s);
        h.str(&scratch);
        // clamping twice is the same as once
        h.f32(f32::from(TimePeriod::from(tf)));
        h.f32(f32::from(SustainLevel::from(sf)));
        // derived PartialEq / Clone / Copy
        let t2 = TimePeriod::from(prev);
        let s2 = SustainLevel::from(prev);
        h.bool(t == t2);
        h.bool(t != t2);
        h.bool(s == s2);
        h.bool(t == t.clone());
        h.bool(s == s.clone());
        let inputs = [
            Input::Attack(t),
            Input::Decay(t),
            Input::Sustain(s),
            Input::Release(t),
            Input::Attack(t2),
            Input::Sustain(s2),
        ];
        for i in inputs.iter() {
            debug_of(&mut scratch, i);
            h.str(&scratch);
            for j in inputs.iter() {
                h.bool(i == j);
            }
        }
    };

    let mut prev = 0.5_f32;
    for x in EDGE_F32 {
        one(&mut h, x, prev);
        one(&mut h, -x, prev);
        prev = x;
    }
    for _ in 0..200_000 {
        let x = f32::from_bits(rng.next_u32());
        one(&mut h, x, prev);
        prev = x;
    }
    for _ in 0..50_000 {
        let x = rng.range(-1.0, 21.0);
        one(&mut h, x, prev);
        prev = x;
    }
    // neighbours of the clamping bounds, bit by bit
    for centre in [0.0_f32, 0.001, 1.0, 20.0] {
        let c = centre.to_bits();
        for d in 0..64_u32 {
            one(&mut h, f32::from_bits(c.wrapping_add(d)), prev);
            one(&mut h, f32::from_bits(c.wrapping_sub(d)), prev);
            one(&mut h, -f32::from_bits(c.wrapping_add(d)), prev);
        }
    }

    let states = [
        State::AtRest,
        State::Attack,
        State::Decay,
        State::Sustain,
        State::Release,
    ];
    for a in states.iter() {
        debug_of(&mut scratch, a);
        h.str(&scratch);
        let b = *a;
        h.bool(b == a.clone());
        for c in states.iter() {
            h.bool(a == c);
            h.bool(a != c);
        }
    }
    h.0
}

// ------------------------------------------------------------------------------------------------------------------
// LFO (shares the private phase accumulator with the ADSR)
// ------------------------------------------------------------------------------------------------------------------

const SHAPES: [Waveshape; 5] = [
    Waveshape::Sine,
    Waveshape::Triangle,
    Waveshape::UpSaw,
    Waveshape::DownSaw,
    Waveshape::Square,
];

fn observe_lfo(h: &mut Hasher, scratch: &mut String, l: &Lfo) {
    for s in SHAPES {
        h.f32(l.get(s));
    }
    debug_of(scratch, l);
    h.str(scratch);
}

fn lfo_sequence(h: &mut Hasher, seed: u64, sample_rate: f32, wild: bool, n_ops: u32) {
    let mut rng = Lcg(seed);
    let mut scratch = String::new();
    let mut l = Lfo::new(sample_rate);
    h.f32(sample_rate);
    observe_lfo(h, &mut scratch, &l);
    let mut other = l;
    for op_idx in 0..n_ops {
        h.u32(op_idx);
        let op = rng.below(100);
        h.u32(op);
        match op {
            0..=3 => {
                let f = if wild {
                    wild_f32(&mut rng)
                } else {
                    match rng.below(4) {
                        0 => 0.0,
                        1 => rng.range(0.0, 20.0),
                        2 => rng.unit() * sample_rate,
                        _ => sample_rate,
                    }
                };
                h.f32(f);
                l.set_frequency(f);
            }
            4..=7 => {
                let p = match rng.below(3) {
                    0 => wild_f32(&mut rng),
                    1 => rng.range(-5.0, 5.0),
                    _ => rng.unit(),
                };
                h.f32(p);
                l.set_phase(p);
            }
            8 => {
                l.reset();
            }
            9 => {
                h.bool(l == other);
                other = l.clone();
                h.bool(l == other);
            }
            10 => {
                let burst = rng.below(3_000);
                for _ in 0..burst {
                    l.tick();
                    h.f32(l.get(Waveshape::Sine));
                    h.f32(l.get(Waveshape::Triangle));
                }
            }
            _ => {
                l.tick();
            }
        }
        observe_lfo(h, &mut scratch, &l);
    }
}

fn hash_lfo() -> (u64, u32) {
    let mut h = Hasher::new();
    let mut panics = 0_u32;
    let mut seed = 0x1f0_u64;
    for sr in SAMPLE_RATES.iter().chain(ODD_SAMPLE_RATES.iter()) {
        for wild in [false, false, false, true, true] {
            seed = seed.wrapping_mul(0x9e37_79b9_7f4a_7c15).wrapping_add(777);
            let s = seed;
            if guarded(&mut h, |h| lfo_sequence(h, s, *sr, wild, 4_000)) {
                panics += 1;
            }
        }
    }
    (h.0, panics)
}

// ------------------------------------------------------------------------------------------------------------------

#[test]
fn differential_hashes() {
    // panics are expected for some out-of-range configurations in debug builds; keep the output readable
    std::panic::set_hook(Box::new(|_| {}));
    let profile = if cfg!(debug_assertions) { "debug" } else { "release" };
    let (seq, seq_p) = hash_adsr_sequences();
    let (cyc, cyc_p) = hash_adsr_cycles();
    let conv = hash_conversions();
    let (lfo, lfo_p) = hash_lfo();
    let _ = std::panic::take_hook();
    println!("DIFFHASH {profile} adsr_sequences {seq:016x} panics={seq_p}");
    println!("DIFFHASH {profile} adsr_cycles    {cyc:016x} panics={cyc_p}");
    println!("DIFFHASH {profile} conversions    {conv:016x}");
    println!("DIFFHASH {profile} lfo            {lfo:016x} panics={lfo_p}");
    let mut all = Hasher::new();
    all.u64(seq);
    all.u64(cyc);
    all.u64(conv);
    all.u64(lfo);
    println!("DIFFHASH {profile} TOTAL          {:016x}", all.0);
}
