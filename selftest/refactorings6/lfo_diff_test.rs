//! Differential test for the LFO module (src/lfo.rs, src/phase_accumulator.rs, src/utils.rs).
//!
//! Uses only the public API of `synth_utils`. Every observable output (f32 bit patterns, `Debug` renderings,
//! `PartialEq` results, whether a call panicked) is folded into FNV-1a hashes which are printed; the hashes of the
//! clean crate and of the crate with a behaviour-preserving change applied must be identical.
//!
//! Run with: `cargo test --offline --test diff_test -- --nocapture` (and again with `--release`).
//! The sections LFO/SWEEP/ADSR/GLIDE never panic; section PANIC drives out-of-range frequencies under
//! `catch_unwind` and hashes *whether* each call panicked, so its hash legitimately differs between debug and
//! release builds but must not differ between the clean and the changed crate within one profile.

use std::fmt::Write as _;
use std::panic::{catch_unwind, AssertUnwindSafe};

use synth_utils::adsr::{self, Adsr};
use synth_utils::glide_processor::GlideProcessor;
use synth_utils::lfo::{Lfo, Waveshape};

// ---------------------------------------------------------------------------------------------------------------------

struct Hasher(u64);

impl Hasher {
    fn new() -> Self {
        Hasher(0xcbf2_9ce4_8422_2325)
    }
    fn byte(&mut self, b: u8) {
        self.0 ^= b as u64;
        self.0 = self.0.wrapping_mul(0x0000_0100_0000_01b3);
    }
    fn u32(&mut self, v: u32) {
        for b in v.to_le_bytes() {
            self.byte(b);
        }
    }
    fn u64(&mut self, v: u64) {
        for b in v.to_le_bytes() {
            self.byte(b);
        }
    }
    fn f32(&mut self, v: f32) {
        self.u32(v.to_bits());
    }
    fn bool(&mut self, v: bool) {
        self.byte(v as u8 + 1);
    }
    fn str(&mut self, s: &str) {
        for b in s.bytes() {
            self.byte(b);
        }
        self.byte(0xff);
    }
}

struct Lcg(u64);

impl Lcg {
    fn next(&mut self) -> u32 {
        self.0 = self
            .0
            .wrapping_mul(6364136223846793005)
            .wrapping_add(1442695040888963407);
        (self.0 >> 32) as u32
    }
    fn below(&mut self, n: u32) -> u32 {
        self.next() % n
    }
    /// uniform in [0, 1)
    fn unit(&mut self) -> f32 {
        (self.next() >> 8) as f32 / (1u32 << 24) as f32
    }
}

const SHAPES: [Waveshape; 5] = [
    Waveshape::Sine,
    Waveshape::Triangle,
    Waveshape::UpSaw,
    Waveshape::DownSaw,
    Waveshape::Square,
];

const SAMPLE_RATES: [f32; 8] = [
    100.0, 101.5, 1_000.0, 8_000.0, 12_345.678, 44_100.0, 48_000.0, 192_000.0,
];

fn hash_lfo(h: &mut Hasher, dbg: &mut String, lfo: &Lfo) {
    for ws in SHAPES {
        h.f32(lfo.get(ws));
    }
    // reading twice / in another order must give the same values (all shapes read the same phase)
    for ws in SHAPES.iter().rev() {
        h.f32(lfo.get(*ws));
    }
    dbg.clear();
    write!(dbg, "{:?}", lfo).unwrap();
    h.str(dbg);
}

/// phases any finite value plus the non-finite ones (set_phase accepts every f32 without panicking)
fn edge_phase(rng: &mut Lcg) -> f32 {
    const EDGE: [f32; 30] = [
        0.0,
        -0.0,
        1.0,
        -1.0,
        0.25,
        0.5,
        0.75,
        -0.25,
        -0.5,
        -0.75,
        0.999_999_94,
        -0.999_999_94,
        1.000_000_1,
        2.0,
        -2.0,
        1e-30,
        -1e-30,
        1e-45,
        f32::MIN_POSITIVE,
        123_456.79,
        -123_456.79,
        16_777_216.0,
        16_777_217.5,
        1e30,
        -1e30,
        f32::MAX,
        f32::MIN,
        f32::INFINITY,
        f32::NEG_INFINITY,
        f32::NAN,
    ];
    match rng.below(4) {
        0 => EDGE[rng.below(EDGE.len() as u32) as usize],
        1 => rng.unit(),
        2 => (rng.unit() - 0.5) * 20.0,
        _ => (rng.unit() - 0.5) * 2.0e6,
    }
}

/// frequencies which can never overflow the u32 accumulator: NaN and negatives become increment 0, and
/// up to 200 x sample rate gives increment <= 200 * 2^24 < 2^32 - 2^24
fn safe_freq(rng: &mut Lcg, sr: f32) -> f32 {
    match rng.below(12) {
        0 => 0.0,
        1 => -0.0,
        2 => sr,
        3 => sr * 0.5,
        4 => -1.0,
        5 => f32::NEG_INFINITY,
        6 => f32::NAN,
        7 => sr * 200.0 * rng.unit(),
        8 => 1e-6 * rng.unit(),
        9 => sr / 16_777_216.0,
        10 => -1e30,
        _ => sr * rng.unit(),
    }
}

fn section_lfo() -> u64 {
    let mut h = Hasher::new();
    let mut dbg = String::new();
    for seed in 1..=24u64 {
        let mut rng = Lcg(seed.wrapping_mul(0x9e37_79b9_7f4a_7c15));
        let sr = SAMPLE_RATES[(seed as usize) % SAMPLE_RATES.len()];
        let mut lfo = Lfo::new(sr);
        hash_lfo(&mut h, &mut dbg, &lfo);
        for _ in 0..6_000 {
            match rng.below(16) {
                0 => lfo.set_frequency(safe_freq(&mut rng, sr)),
                1 => lfo.set_phase(edge_phase(&mut rng)),
                2 => {
                    if rng.below(8) == 0 {
                        lfo.reset()
                    }
                }
                3 => {
                    let other = lfo; // Copy
                    h.bool(other == lfo);
                    let mut moved = other.clone();
                    moved.tick();
                    h.bool(moved == lfo);
                    hash_lfo(&mut h, &mut dbg, &moved);
                }
                4 => {
                    for _ in 0..rng.below(300) {
                        lfo.tick();
                    }
                }
                _ => lfo.tick(),
            }
            hash_lfo(&mut h, &mut dbg, &lfo);
        }
    }
    h.0
}

fn section_sweep() -> u64 {
    let mut h = Hasher::new();
    let mut dbg = String::new();

    // whole cycles at a few rates, including the wrap and every table index
    for (sr, f, n) in [
        (1_000.0_f32, 1.0_f32, 2_100u32),
        (48_000.0, 1.3, 80_000),
        (100.0, 100.0, 10),
        (100.0, 50.0, 10),
        (100.0, 33.333, 500),
        (192_000.0, 0.011_444_092, 5_000),
        (44_100.0, 440.0, 3_000),
        (8_000.0, 7_999.9995, 20_000),
    ] {
        let mut lfo = Lfo::new(sr);
        lfo.set_frequency(f);
        for _ in 0..n {
            lfo.tick();
            hash_lfo(&mut h, &mut dbg, &lfo);
        }
    }

    // fine phase grid through set_phase: every table index with several fractions, positive and negative
    let mut lfo = Lfo::new(48_000.0);
    lfo.set_frequency(3.0);
    for i in 0..=(1024 * 16) {
        let p = i as f32 / (1024.0 * 16.0);
        lfo.set_phase(p);
        hash_lfo(&mut h, &mut dbg, &lfo);
        lfo.set_phase(-p);
        hash_lfo(&mut h, &mut dbg, &lfo);
        lfo.set_phase(p + 7.0);
        lfo.tick();
        hash_lfo(&mut h, &mut dbg, &lfo);
    }

    // the last counts before the wrap, one counter step per tick
    let mut lfo = Lfo::new(16_777_216.0 / 64.0);
    lfo.set_frequency(1.0 / 64.0);
    lfo.set_phase(0.999_99);
    for _ in 0..2_000 {
        lfo.tick();
        hash_lfo(&mut h, &mut dbg, &lfo);
    }
    h.0
}

/// ADSR parameters. `-0.0` is deliberately NOT in the list: `SustainLevel::from(-0.0)` is `(-0.0f32).max(0.0)`, whose
/// sign is unspecified by `f32::max` and does differ between debug and release builds of the unmodified crate
/// (src/adsr.rs, outside the module under test), which would make the hash depend on codegen instead of on source.
fn edge_param(rng: &mut Lcg) -> f32 {
    const EDGE: [f32; 14] = [
        0.0,
        1e-9,
        -1.0,
        0.001,
        0.000_5,
        1.0,
        0.5,
        20.0,
        25.0,
        1e30,
        -1e30,
        f32::INFINITY,
        f32::NEG_INFINITY,
        f32::NAN,
    ];
    match rng.below(4) {
        0 => EDGE[rng.below(EDGE.len() as u32) as usize],
        1 => rng.unit(),
        2 => rng.unit() * 0.02,
        _ => rng.unit() * 3.0 - 0.5,
    }
}

fn section_adsr() -> u64 {
    let mut h = Hasher::new();
    let mut dbg = String::new();
    for seed in 1..=16u64 {
        let mut rng = Lcg(seed.wrapping_mul(0xd134_2543_de82_ef95) ^ 0x5555);
        let sr = SAMPLE_RATES[(seed as usize * 3) % SAMPLE_RATES.len()];
        let mut env = Adsr::new(sr);
        for _ in 0..8_000 {
            match rng.below(40) {
                0 => env.gate_on(),
                1 => env.gate_off(),
                2 => env.set_input(adsr::Input::Attack(edge_param(&mut rng).into())),
                3 => env.set_input(adsr::Input::Decay(edge_param(&mut rng).into())),
                4 => env.set_input(adsr::Input::Sustain(edge_param(&mut rng).into())),
                5 => env.set_input(adsr::Input::Release(edge_param(&mut rng).into())),
                6 => {
                    for _ in 0..rng.below(200) {
                        env.tick();
                        h.f32(env.value());
                    }
                }
                _ => env.tick(),
            }
            h.f32(env.value());
            if rng.below(64) == 0 {
                dbg.clear();
                write!(dbg, "{:?}", env).unwrap();
                h.str(&dbg);
            }
        }
    }
    h.0
}

fn section_glide() -> u64 {
    let mut h = Hasher::new();
    for seed in 1..=8u64 {
        let mut rng = Lcg(seed.wrapping_mul(0x2545_f491_4f6c_dd1d) ^ 0xabcdef);
        let sr = SAMPLE_RATES[(seed as usize * 5) % SAMPLE_RATES.len()];
        let mut g = GlideProcessor::new(sr);
        let mut target = 0.0_f32;
        for _ in 0..6_000 {
            match rng.below(12) {
                0 => {
                    // times around the 0.05 s "unchanged" window of is_almost()/fabs(), plus edge values
                    let t = match rng.below(8) {
                        0 => 0.0,
                        1 => 10.0,
                        2 => 100.0,
                        3 => rng.unit() * 0.2,
                        4 => 0.05,
                        5 => 0.100_000_01,
                        6 => 1e-7,
                        _ => rng.unit() * 10.0,
                    };
                    g.set_time(t);
                }
                1 => target = (rng.unit() - 0.5) * 20.0,
                _ => {}
            }
            h.f32(g.process(target));
        }
    }
    h.0
}

/// frequencies outside `[0, sample rate]` may overflow the accumulator: a panic in a debug build, wrap-around in a
/// release build. Hash whether each call panicked, and every output of the calls that did not.
fn section_panic() -> u64 {
    let mut h = Hasher::new();
    let mut dbg = String::new();
    let prev = std::panic::take_hook();
    std::panic::set_hook(Box::new(|_| {}));
    for seed in 1..=8u64 {
        let mut rng = Lcg(seed.wrapping_mul(0x1234_5678_9abc_def1));
        let sr = SAMPLE_RATES[(seed as usize * 7) % SAMPLE_RATES.len()];
        let mut lfo = Lfo::new(sr);
        for _ in 0..1_500 {
            let op = rng.below(10);
            let f = match rng.below(6) {
                0 => f32::INFINITY,
                1 => 1e30,
                2 => f32::MAX,
                3 => sr * 255.9,
                4 => sr * 256.0 * rng.unit(),
                _ => sr * rng.unit(),
            };
            let p = edge_phase(&mut rng);
            let mut trial = lfo;
            let r = catch_unwind(AssertUnwindSafe(|| {
                match op {
                    0 => trial.set_frequency(f),
                    1 => trial.set_phase(p),
                    2 => trial.reset(),
                    _ => trial.tick(),
                }
                let mut out = [0.0_f32; 5];
                for (o, ws) in out.iter_mut().zip(SHAPES) {
                    *o = trial.get(ws);
                }
                out
            }));
            match r {
                Ok(out) => {
                    h.bool(true);
                    for v in out {
                        h.f32(v);
                    }
                    lfo = trial;
                    dbg.clear();
                    write!(dbg, "{:?}", lfo).unwrap();
                    h.str(&dbg);
                }
                Err(_) => {
                    h.bool(false);
                    // a panicking tick leaves the oscillator unusable for a caller; start over
                    lfo = Lfo::new(sr);
                }
            }
        }
    }
    std::panic::set_hook(prev);
    h.0
}

#[test]
fn differential_hashes() {
    let profile = if cfg!(debug_assertions) { "debug" } else { "release" };
    let a = section_lfo();
    let b = section_sweep();
    let c = section_adsr();
    let d = section_glide();
    let e = section_panic();
    let mut t = Hasher::new();
    for v in [a, b, c, d, e] {
        t.u64(v);
    }
    println!("DIFFHASH {profile} LFO={a:016x} SWEEP={b:016x} ADSR={c:016x} GLIDE={d:016x} PANIC={e:016x} TOTAL={:016x}", t.0);
}
