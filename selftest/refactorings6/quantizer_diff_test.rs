//! Differential test for `synth_utils::quantizer`.
//!
//! Drives the public API of the quantizer with long pseudo-random call sequences (fixed-seed LCG, edge values
//! included) and folds every observable output into an FNV-1a hash.  The hashes printed (and asserted against each
//! other for determinism) must be identical on the clean crate and with every refactoring applied.
//!
//! Usage: copy to `tests/diff_test.rs` of the crate, then
//! `cargo test --offline --test diff_test -- --nocapture` (and the same with `--release`).

use synth_utils::quantizer::{
    Conversion, Note, Quantizer, HALF_SEMITONE_WIDTH, NUM_NOTES_PER_OCTAVE, SEMITONE_WIDTH,
};

struct Fnv(u64);

impl Fnv {
    fn new() -> Self {
        Fnv(0xcbf2_9ce4_8422_2325)
    }
    fn byte(&mut self, b: u8) {
        self.0 ^= b as u64;
        self.0 = self.0.wrapping_mul(0x0000_0100_0000_01b3);
    }
    fn u32(&mut self, v: u32) {
        for b in v.to_le_bytes() {
            self.byte(b);
        }
    }
    fn f32(&mut self, v: f32) {
        self.u32(v.to_bits());
    }
    fn conv(&mut self, c: &Conversion) {
        self.byte(c.note_num);
        self.f32(c.stairstep);
        self.f32(c.fraction);
    }
    fn scale(&mut self, q: &Quantizer) {
        for n in 0..=255u8 {
            self.byte(q.is_allowed(Note::new(n)) as u8);
        }
    }
}

struct Lcg(u64);

impl Lcg {
    fn next(&mut self) -> u32 {
        self.0 = self
            .0
            .wrapping_mul(6364136223846793005)
            .wrapping_add(1442695040888963407);
        (self.0 >> 32) as u32
    }
    fn below(&mut self, n: u32) -> u32 {
        self.next() % n
    }
    fn unit(&mut self) -> f32 {
        (self.next() >> 8) as f32 / (1u32 << 24) as f32
    }
}

const EDGES: [f32; 40] = [
    0.0,
    -0.0,
    1.0,
    -1.0,
    10.0,
    9.999_999,
    10.000_001,
    9.916_666,
    9.916_667,
    9.958_333,
    11.0,
    1.0e-7,
    1.0e-6,
    -1.0e-6,
    0.041_666,
    0.041_667,
    0.083_333,
    0.083_334,
    0.5,
    0.999_999,
    1.000_001,
    4.294_967,
    4.294_968,
    4295.0,
    1.0e9,
    -1.0e9,
    1.0e30,
    -1.0e30,
    f32::MAX,
    f32::MIN,
    f32::MIN_POSITIVE,
    -f32::MIN_POSITIVE,
    1.0e-40,
    f32::EPSILON,
    f32::INFINITY,
    f32::NEG_INFINITY,
    f32::NAN,
    -f32::NAN,
    5.0,
    2.083_333_3,
];

/// A pseudo-random input voltage of one of several flavours.
fn gen_input(r: &mut Lcg, last: f32) -> f32 {
    match r.below(16) {
        // edge values
        0 => EDGES[r.below(EDGES.len() as u32) as usize],
        // arbitrary bit patterns (includes NaNs, denormals, huge values)
        1 => f32::from_bits(r.next()),
        // slightly outside the legal range
        2 => -0.2 + r.unit() * 0.4,
        3 => 9.8 + r.unit() * 0.4,
        // small noise around the last value (exercises the hysteresis window)
        4 | 5 | 6 => last + (r.unit() - 0.5) * 0.02,
        7 => last + (r.unit() - 0.5) * 0.2,
        // exactly on / next to a semitone boundary
        8 => {
            let n = r.below(122) as f32;
            let v = n / 12.0;
            match r.below(5) {
                0 => v,
                1 => f32::from_bits(v.to_bits().wrapping_add(1)),
                2 => f32::from_bits(v.to_bits().wrapping_sub(1)),
                3 => v + SEMITONE_WIDTH * 0.1,
                _ => v - SEMITONE_WIDTH * 0.1,
            }
        }
        // half-way points between semitones
        9 => {
            let n = r.below(121) as f32;
            n / 12.0 + HALF_SEMITONE_WIDTH + (r.unit() - 0.5) * 1.0e-5
        }
        // wider range
        10 => -12.0 + r.unit() * 36.0,
        // uniform over the legal range
        _ => r.unit() * 10.0,
    }
}

fn gen_notes(r: &mut Lcg, buf: &mut [Note; 16]) -> usize {
    let len = match r.below(8) {
        0 => 0,
        1 => 12 + r.below(5) as usize,
        _ => 1 + r.below(6) as usize,
    };
    for slot in buf.iter_mut().take(len) {
        *slot = match r.below(4) {
            0 => Note::new(r.below(256) as u8),
            1 => Note::from(r.below(256) as u8),
            _ => Note::new(r.below(12) as u8),
        };
    }
    len
}

fn run_sequence(seed: u64, steps: u32) -> u64 {
    let mut h = Fnv::new();
    let mut r = Lcg(seed);
    let mut q = Quantizer::new();
    let mut last = 0.0_f32;
    let mut buf = [Note::C; 16];

    h.scale(&q);
    for _ in 0..steps {
        match r.below(32) {
            0 | 1 => {
                let len = gen_notes(&mut r, &mut buf);
                q.allow(&buf[..len]);
                h.scale(&q);
            }
            2 | 3 | 4 => {
                let len = gen_notes(&mut r, &mut buf);
                q.forbid(&buf[..len]);
                h.scale(&q);
            }
            5 => {
                // forbid everything in a random rotation: the last one must survive
                let start = r.below(12) as u8;
                for (i, slot) in buf.iter_mut().take(12).enumerate() {
                    *slot = Note::new((start + i as u8) % 12);
                }
                q.forbid(&buf[..12]);
                h.scale(&q);
            }
            6 => {
                if r.below(8) == 0 {
                    q = Quantizer::new();
                    h.scale(&q);
                }
            }
            _ => {
                let v = gen_input(&mut r, last);
                let c = q.convert(v);
                h.conv(&c);
                if v.is_finite() {
                    last = v.max(-1.0).min(11.0);
                }
            }
        }
    }
    h.scale(&q);
    h.0
}

/// Every scale (all 4095 non-empty masks) x a dense sweep, without history and with history.
fn run_exhaustive_scales() -> u64 {
    let mut h = Fnv::new();
    let all: [Note; 12] = [
        Note::C,
        Note::CSHARP,
        Note::D,
        Note::DSHARP,
        Note::E,
        Note::F,
        Note::FSHARP,
        Note::G,
        Note::GSHARP,
        Note::A,
        Note::ASHARP,
        Note::B,
    ];
    for mask in 1u16..4096 {
        let mut forbidden = [Note::C; 12];
        let mut nf = 0;
        for (i, n) in all.iter().enumerate() {
            if mask >> i & 1 == 0 {
                forbidden[nf] = *n;
                nf += 1;
            }
        }
        // history-free: a fresh quantizer per conversion
        let mut r = Lcg(mask as u64 * 77 + 5);
        for k in 0..64u32 {
            let mut q = Quantizer::new();
            q.forbid(&forbidden[..nf]);
            let v = match k % 4 {
                0 => r.unit() * 10.0,
                1 => r.below(121) as f32 / 12.0,
                2 => r.below(121) as f32 / 12.0 + HALF_SEMITONE_WIDTH,
                _ => -0.5 + r.unit() * 11.0,
            };
            h.conv(&q.convert(v));
        }
        // with history: a rising then falling sweep on one quantizer
        let mut q = Quantizer::new();
        q.forbid(&forbidden[..nf]);
        h.scale(&q);
        let step = 0.013_f32 + (mask % 7) as f32 * 0.001;
        let mut v = -0.1_f32;
        while v < 10.1 {
            h.conv(&q.convert(v));
            v += step;
        }
        while v > -0.1 {
            h.conv(&q.convert(v));
            v -= step;
        }
    }
    h.0
}

/// Fine sweep through the whole range for the chromatic scale and a few common scales.
fn run_fine_sweeps() -> u64 {
    let mut h = Fnv::new();
    let scales: [&[Note]; 5] = [
        &[],
        &[Note::CSHARP, Note::DSHARP, Note::FSHARP, Note::GSHARP, Note::ASHARP],
        &[Note::C, Note::D, Note::E, Note::F, Note::G, Note::A, Note::B],
        &[
            Note::C,
            Note::CSHARP,
            Note::D,
            Note::DSHARP,
            Note::E,
            Note::F,
            Note::G,
            Note::GSHARP,
            Note::A,
            Note::ASHARP,
            Note::B,
        ],
        &[Note::new(200), Note::from(12u8), Note::C],
    ];
    for s in scales {
        let mut q = Quantizer::new();
        q.forbid(s);
        h.scale(&q);
        let mut i = -20_000i32;
        while i <= 1_020_000 {
            let v = i as f32 * 1.0e-5;
            h.conv(&q.convert(v));
            // history-free twin
            let mut q2 = Quantizer::new();
            q2.forbid(s);
            h.conv(&q2.convert(v));
            i += 7;
        }
    }
    h.0
}

fn run_constants() -> u64 {
    let mut h = Fnv::new();
    h.f32(NUM_NOTES_PER_OCTAVE);
    h.f32(SEMITONE_WIDTH);
    h.f32(HALF_SEMITONE_WIDTH);
    h.conv(&Conversion::new());
    for n in 0..=255u8 {
        h.byte(u8::from(Note::new(n)));
        h.byte(u8::from(Note::from(n)));
        let m: Note = n.into();
        h.byte((m == Note::new(n)) as u8);
        h.byte((m == Note::B) as u8);
    }
    let named = [
        Note::C,
        Note::CSHARP,
        Note::D,
        Note::DSHARP,
        Note::E,
        Note::F,
        Note::FSHARP,
        Note::G,
        Note::GSHARP,
        Note::A,
        Note::ASHARP,
        Note::B,
    ];
    for n in named {
        h.byte(n.into());
    }
    // every edge value on a fresh quantizer and on one with history
    let mut q = Quantizer::new();
    for &a in EDGES.iter() {
        h.conv(&Quantizer::new().convert(a));
        for &b in EDGES.iter() {
            let mut q2 = Quantizer::new();
            q2.convert(a);
            h.conv(&q2.convert(b));
            h.conv(&q.convert(b));
        }
    }
    h.0
}

#[test]
fn differential_hashes() {
    let seeds: [u64; 8] = [
        1,
        2,
        0xdead_beef,
        0x1234_5678_9abc_def0,
        42,
        7_777_777,
        0xffff_ffff_ffff_ffff,
        2026,
    ];
    let mut total = Fnv::new();
    for (i, &s) in seeds.iter().enumerate() {
        let a = run_sequence(s, 400_000);
        let b = run_sequence(s, 400_000);
        assert_eq!(a, b, "non-deterministic");
        println!("DIFFHASH seq{} {:016x}", i, a);
        total.u32(a as u32);
        total.u32((a >> 32) as u32);
    }
    let e = run_exhaustive_scales();
    println!("DIFFHASH scales {:016x}", e);
    let f = run_fine_sweeps();
    println!("DIFFHASH sweeps {:016x}", f);
    let c = run_constants();
    println!("DIFFHASH consts {:016x}", c);
    for x in [e, f, c] {
        total.u32(x as u32);
        total.u32((x >> 32) as u32);
    }
    println!("DIFFHASH TOTAL {:016x}", total.0);
}
