//! Differential test for `synth_utils::adsr` (and `synth_utils::lfo`, the other user of the private
//! `phase_accumulator` module).
//!
//! Copy to `tests/diff_test.rs` of the crate and run
//!
//!     cargo test --offline --test diff_test -- --nocapture
//!     cargo test --offline --release --test diff_test -- --nocapture
//!
//! Every observable output (return values bit-for-bit, `Debug` renderings, `PartialEq` results, and whether
//! a call panicked) is folded into FNV-1a hashes which are printed on lines starting with `DIFFHASH`.
//! The hashes of two builds of the crate are equal iff no observable difference was encountered.
//! Only the public API is used.

use std::fmt::Write as _;
use std::panic::{catch_unwind, AssertUnwindSafe};

use synth_utils::adsr::{self, Adsr, Input, SustainLevel, TimePeriod};
use synth_utils::lfo::{Lfo, Waveshape};

// ------------------------------------------------------------------------------------------------ helpers

struct Fnv(u64);

impl Fnv {
    fn new() -> Self {
        Fnv(0xcbf2_9ce4_8422_2325)
    }
    fn byte(&mut self, b: u8) {
        self.0 ^= b as u64;
        self.0 = self.0.wrapping_mul(0x0000_0100_0000_01b3);
    }
    fn bytes(&mut self, bs: &[u8]) {
        for &b in bs {
            self.byte(b);
        }
    }
    fn u32(&mut self, v: u32) {
        self.bytes(&v.to_le_bytes());
    }
    fn u64(&mut self, v: u64) {
        self.bytes(&v.to_le_bytes());
    }
    fn f32(&mut self, v: f32) {
        self.u32(v.to_bits());
    }
    fn bool(&mut self, v: bool) {
        self.byte(v as u8);
    }
    fn debug<T: core::fmt::Debug>(&mut self, scratch: &mut String, v: &T) {
        scratch.clear();
        write!(scratch, "{:?}", v).unwrap();
        self.bytes(scratch.as_bytes());
        self.byte(0xff);
    }
}

/// Simple 64-bit LCG (Knuth's MMIX constants), upper bits used
struct Lcg(u64);

impl Lcg {
    fn new(seed: u64) -> Self {
        let mut l = Lcg(seed ^ 0x9e37_79b9_7f4a_7c15);
        l.next_u32();
        l.next_u32();
        l
    }
    fn next_u32(&mut self) -> u32 {
        self.0 = self
            .0
            .wrapping_mul(6364136223846793005)
            .wrapping_add(1442695040888963407);
        (self.0 >> 32) as u32
    }
    fn below(&mut self, n: u32) -> u32 {
        ((self.next_u32() as u64 * n as u64) >> 32) as u32
    }
    /// uniform in [0, 1)
    fn unit(&mut self) -> f32 {
        (self.next_u32() >> 8) as f32 / 16_777_216.0_f32
    }
    fn pick(&mut self, xs: &[f32]) -> f32 {
        xs[self.below(xs.len() as u32) as usize]
    }
}

const EDGE: [f32; 40] = [
    0.0,
    -0.0,
    1.0,
    -1.0,
    0.5,
    0.25,
    0.75,
    0.999_999_94,
    1.000_000_1,
    0.001,
    0.000_999_999_9,
    0.001_000_000_1,
    0.0005,
    0.002,
    0.01,
    0.1,
    2.0,
    19.999_998,
    20.0,
    20.000_002,
    25.0,
    1.0e9,
    -1.0e9,
    1.0e30,
    -1.0e30,
    f32::MAX,
    f32::MIN,
    f32::MIN_POSITIVE,
    -f32::MIN_POSITIVE,
    1.0e-45,
    -1.0e-45,
    1.0e-9,
    -1.0e-9,
    f32::EPSILON,
    f32::NAN,
    f32::INFINITY,
    f32::NEG_INFINITY,
    3.0,
    0.003,
    0.03,
];

/// a parameter value: an edge value, a "musical" value, or arbitrary bits
fn param_value(rng: &mut Lcg) -> f32 {
    match rng.below(8) {
        0 | 1 => rng.pick(&EDGE),
        2 => f32::from_bits(rng.next_u32()),
        3 => rng.unit(),                  // [0, 1)
        4 => rng.unit() * 0.02,           // short times
        5 => rng.unit() * 0.2,            // medium times
        6 => rng.unit() * 25.0 - 2.0,     // whole range and a bit outside
        _ => rng.unit() * 2.0 - 0.5,      // sustain range and a bit outside
    }
}

fn random_input(rng: &mut Lcg) -> Input {
    let v = param_value(rng);
    match rng.below(4) {
        0 => Input::Attack(v.into()),
        1 => Input::Decay(v.into()),
        2 => Input::Sustain(v.into()),
        _ => Input::Release(v.into()),
    }
}

fn observe_adsr(h: &mut Fnv, scratch: &mut String, a: &Adsr, with_debug: bool) {
    h.f32(a.value());
    if with_debug {
        h.debug(scratch, a);
    }
}

// ------------------------------------------------------------------------------------------------ ADSR

/// one long pseudo-random call sequence
fn adsr_sequence(h: &mut Fnv, seed: u64, sample_rate: f32, n_ops: u32, time_scale: f32) {
    let mut rng = Lcg::new(seed);
    let mut scratch = String::new();
    let mut a = Adsr::new(sample_rate);
    h.u64(seed);
    observe_adsr(h, &mut scratch, &a, true);

    let mut ticks_since_debug = 0u32;
    for _ in 0..n_ops {
        let op = rng.below(100);
        h.byte(op as u8);
        match op {
            0..=54 => {
                a.tick();
                ticks_since_debug += 1;
                let dbg = ticks_since_debug >= 7;
                if dbg {
                    ticks_since_debug = 0;
                }
                observe_adsr(h, &mut scratch, &a, dbg);
            }
            55..=64 => {
                // a burst of ticks, long enough to cross phase boundaries
                let n = match rng.below(4) {
                    0 => rng.below(8),
                    1 => rng.below(200),
                    2 => rng.below(3_000),
                    _ => (sample_rate * time_scale * rng.unit()) as u32 % 50_000,
                };
                for _ in 0..n {
                    a.tick();
                    h.f32(a.value());
                }
                observe_adsr(h, &mut scratch, &a, true);
            }
            65..=72 => {
                a.gate_on();
                observe_adsr(h, &mut scratch, &a, true);
            }
            73..=80 => {
                a.gate_off();
                observe_adsr(h, &mut scratch, &a, true);
            }
            81..=83 => {
                // gate event directly followed by the opposite one / repeated
                a.gate_on();
                a.gate_on();
                observe_adsr(h, &mut scratch, &a, true);
                a.gate_off();
                observe_adsr(h, &mut scratch, &a, true);
                a.gate_off();
                observe_adsr(h, &mut scratch, &a, true);
            }
            84..=97 => {
                let i = random_input(&mut rng);
                h.debug(&mut scratch, &i);
                a.set_input(i);
                observe_adsr(h, &mut scratch, &a, true);
            }
            98 => {
                // a musical reconfiguration: times scaled for the sample rate
                a.set_input(Input::Attack((rng.unit() * time_scale).into()));
                a.set_input(Input::Decay((rng.unit() * time_scale).into()));
                a.set_input(Input::Sustain(rng.unit().into()));
                a.set_input(Input::Release((rng.unit() * time_scale).into()));
                observe_adsr(h, &mut scratch, &a, true);
            }
            _ => {
                // the struct is Copy: a copy must behave identically from here on
                let mut b = a;
                for _ in 0..rng.below(50) {
                    a.tick();
                    b.tick();
                    h.f32(a.value());
                    h.f32(b.value());
                }
                b.gate_off();
                b.tick();
                observe_adsr(h, &mut scratch, &b, true);
                observe_adsr(h, &mut scratch, &a, true);
            }
        }
    }
}

/// whole envelopes with every value hashed, including very slow phases (interpolation, phase-counter resolution)
fn adsr_full_envelope(h: &mut Fnv, sample_rate: f32, a_t: f32, d_t: f32, s: f32, r_t: f32, max_ticks: u32) {
    let mut scratch = String::new();
    let mut a = Adsr::new(sample_rate);
    a.set_input(Input::Attack(a_t.into()));
    a.set_input(Input::Decay(d_t.into()));
    a.set_input(Input::Sustain(s.into()));
    a.set_input(Input::Release(r_t.into()));
    observe_adsr(h, &mut scratch, &a, true);
    a.gate_on();
    observe_adsr(h, &mut scratch, &a, true);
    let mut last = a.value();
    let mut n = 0u32;
    // run until the value has been constant for a while (sustain reached) or the budget is used up
    let mut constant_for = 0u32;
    while n < max_ticks && constant_for < 64 {
        a.tick();
        let v = a.value();
        h.f32(v);
        if v.to_bits() == last.to_bits() {
            constant_for += 1;
        } else {
            constant_for = 0;
        }
        last = v;
        n += 1;
    }
    h.u32(n);
    observe_adsr(h, &mut scratch, &a, true);
    a.gate_off();
    observe_adsr(h, &mut scratch, &a, true);
    let mut m = 0u32;
    constant_for = 0;
    while m < max_ticks && constant_for < 64 {
        a.tick();
        let v = a.value();
        h.f32(v);
        if v.to_bits() == last.to_bits() {
            constant_for += 1;
        } else {
            constant_for = 0;
        }
        last = v;
        m += 1;
    }
    h.u32(m);
    observe_adsr(h, &mut scratch, &a, true);
}

/// sample rates outside the documented range: the behaviour (including a debug-build overflow panic) must not change
fn adsr_odd_sample_rate(h: &mut Fnv, seed: u64, sample_rate: f32) {
    h.f32(sample_rate);
    let mut trace: Vec<u32> = Vec::new();
    let mut dbg = String::new();
    let result = catch_unwind(AssertUnwindSafe(|| {
        let mut rng = Lcg::new(seed);
        let mut a = Adsr::new(sample_rate);
        for _ in 0..400 {
            match rng.below(10) {
                0 => a.gate_on(),
                1 => a.gate_off(),
                2 => a.set_input(random_input(&mut rng)),
                _ => a.tick(),
            }
            trace.push(a.value().to_bits());
            dbg.clear();
            write!(dbg, "{:?}", a).unwrap();
        }
    }));
    h.bool(result.is_ok());
    h.u32(trace.len() as u32);
    for t in trace {
        h.u32(t);
    }
    h.bytes(dbg.as_bytes());
}

#[test]
fn diff_adsr() {
    let mut h = Fnv::new();

    let rates: [(f32, f32); 8] = [
        (100.0, 0.5),
        (1_000.0, 0.2),
        (8_000.0, 0.05),
        (44_100.0, 0.02),
        (48_000.0, 0.02),
        (96_000.0, 0.01),
        (192_000.0, 0.005),
        (12_345.678, 0.03),
    ];
    for (i, &(sr, ts)) in rates.iter().enumerate() {
        for s in 0..3u64 {
            adsr_sequence(&mut h, 1000 * (i as u64 + 1) + s, sr, 6_000, ts);
        }
    }
    println!("DIFFHASH adsr_sequences   {:016x}", h.0);

    let mut h2 = Fnv::new();
    adsr_full_envelope(&mut h2, 1_000.0, 0.1, 0.1, 0.5, 0.1, 10_000);
    adsr_full_envelope(&mut h2, 1_000.0, 0.0, 0.0, 0.0, 0.0, 10_000);
    adsr_full_envelope(&mut h2, 100.0, 0.001, 0.001, 1.0, 0.001, 10_000);
    adsr_full_envelope(&mut h2, 100.0, 20.0, 20.0, 0.25, 20.0, 10_000);
    adsr_full_envelope(&mut h2, 48_000.0, 0.013, 0.27, 0.333, 0.5, 100_000);
    adsr_full_envelope(&mut h2, 44_100.0, 1.0, 2.0, 0.9, 3.0, 400_000);
    adsr_full_envelope(&mut h2, 192_000.0, 20.0, 20.0, 0.6, 20.0, 9_000_000);
    adsr_full_envelope(&mut h2, 192_000.0, 0.001, 0.001, 0.0, 0.001, 10_000);
    adsr_full_envelope(&mut h2, 192_000.0, f32::NAN, f32::INFINITY, f32::NAN, f32::NEG_INFINITY, 9_000_000);
    adsr_full_envelope(&mut h2, 96_000.0, 1.0e30, -1.0e30, 7.0, 5.0, 4_000_000);
    println!("DIFFHASH adsr_envelopes   {:016x}", h2.0);

    // re-trigger / release at every possible moment of a short envelope
    let mut h3 = Fnv::new();
    let mut scratch = String::new();
    for at in 0..140u32 {
        for variant in 0..4u32 {
            let mut a = Adsr::new(1_000.0);
            a.set_input(Input::Attack(0.03.into()));
            a.set_input(Input::Decay(0.04.into()));
            a.set_input(Input::Sustain(0.4.into()));
            a.set_input(Input::Release(0.05.into()));
            a.gate_on();
            for _ in 0..at {
                a.tick();
                h3.f32(a.value());
            }
            match variant {
                0 => a.gate_off(),
                1 => a.gate_on(),
                2 => {
                    a.gate_off();
                    a.tick();
                    h3.f32(a.value());
                    a.gate_on();
                }
                _ => {
                    a.set_input(Input::Sustain(0.9.into()));
                    a.set_input(Input::Attack(0.01.into()));
                    a.set_input(Input::Decay(0.2.into()));
                }
            }
            observe_adsr(&mut h3, &mut scratch, &a, true);
            for _ in 0..120 {
                a.tick();
                h3.f32(a.value());
            }
            observe_adsr(&mut h3, &mut scratch, &a, true);
        }
    }
    println!("DIFFHASH adsr_event_sweep {:016x}", h3.0);

    // out-of-range sample rates, panics caught and recorded
    let mut h4 = Fnv::new();
    let hook = std::panic::take_hook();
    std::panic::set_hook(Box::new(|_| {}));
    let odd = [
        0.0_f32,
        -0.0,
        -1.0,
        -48_000.0,
        1.0e-3,
        0.5,
        1.0,
        3.0,
        3.9,
        4.0,
        10.0,
        50.0,
        99.0,
        1.0e6,
        1.0e12,
        f32::MAX,
        f32::MIN_POSITIVE,
        f32::NAN,
        f32::INFINITY,
        f32::NEG_INFINITY,
    ];
    for (i, &sr) in odd.iter().enumerate() {
        adsr_odd_sample_rate(&mut h4, 77 + i as u64, sr);
    }
    std::panic::set_hook(hook);
    println!("DIFFHASH adsr_odd_rates   {:016x}", h4.0);
}

// ------------------------------------------------------------------------------------------------ conversions

#[test]
fn diff_conversions() {
    let mut h = Fnv::new();
    let mut scratch = String::new();
    h.f32(adsr::MIN_TIME_PERIOD_SEC);
    h.f32(adsr::MAX_TIME_PERIOD_SEC);

    let mut check = |h: &mut Fnv, x: f32| {
        let t: TimePeriod = x.into();
        let s: SustainLevel = x.into();
        h.f32(f32::from(t));
        h.f32(f32::from(s));
        h.debug(&mut scratch, &t);
        h.debug(&mut scratch, &s);
        let inputs = [
            Input::Attack(t),
            Input::Decay(t),
            Input::Sustain(s),
            Input::Release(t),
        ];
        for a in &inputs {
            h.debug(&mut scratch, a);
            for b in &inputs {
                h.bool(a == b);
            }
        }
        h.bool(t == TimePeriod::from(0.001));
        h.bool(t == TimePeriod::from(20.0));
        h.bool(s == SustainLevel::from(0.0));
        h.bool(s == SustainLevel::from(1.0));
    };

    for &x in EDGE.iter() {
        check(&mut h, x);
    }
    let mut rng = Lcg::new(4242);
    for _ in 0..60_000 {
        let x = f32::from_bits(rng.next_u32());
        check(&mut h, x);
    }
    for _ in 0..20_000 {
        let x = param_value(&mut rng);
        check(&mut h, x);
    }
    // neighbourhoods of the clamp bounds, ulp by ulp
    for &centre in &[0.0_f32, 0.001, 1.0, 20.0] {
        let b = centre.to_bits();
        for d in 0..64u32 {
            check(&mut h, f32::from_bits(b + d));
            check(&mut h, f32::from_bits(b.wrapping_sub(d)));
            check(&mut h, -f32::from_bits(b + d));
        }
    }
    println!("DIFFHASH conversions      {:016x}", h.0);
}

// ------------------------------------------------------------------------------------------------ LFO

const SHAPES: [Waveshape; 5] = [
    Waveshape::Sine,
    Waveshape::Triangle,
    Waveshape::UpSaw,
    Waveshape::DownSaw,
    Waveshape::Square,
];

fn observe_lfo(h: &mut Fnv, scratch: &mut String, l: &Lfo, with_debug: bool) {
    for ws in SHAPES {
        h.f32(l.get(ws));
    }
    if with_debug {
        h.debug(scratch, l);
    }
}

fn lfo_sequence(h: &mut Fnv, seed: u64, sample_rate: f32, n_ops: u32) {
    let mut rng = Lcg::new(seed);
    let mut scratch = String::new();
    let mut l = Lfo::new(sample_rate);
    h.u64(seed);
    observe_lfo(h, &mut scratch, &l, true);
    for _ in 0..n_ops {
        let op = rng.below(100);
        h.byte(op as u8);
        match op {
            0..=59 => {
                l.tick();
                observe_lfo(h, &mut scratch, &l, false);
            }
            60..=69 => {
                for _ in 0..rng.below(2_000) {
                    l.tick();
                    h.f32(l.get(Waveshape::Sine));
                    h.f32(l.get(Waveshape::Triangle));
                }
                observe_lfo(h, &mut scratch, &l, true);
            }
            70..=84 => {
                // frequencies in [0, sample rate]
                let f = match rng.below(6) {
                    0 => 0.0,
                    1 => sample_rate,
                    2 => sample_rate * 0.5,
                    3 => rng.unit() * sample_rate,
                    4 => rng.unit() * 20.0,
                    _ => rng.unit() * rng.unit() * rng.unit() * sample_rate,
                };
                l.set_frequency(f);
                observe_lfo(h, &mut scratch, &l, true);
            }
            85..=89 => {
                l.reset();
                observe_lfo(h, &mut scratch, &l, true);
            }
            90..=97 => {
                let p = match rng.below(5) {
                    0 => rng.pick(&EDGE),
                    1 => rng.unit(),
                    2 => rng.unit() * 200.0 - 100.0,
                    3 => f32::from_bits(rng.next_u32()),
                    _ => -rng.unit(),
                };
                l.set_phase(p);
                observe_lfo(h, &mut scratch, &l, true);
            }
            _ => {
                let mut m = l;
                h.bool(m == l);
                m.tick();
                l.tick();
                h.bool(m == l);
                observe_lfo(h, &mut scratch, &m, true);
            }
        }
    }
}

fn lfo_odd(h: &mut Fnv, seed: u64, sample_rate: f32) {
    h.f32(sample_rate);
    let mut trace: Vec<u32> = Vec::new();
    let mut dbg = String::new();
    let result = catch_unwind(AssertUnwindSafe(|| {
        let mut rng = Lcg::new(seed);
        let mut l = Lfo::new(sample_rate);
        for _ in 0..300 {
            match rng.below(10) {
                0 => l.set_frequency(param_value(&mut rng) * 1.0e6),
                1 => l.set_frequency(param_value(&mut rng)),
                2 => l.set_phase(param_value(&mut rng)),
                3 => l.reset(),
                _ => l.tick(),
            }
            for ws in SHAPES {
                trace.push(l.get(ws).to_bits());
            }
            dbg.clear();
            write!(dbg, "{:?}", l).unwrap();
        }
    }));
    h.bool(result.is_ok());
    h.u32(trace.len() as u32);
    for t in trace {
        h.u32(t);
    }
    h.bytes(dbg.as_bytes());
}

#[test]
fn diff_lfo() {
    let mut h = Fnv::new();
    let rates = [100.0_f32, 1_000.0, 44_100.0, 48_000.0, 192_000.0, 31_250.5];
    for (i, &sr) in rates.iter().enumerate() {
        for s in 0..2u64 {
            lfo_sequence(&mut h, 500 * (i as u64 + 1) + s, sr, 5_000);
        }
    }
    println!("DIFFHASH lfo_sequences    {:016x}", h.0);

    let mut h2 = Fnv::new();
    let hook = std::panic::take_hook();
    std::panic::set_hook(Box::new(|_| {}));
    let odd = [
        0.0_f32,
        -1.0,
        1.0e-3,
        1.0,
        100.0,
        48_000.0,
        1.0e12,
        f32::NAN,
        f32::INFINITY,
        f32::NEG_INFINITY,
    ];
    for (i, &sr) in odd.iter().enumerate() {
        for s in 0..4u64 {
            lfo_odd(&mut h2, 9_000 + 10 * i as u64 + s, sr);
        }
    }
    std::panic::set_hook(hook);
    println!("DIFFHASH lfo_odd_rates    {:016x}", h2.0);
}
