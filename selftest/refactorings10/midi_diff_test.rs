//! Differential test for `synth_utils::mono_midi_receiver`.
//!
//! Drives `MonoMidiReceiver` through long pseudo-random call sequences (fixed-seed LCG) using only the public API and
//! hashes every observable output after every call. The printed hashes must be identical for the clean crate and for
//! the crate with any behaviour-preserving change applied.
//!
//! Run: copy to `tests/diff_test.rs`, then `cargo test --offline --test diff_test -- --nocapture`
//! (and the same with `--release`).

use synth_utils::mono_midi_receiver::{MonoMidiReceiver, NotePriority, RetriggerMode};

/// Simple 64-bit LCG (Knuth MMIX constants), high bits returned
struct Lcg(u64);

impl Lcg {
    fn next(&mut self) -> u32 {
        self.0 = self
            .0
            .wrapping_mul(6364136223846793005)
            .wrapping_add(1442695040888963407);
        (self.0 >> 33) as u32
    }
    fn below(&mut self, n: u32) -> u32 {
        self.next() % n
    }
    fn byte(&mut self) -> u8 {
        (self.next() & 0xFF) as u8
    }
}

/// FNV-1a 64-bit
struct Hasher(u64);

impl Hasher {
    fn new() -> Self {
        Hasher(0xcbf29ce484222325)
    }
    fn u8(&mut self, b: u8) {
        self.0 ^= b as u64;
        self.0 = self.0.wrapping_mul(0x100000001b3);
    }
    fn u32(&mut self, v: u32) {
        for b in v.to_le_bytes() {
            self.u8(b);
        }
    }
    fn f32(&mut self, v: f32) {
        self.u32(v.to_bits());
    }
    fn bool(&mut self, v: bool) {
        self.u8(v as u8);
    }
}

/// hash every output that can be read without side effects
fn observe(mr: &MonoMidiReceiver, h: &mut Hasher) {
    h.u8(mr.note_num());
    h.f32(mr.pitch_bend());
    h.f32(mr.velocity());
    h.f32(mr.mod_wheel());
    h.f32(mr.volume());
    h.f32(mr.vcf_cutoff());
    h.f32(mr.vcf_resonance());
    h.f32(mr.portamento_time());
    h.bool(mr.portamento_enabled());
    h.bool(mr.sustain_enabled());
    h.bool(mr.gate());
}

/// feed one byte, then observe; sometimes read the self-clearing edge flags (in either order)
fn feed(mr: &mut MonoMidiReceiver, b: u8, rng: &mut Lcg, h: &mut Hasher, edge_read_one_in: u32) {
    mr.parse(b);
    observe(mr, h);
    if edge_read_one_in != 0 && rng.below(edge_read_one_in) == 0 {
        match rng.below(4) {
            0 => h.bool(mr.rising_gate()),
            1 => h.bool(mr.falling_gate()),
            2 => {
                h.bool(mr.rising_gate());
                h.bool(mr.falling_gate());
            }
            _ => {
                h.bool(mr.falling_gate());
                h.bool(mr.rising_gate());
                // second read must see the cleared flag
                h.bool(mr.falling_gate());
                h.bool(mr.rising_gate());
            }
        }
        observe(mr, h);
    }
}

fn set_modes(mr: &mut MonoMidiReceiver, sel: u32) {
    mr.set_note_priority(match sel % 3 {
        0 => NotePriority::Last,
        1 => NotePriority::High,
        _ => NotePriority::Low,
    });
    mr.set_retrigger_mode(if (sel / 3) % 2 == 0 {
        RetriggerMode::NoRetrigger
    } else {
        RetriggerMode::AllowRetrigger
    });
}

const EDGE_DATA: [u8; 12] = [0, 1, 2, 31, 32, 33, 63, 64, 65, 126, 127, 100];
const INTERESTING_CC: [u8; 16] = [
    0x01, 0x07, 0x47, 0x4A, 0x05, 0x41, 0x40, 0x79, 0x7B, 0x00, 0x02, 0x06, 0x78, 0x7A, 0x7C, 0x7F,
];
const REALTIME: [u8; 8] = [0xF8, 0xF9, 0xFA, 0xFB, 0xFC, 0xFD, 0xFE, 0xFF];

/// Scenario A: completely random bytes (biased a little towards status bytes and edge data values)
fn scenario_raw_bytes(seed: u64, channel: u8, n: usize) -> u64 {
    let mut rng = Lcg(seed);
    let mut h = Hasher::new();
    let mut mr = MonoMidiReceiver::new(channel);
    observe(&mr, &mut h);
    h.bool(mr.rising_gate());
    h.bool(mr.falling_gate());
    for i in 0..n {
        if i % 997 == 0 {
            set_modes(&mut mr, rng.below(6));
        }
        let b = match rng.below(8) {
            0 => 0x80 | rng.byte(),
            1 => EDGE_DATA[rng.below(EDGE_DATA.len() as u32) as usize],
            2 => 0x90 | (rng.below(4) as u8 + channel.min(15)).min(15),
            3 => rng.byte() & 0x7F,
            _ => rng.byte(),
        };
        feed(&mut mr, b, &mut rng, &mut h, 5);
    }
    h.0
}

/// Scenario B: well-formed messages, mostly on the listened channel, with running status, inserted real-time bytes,
/// truncated messages, overlapping notes from a small pool (so that note-offs hit held notes), controllers, pitch bend
fn scenario_messages(seed: u64, channel: u8, n: usize, note_pool: u8, off_bias: u32) -> u64 {
    let mut rng = Lcg(seed);
    let mut h = Hasher::new();
    let mut mr = MonoMidiReceiver::new(channel);
    let ch = channel.min(15);
    let mut last_status: u8 = 0;
    observe(&mr, &mut h);
    for i in 0..n {
        if rng.below(61) == 0 {
            set_modes(&mut mr, rng.below(6));
        }
        // choose the channel: mostly ours
        let c = if rng.below(8) == 0 { rng.below(16) as u8 } else { ch };
        let kind = rng.below(20 + off_bias);
        let (status, d1, d2): (u8, u8, Option<u8>) = if kind < 7 {
            // note on, velocity sometimes zero
            let vel = match rng.below(6) {
                0 => 0,
                1 => 127,
                2 => 1,
                _ => rng.byte() & 0x7F,
            };
            (0x90 | c, rng.below(note_pool as u32) as u8, Some(vel))
        } else if kind < 11 + off_bias {
            // note off
            (
                0x80 | c,
                rng.below(note_pool as u32) as u8,
                Some(rng.byte() & 0x7F),
            )
        } else if kind < 15 + off_bias {
            // control change
            let cc = if rng.below(4) == 0 {
                rng.byte() & 0x7F
            } else {
                INTERESTING_CC[rng.below(INTERESTING_CC.len() as u32) as usize]
            };
            let val = if rng.below(2) == 0 {
                EDGE_DATA[rng.below(EDGE_DATA.len() as u32) as usize]
            } else {
                rng.byte() & 0x7F
            };
            // all-notes-off is rarer so that long chords can build up
            let cc = if cc == 0x7B && rng.below(3) != 0 { 0x01 } else { cc };
            (0xB0 | c, cc, Some(val))
        } else if kind < 17 + off_bias {
            // pitch bend, with edge values
            let (l, m) = match rng.below(6) {
                0 => (0, 0),
                1 => (0, 64),
                2 => (127, 127),
                3 => (1, 64),
                _ => (rng.byte() & 0x7F, rng.byte() & 0x7F),
            };
            (0xE0 | c, l, Some(m))
        } else if kind < 18 + off_bias {
            // other channel-voice messages: poly pressure / program change / channel pressure
            match rng.below(3) {
                0 => (0xA0 | c, rng.byte() & 0x7F, Some(rng.byte() & 0x7F)),
                1 => (0xC0 | c, rng.byte() & 0x7F, None),
                _ => (0xD0 | c, rng.byte() & 0x7F, None),
            }
        } else if kind < 19 + off_bias {
            // system common / sysex
            match rng.below(5) {
                0 => {
                    feed(&mut mr, 0xF0, &mut rng, &mut h, 7);
                    for _ in 0..rng.below(6) {
                        let b = rng.byte() & 0x7F;
                        feed(&mut mr, b, &mut rng, &mut h, 7);
                    }
                    last_status = 0;
                    (0xF7, 0, None)
                }
                1 => (0xF1, rng.byte() & 0x7F, None),
                2 => (0xF2, rng.byte() & 0x7F, Some(rng.byte() & 0x7F)),
                3 => (0xF3, rng.byte() & 0x7F, None),
                _ => (0xF6, 0, None),
            }
        } else {
            // truncated message: status + one data byte only
            (0x90 | c, rng.below(note_pool as u32) as u8, None)
        };

        // running status: omit the status byte sometimes when it repeats
        let use_running = status == last_status && status < 0xF0 && rng.below(3) != 0;
        if !use_running {
            feed(&mut mr, status, &mut rng, &mut h, 7);
        }
        last_status = status;
        if status == 0xF7 || status == 0xF6 {
            continue;
        }
        if rng.below(9) == 0 {
            let rt = REALTIME[rng.below(8) as usize];
            feed(&mut mr, rt, &mut rng, &mut h, 7);
        }
        feed(&mut mr, d1, &mut rng, &mut h, 7);
        if let Some(d2) = d2 {
            if rng.below(9) == 0 {
                let rt = REALTIME[rng.below(8) as usize];
                feed(&mut mr, rt, &mut rng, &mut h, 7);
            }
            feed(&mut mr, d2, &mut rng, &mut h, 3);
        }
        if i % 4099 == 0 {
            // fresh receiver now and then, different channel edge values included
            let new_ch = [ch, 0, 15, 16, 200, 255, ch][rng.below(7) as usize];
            h.u8(new_ch);
            if new_ch == ch {
                mr = MonoMidiReceiver::new(new_ch);
                observe(&mr, &mut h);
            }
        }
    }
    h.0
}

/// Scenario C: pile up far more than 32 simultaneous notes, then release them in random order, for every mode
fn scenario_overflow(seed: u64) -> u64 {
    let mut rng = Lcg(seed);
    let mut h = Hasher::new();
    for sel in 0..6 {
        let mut mr = MonoMidiReceiver::new(3);
        set_modes(&mut mr, sel);
        for round in 0..40 {
            let count = 1 + rng.below(80);
            feed(&mut mr, 0x93, &mut rng, &mut h, 4);
            for _ in 0..count {
                let note = if round % 2 == 0 {
                    rng.byte() & 0x7F
                } else {
                    // duplicates of few notes
                    (rng.below(5) * 12) as u8
                };
                feed(&mut mr, note, &mut rng, &mut h, 0);
                let vel = 1 + (rng.below(127) as u8);
                feed(&mut mr, vel, &mut rng, &mut h, 4);
            }
            // release: either a sweep over all note numbers in pseudo-random order, or all-notes-off
            if rng.below(4) == 0 {
                feed(&mut mr, 0xB3, &mut rng, &mut h, 4);
                feed(&mut mr, 0x7B, &mut rng, &mut h, 4);
                feed(&mut mr, 0, &mut rng, &mut h, 2);
            } else {
                let start = rng.below(128);
                let stride = [1u32, 3, 5, 7, 127][rng.below(5) as usize];
                let use_vel0 = rng.below(2) == 0;
                feed(&mut mr, if use_vel0 { 0x93 } else { 0x83 }, &mut rng, &mut h, 4);
                let how_many = if rng.below(3) == 0 { rng.below(128) } else { 128 };
                for k in 0..how_many {
                    let note = ((start + k * stride) % 128) as u8;
                    feed(&mut mr, note, &mut rng, &mut h, 0);
                    feed(&mut mr, if use_vel0 { 0 } else { 64 }, &mut rng, &mut h, 2);
                }
            }
        }
    }
    h.0
}

/// Scenario D: exhaustive controller and pitch-bend value sweeps on every channel setting
fn scenario_sweeps() -> u64 {
    let mut h = Hasher::new();
    let mut rng = Lcg(1);
    for channel in [0u8, 1, 9, 15, 16, 255] {
        let ch = channel.min(15);
        let mut mr = MonoMidiReceiver::new(channel);
        for cc in 0..128u8 {
            for val in 0..128u8 {
                feed(&mut mr, 0xB0 | ch, &mut rng, &mut h, 0);
                feed(&mut mr, cc, &mut rng, &mut h, 0);
                feed(&mut mr, val, &mut rng, &mut h, 0);
            }
            h.bool(mr.rising_gate());
            h.bool(mr.falling_gate());
        }
        for msb in 0..128u8 {
            for lsb in [0u8, 1, 63, 64, 65, 126, 127] {
                feed(&mut mr, 0xE0 | ch, &mut rng, &mut h, 0);
                feed(&mut mr, lsb, &mut rng, &mut h, 0);
                feed(&mut mr, msb, &mut rng, &mut h, 0);
            }
        }
        for note in 0..128u8 {
            for vel in [0u8, 1, 64, 127] {
                feed(&mut mr, 0x90 | ch, &mut rng, &mut h, 0);
                feed(&mut mr, note, &mut rng, &mut h, 0);
                feed(&mut mr, vel, &mut rng, &mut h, 3);
            }
        }
    }
    h.0
}

#[test]
fn mono_midi_receiver_differential_hashes() {
    let mut combined = Hasher::new();
    let mut report = |name: &str, v: u64| {
        println!("DIFFHASH {name} = {v:016x}");
        for b in v.to_le_bytes() {
            combined.u8(b);
        }
    };

    report("raw_bytes_seed1_ch0", scenario_raw_bytes(1, 0, 400_000));
    report("raw_bytes_seed2_ch5", scenario_raw_bytes(0xDEADBEEF, 5, 400_000));
    report("raw_bytes_seed3_ch200", scenario_raw_bytes(0x1234_5678_9ABC_DEF0, 200, 400_000));
    report("messages_seed1_ch1_pool8", scenario_messages(7, 1, 150_000, 8, 0));
    report("messages_seed2_ch15_pool128", scenario_messages(99, 15, 150_000, 128, 0));
    report("messages_seed3_ch0_pool40_fewoffs", scenario_messages(424242, 0, 150_000, 40, 0));
    report("messages_seed4_ch9_pool3_manyoffs", scenario_messages(31337, 9, 150_000, 3, 6));
    report("messages_seed5_ch255_pool64", scenario_messages(0xFEED_FACE, 255, 150_000, 64, 2));
    report("overflow_seed1", scenario_overflow(5));
    report("overflow_seed2", scenario_overflow(0xABCDEF));
    report("sweeps", scenario_sweeps());

    println!("DIFFHASH COMBINED = {:016x}", combined.0);
}
