//! Differential test for `synth_utils::ribbon_controller`.
//!
//! Copy to `tests/diff_test.rs` of the crate and run
//!   cargo test --offline --test diff_test -- --nocapture
//!   cargo test --offline --release --test diff_test -- --nocapture
//! It drives ribbon controllers of many geometries with long pseudo-random call sequences and prints two 64-bit
//! FNV-1a hashes of every observable output (`HASH canon` treats all NaNs as one value, `HASH raw` hashes the
//! exact bit patterns).  The hashes of the clean crate and of a refactored crate must be identical.
//!
//! Only the public API is used.  Panics (possible only for buffers that were NOT sized with the provided helper, or
//! for absurd sample rates) are caught and hashed too, so a lost or a new panic changes the hash.

use std::panic::{catch_unwind, AssertUnwindSafe};
use synth_utils::ribbon_controller::{sample_rate_to_capacity, RibbonController};

// ---------------------------------------------------------------------------------------------------------------------

struct Hashes {
    canon: u64,
    raw: u64,
}

impl Hashes {
    fn new() -> Self {
        Self {
            canon: 0xcbf2_9ce4_8422_2325,
            raw: 0xcbf2_9ce4_8422_2325,
        }
    }
    fn step(h: &mut u64, bytes: &[u8]) {
        for b in bytes {
            *h ^= *b as u64;
            *h = h.wrapping_mul(0x0000_0100_0000_01b3);
        }
    }
    fn u64(&mut self, v: u64) {
        Self::step(&mut self.canon, &v.to_le_bytes());
        Self::step(&mut self.raw, &v.to_le_bytes());
    }
    fn bool(&mut self, v: bool) {
        self.u64(if v { 0xb1 } else { 0xb0 });
    }
    fn f32(&mut self, v: f32) {
        let raw = v.to_bits();
        let canon = if v.is_nan() { 0x7fc0_0000 } else { raw };
        Self::step(&mut self.canon, &canon.to_le_bytes());
        Self::step(&mut self.raw, &raw.to_le_bytes());
    }
}

struct Lcg(u64);

impl Lcg {
    fn next(&mut self) -> u32 {
        self.0 = self
            .0
            .wrapping_mul(6364136223846793005)
            .wrapping_add(1442695040888963407);
        (self.0 >> 32) as u32
    }
    fn below(&mut self, n: u32) -> u32 {
        self.next() % n
    }
    fn unit(&mut self) -> f32 {
        (self.next() >> 8) as f32 / (1u32 << 24) as f32
    }
}

/// values that the API accepts as f32, in range and out of range, ordinary and pathological
const EDGE: [f32; 24] = [
    0.0,
    -0.0,
    1.0,
    0.5,
    0.96,
    0.9606,
    0.960_615,
    0.960_615_1,
    0.960_614_9,
    0.97,
    0.999_999_94,
    1.0e-38,
    1.0e-45,
    -1.0e-45,
    -1.0,
    -3.0e38,
    3.0e38,
    1.0e30,
    f32::NAN,
    f32::INFINITY,
    f32::NEG_INFINITY,
    f32::MIN_POSITIVE,
    f32::EPSILON,
    2.0,
];

#[derive(Clone, Copy)]
struct Geometry {
    sample_rate: f32,
    softpot: f32,
    dropper: f32,
    pullup: f32,
}

/// observe everything observable; the self clearing getters are read only when `read_edges` says so, so that the
/// "sticky until read" behaviour is exercised as well
fn observe<const N: usize>(h: &mut Hashes, rib: &mut RibbonController<N>, read_edges: u32) {
    h.bool(rib.finger_is_pressing());
    h.f32(rib.value());
    if read_edges & 1 != 0 {
        h.bool(rib.finger_just_pressed());
    }
    if read_edges & 2 != 0 {
        h.bool(rib.finger_just_released());
    }
    if read_edges & 4 != 0 {
        // read twice: self clearing
        h.bool(rib.finger_just_pressed());
        h.bool(rib.finger_just_released());
    }
}

/// one sample: polls (catching a panic), observes; returns false when the poll panicked
fn poll_one<const N: usize>(
    h: &mut Hashes,
    rib: &mut RibbonController<N>,
    x: f32,
    read_edges: u32,
) -> bool {
    let ok = catch_unwind(AssertUnwindSafe(|| rib.poll(x))).is_ok();
    h.bool(ok);
    if ok {
        observe(h, rib, read_edges);
    }
    ok
}

fn drive<const N: usize>(h: &mut Hashes, seed: u64, g: Geometry, steps: usize) {
    h.u64(N as u64);
    h.u64(seed);
    let made = catch_unwind(|| {
        RibbonController::<N>::new(g.sample_rate, g.softpot, g.dropper, g.pullup)
    });
    let mut rib = match made {
        Ok(r) => r,
        Err(_) => {
            h.u64(0xdead_0001);
            return;
        }
    };
    let mut rng = Lcg(seed);
    observe(h, &mut rib, 7);

    // the in-range boundary as the hardware description gives it (only used to pick interesting inputs)
    let boundary = 1.0 - (g.dropper / (g.dropper + g.softpot));
    let span = if boundary.is_finite() && boundary > 0.0 {
        boundary
    } else {
        1.0
    };

    let mut done = 0usize;
    let mut panics = 0u32;
    while done < steps {
        // choose a segment
        let kind = rng.below(16);
        let len = match rng.below(8) {
            0 => 1,
            1 => 1 + rng.below(3) as usize,
            2 => 1 + rng.below(N as u32 + 1) as usize,
            3 => N + rng.below(40) as usize,
            4 => N + N / 8 + rng.below(2 * N as u32 + 2) as usize,
            5 => (N.saturating_sub(3)) + rng.below(7) as usize,
            6 => 2 * N + rng.below(50) as usize,
            _ => 1 + rng.below(30) as usize,
        };
        let base = rng.unit() * span;
        let wobble = rng.unit() * 0.05 * span;
        let edge = EDGE[rng.below(EDGE.len() as u32) as usize];
        let read_mode = rng.below(4);
        for i in 0..len {
            if done >= steps {
                break;
            }
            let x = match kind {
                // a steady press with a little noise
                0..=4 => base + wobble * (rng.unit() - 0.5),
                // a slide
                5 | 6 => base + (span - base) * 0.9 * (i as f32 / len as f32),
                // uniformly random in-range samples
                7 | 8 => rng.unit() * span * 0.999,
                // a press with occasional glitches of edge values
                9 => {
                    if rng.below(64) == 0 {
                        edge
                    } else {
                        base
                    }
                }
                // finger lifted: full scale and above
                10 | 11 => 1.0 - rng.unit() * 0.001,
                // a run of one edge value
                12 | 13 => edge,
                // random edge values
                14 => EDGE[rng.below(EDGE.len() as u32) as usize],
                // random bit patterns: every f32 there is
                _ => f32::from_bits(rng.next()),
            };
            let read_edges = match read_mode {
                0 => 7,
                1 => rng.below(8),
                2 => {
                    if rng.below(97) == 0 {
                        3
                    } else {
                        0
                    }
                }
                _ => rng.below(4),
            };
            if !poll_one(h, &mut rib, x, read_edges) {
                panics += 1;
                if panics > 50 {
                    h.u64(0xdead_0002);
                    return;
                }
            }
            done += 1;
        }
    }
    observe(h, &mut rib, 7);
    observe(h, &mut rib, 7);
}

/// fixed scenarios which aim at particular corners
fn scripted<const N: usize>(h: &mut Hashes, g: Geometry) {
    h.u64(0x5c81_97ed);
    h.u64(N as u64);
    let made = catch_unwind(|| {
        RibbonController::<N>::new(g.sample_rate, g.softpot, g.dropper, g.pullup)
    });
    let mut rib = match made {
        Ok(r) => r,
        Err(_) => {
            h.u64(0xdead_0001);
            return;
        }
    };
    let long = 2 * N + 300;
    // every edge value held for a long time, then a lift, reading the edges every time
    for e in EDGE {
        for _ in 0..long {
            if !poll_one(h, &mut rib, e, 7) {
                return;
            }
        }
        if !poll_one(h, &mut rib, 1.0, 0) {
            return;
        }
    }
    // the same but never reading the self clearing flags until the end
    for e in EDGE {
        for _ in 0..long {
            if !poll_one(h, &mut rib, e, 0) {
                return;
            }
        }
        if !poll_one(h, &mut rib, 2.0, 0) {
            return;
        }
    }
    observe(h, &mut rib, 7);
    // press lengths around every threshold, separated by single glitches
    for extra in 0..(N + 40) {
        for i in 0..extra {
            if !poll_one(h, &mut rib, 0.1 + 0.5 * (i as f32 / (extra as f32)), 0) {
                return;
            }
        }
        if !poll_one(h, &mut rib, f32::NAN, (extra % 8) as u32) {
            return;
        }
    }
    // alternating signs of zero, then all negative zero
    for i in 0..long {
        let x = if i % 2 == 0 { 0.0 } else { -0.0 };
        if !poll_one(h, &mut rib, x, 1) {
            return;
        }
    }
    for _ in 0..long {
        if !poll_one(h, &mut rib, -0.0, 2) {
            return;
        }
    }
    // huge negative values: the sum overflows to -inf
    for _ in 0..long {
        if !poll_one(h, &mut rib, -3.0e38, 3) {
            return;
        }
    }
    for _ in 0..long {
        if !poll_one(h, &mut rib, 0.25, 3) {
            return;
        }
    }
    observe(h, &mut rib, 7);
}

const fn g(sample_rate: f32, softpot: f32, dropper: f32, pullup: f32) -> Geometry {
    Geometry {
        sample_rate,
        softpot,
        dropper,
        pullup,
    }
}

const STD: Geometry = g(10_000.0, 20.0e3, 820.0, 1.0e6);

const CAP_100: usize = sample_rate_to_capacity(100);
const CAP_500: usize = sample_rate_to_capacity(500);
const CAP_1K: usize = sample_rate_to_capacity(1_000);
const CAP_3K: usize = sample_rate_to_capacity(3_333);
const CAP_10K: usize = sample_rate_to_capacity(10_000);
const CAP_48K: usize = sample_rate_to_capacity(48_000);
const CAP_192K: usize = sample_rate_to_capacity(192_000);

#[test]
fn ribbon_differential_hash() {
    // keep the output readable: panics are expected in a few mis-sized configurations and are hashed
    std::panic::set_hook(Box::new(|_| {}));

    let mut h = Hashes::new();

    // the public const helper
    for sr in [
        0u32, 1, 99, 100, 101, 333, 499, 500, 999, 1_000, 1_001, 8_000, 10_000, 22_050, 44_100,
        48_000, 96_000, 192_000, 200_000, 286_331,
    ] {
        h.u64(sample_rate_to_capacity(sr) as u64);
    }

    // --- buffers sized by the helper, the documented way -------------------------------------------------------------
    for seed in 1..=4u64 {
        drive::<CAP_100>(&mut h, seed, g(100.0, 20.0e3, 820.0, 1.0e6), 40_000);
        drive::<CAP_500>(&mut h, seed + 10, g(500.0, 10.0e3, 470.0, 470.0e3), 40_000);
        drive::<CAP_1K>(&mut h, seed + 20, g(1_000.0, 20.0e3, 820.0, 1.0e6), 60_000);
        drive::<CAP_3K>(&mut h, seed + 30, g(3_333.0, 10.0e3, 1_000.0, 220.0e3), 60_000);
        drive::<CAP_10K>(&mut h, seed + 40, STD, 120_000);
    }
    drive::<CAP_48K>(&mut h, 51, g(48_000.0, 20.0e3, 820.0, 1.0e6), 60_000);
    drive::<CAP_192K>(&mut h, 52, g(192_000.0, 10.0e3, 330.0, 2.2e6), 40_000);

    scripted::<CAP_100>(&mut h, g(100.0, 20.0e3, 820.0, 1.0e6));
    scripted::<CAP_1K>(&mut h, g(1_000.0, 20.0e3, 820.0, 1.0e6));
    scripted::<CAP_10K>(&mut h, STD);

    // --- unphysical resistor values: negative / zero / NaN correction constant, odd boundaries -------------------------
    drive::<CAP_10K>(&mut h, 61, g(10_000.0, 20.0e3, 820.0, -1.0e6), 60_000);
    scripted::<CAP_1K>(&mut h, g(1_000.0, 20.0e3, 820.0, -1.0e6));
    scripted::<CAP_1K>(&mut h, g(1_000.0, 20.0e3, 820.0, -0.0));
    scripted::<CAP_1K>(&mut h, g(1_000.0, 20.0e3, 820.0, f32::NEG_INFINITY));
    drive::<CAP_1K>(&mut h, 62, g(1_000.0, 20.0e3, 820.0, 0.0), 30_000);
    drive::<CAP_1K>(&mut h, 63, g(1_000.0, 20.0e3, 820.0, f32::NAN), 30_000);
    drive::<CAP_1K>(&mut h, 64, g(1_000.0, 20.0e3, -100.0, 1.0e6), 30_000); // boundary a little above 1.0
    drive::<CAP_1K>(&mut h, 65, g(1_000.0, 0.0, 0.0, 1.0e6), 10_000); // boundary NaN: never in range
    drive::<CAP_1K>(&mut h, 66, g(1_000.0, -1.0e30, 1.0e30, 1.0e6), 10_000); // boundary -inf
    drive::<CAP_1K>(&mut h, 67, g(1_000.0, 1.0e30, -1.0, 1.0), 30_000); // boundary 1.0, huge correction
    drive::<CAP_1K>(&mut h, 68, g(1_000.0, 20.0e3, -30.0e3, 1.0e6), 30_000); // boundary -2: only negative samples
    scripted::<CAP_1K>(&mut h, g(1_000.0, 20.0e3, -21.0e3, 1.0e6)); // boundary -20, negative samples only
    scripted::<CAP_1K>(&mut h, g(1_000.0, f32::INFINITY, 820.0, 1.0e6)); // boundary 1.0, correction inf

    // --- sample rates outside the documented range ------------------------------------------------------------------
    drive::<CAP_1K>(&mut h, 71, g(f32::NAN, 20.0e3, 820.0, 1.0e6), 10_000);
    drive::<CAP_1K>(&mut h, 72, g(-5.0, 20.0e3, 820.0, 1.0e6), 10_000);
    drive::<CAP_1K>(&mut h, 73, g(0.0, 20.0e3, 820.0, 1.0e6), 10_000);
    drive::<CAP_1K>(&mut h, 74, g(1.0e10, 20.0e3, 820.0, 1.0e6), 2_000); // overflows in `new` (debug: panic)
    drive::<CAP_1K>(&mut h, 75, g(f32::INFINITY, 20.0e3, 820.0, 1.0e6), 2_000);

    // --- buffers NOT sized by the helper -----------------------------------------------------------------------------
    // larger than needed
    drive::<64>(&mut h, 81, g(1_000.0, 20.0e3, 820.0, 1.0e6), 40_000);
    drive::<1_000>(&mut h, 82, STD, 60_000);
    // smaller than the helper says but still larger than the discarded tail
    drive::<30>(&mut h, 83, STD, 40_000);
    drive::<21>(&mut h, 84, STD, 20_000);
    scripted::<21>(&mut h, STD);
    // exactly the discarded tail: the mean of nothing
    drive::<20>(&mut h, 85, STD, 20_000);
    scripted::<20>(&mut h, g(10_000.0, 20.0e3, 820.0, -1.0e6));
    drive::<2>(&mut h, 86, g(1_000.0, 20.0e3, 820.0, 1.0e6), 5_000);
    // smaller than the discarded tail: `capacity - num_to_discard_at_end` underflows (debug: panic, release: wraps)
    drive::<19>(&mut h, 87, STD, 20_000);
    drive::<1>(&mut h, 88, STD, 5_000);
    drive::<1>(&mut h, 89, g(1_000.0, 20.0e3, 820.0, 1.0e6), 5_000);
    scripted::<5>(&mut h, STD);
    // capacity one with nothing to ignore and nothing to discard
    drive::<1>(&mut h, 90, g(100.0, 20.0e3, 820.0, 1.0e6), 20_000);
    scripted::<1>(&mut h, g(100.0, 20.0e3, 820.0, -1.0e6));

    let _ = std::panic::take_hook();

    println!("HASH canon {:016x}", h.canon);
    println!("HASH raw   {:016x}", h.raw);
}
