//! Differential test for the LFO module (src/lfo.rs, src/phase_accumulator.rs, src/utils.rs).
//!
//! Drives every public entry point that reaches those three files (`Lfo` directly, `Adsr` through the shared
//! phase accumulator / `linear_interp` / `ilog_2`, `GlideProcessor` through `is_almost` / `fabs`) with long
//! pseudo-random call sequences and hashes every observable output (return values bit-for-bit, the `Debug`
//! rendering of the structs, `PartialEq` results and whether a call panicked).
//!
//! Copy to `tests/diff_test.rs`, run `cargo test --offline --test diff_test -- --nocapture` (and the same with
//! `--release`) and compare the printed `DIFFHASH` lines.

use std::fmt::Write as _;
use std::panic::{catch_unwind, AssertUnwindSafe};

use synth_utils::adsr::{self, Adsr};
use synth_utils::glide_processor::GlideProcessor;
use synth_utils::lfo::{Lfo, Waveshape};

/// FNV-1a, 64 bit
struct Hasher(u64);

impl Hasher {
    fn new() -> Self {
        Hasher(0xcbf2_9ce4_8422_2325)
    }
    fn byte(&mut self, b: u8) {
        self.0 ^= b as u64;
        self.0 = self.0.wrapping_mul(0x0000_0100_0000_01b3);
    }
    fn u32(&mut self, v: u32) {
        for b in v.to_le_bytes() {
            self.byte(b);
        }
    }
    fn f32(&mut self, v: f32) {
        self.u32(v.to_bits());
    }
    fn str(&mut self, s: &str) {
        for b in s.bytes() {
            self.byte(b);
        }
        self.byte(0xff);
    }
}

/// Simple 64 bit LCG (Knuth's MMIX constants), upper bits returned
struct Lcg(u64);

impl Lcg {
    fn next_u32(&mut self) -> u32 {
        self.0 = self
            .0
            .wrapping_mul(6364136223846793005)
            .wrapping_add(1442695040888963407);
        (self.0 >> 32) as u32
    }
    /// uniform in [0, 1)
    fn unit(&mut self) -> f32 {
        (self.next_u32() >> 8) as f32 / 16_777_216.0_f32
    }
    fn below(&mut self, n: u32) -> u32 {
        self.next_u32() % n
    }
    fn pick(&mut self, xs: &[f32]) -> f32 {
        xs[self.below(xs.len() as u32) as usize]
    }
}

const SHAPES: [Waveshape; 5] = [
    Waveshape::Sine,
    Waveshape::Triangle,
    Waveshape::UpSaw,
    Waveshape::DownSaw,
    Waveshape::Square,
];

const EDGE_F32: [f32; 30] = [
    0.0,
    -0.0,
    1.0,
    -1.0,
    0.5,
    -0.5,
    0.25,
    0.75,
    0.999_999_94,
    -0.999_999_94,
    1.000_000_1,
    5.960_464_5e-8,
    -5.960_464_5e-8,
    1.0e-30,
    -1.0e-30,
    1.0e-45,
    f32::MIN_POSITIVE,
    3.0,
    -2.0,
    1234.567,
    -1234.567,
    16_777_216.0,
    16_777_215.0,
    4_294_967_296.0,
    1.0e30,
    -1.0e30,
    f32::MAX,
    f32::MIN,
    f32::INFINITY,
    f32::NEG_INFINITY,
];

fn edge(rng: &mut Lcg) -> f32 {
    if rng.below(12) == 0 {
        f32::NAN
    } else {
        rng.pick(&EDGE_F32)
    }
}

/// run `f`, hash a marker telling whether it panicked
fn guarded<F: FnOnce()>(h: &mut Hasher, f: F) {
    match catch_unwind(AssertUnwindSafe(f)) {
        Ok(()) => h.byte(0x11),
        Err(_) => h.byte(0xEE),
    }
}

fn observe_lfo(h: &mut Hasher, lfo: &Lfo, scratch: &mut String) {
    for ws in SHAPES {
        match catch_unwind(AssertUnwindSafe(|| lfo.get(ws))) {
            Ok(v) => h.f32(v),
            Err(_) => h.byte(0xEE),
        }
    }
    scratch.clear();
    write!(scratch, "{:?}", lfo).unwrap();
    h.str(scratch);
}

fn lfo_sequence(h: &mut Hasher, seed: u64, sample_rate: f32, steps: u32, wild: bool) {
    let mut rng = Lcg(seed);
    let mut scratch = String::new();
    let mut lfo = Lfo::new(sample_rate);
    let mut snapshot = lfo;
    observe_lfo(h, &lfo, &mut scratch);

    for _ in 0..steps {
        let op = rng.below(100);
        match op {
            0..=79 => guarded(h, || lfo.tick()),
            80..=87 => {
                // frequency inside the documented range [0, sample rate]
                let f = match rng.below(8) {
                    0 => 0.0,
                    1 => sample_rate,
                    2 => sample_rate * 0.5,
                    3 => rng.unit() * 0.01,
                    4 => sample_rate / 16_777_216.0 * (rng.below(5) as f32) * 0.5,
                    _ => rng.unit() * sample_rate,
                };
                guarded(h, || lfo.set_frequency(f));
            }
            88..=89 => {
                // anything at all
                let f = if !wild {
                    rng.unit() * 20.0
                } else if rng.below(2) == 0 {
                    edge(&mut rng)
                } else {
                    (rng.unit() - 0.25) * sample_rate * 300.0
                };
                guarded(h, || lfo.set_frequency(f));
            }
            90..=91 => guarded(h, || lfo.reset()),
            92..=97 => {
                let p = match rng.below(6) {
                    0 => edge(&mut rng),
                    1 => rng.unit(),
                    2 => -rng.unit(),
                    3 => (rng.unit() - 0.5) * 1000.0,
                    4 => (rng.below(2049) as f32) / 1024.0 - 1.0,
                    _ => (rng.unit() - 0.5) * 1.0e9,
                };
                guarded(h, || lfo.set_phase(p));
            }
            98 => snapshot = lfo,
            _ => {
                h.byte((lfo == snapshot) as u8);
                let copy = lfo;
                h.byte((copy == lfo) as u8);
            }
        }
        observe_lfo(h, &lfo, &mut scratch);
    }
}

fn lfo_phase_sweep(h: &mut Hasher) {
    let mut scratch = String::new();
    let mut lfo = Lfo::new(48_000.0);
    // every table index and its neighbours, fine steps around the wrap, negative and > 1 phases
    for i in -4200..=4200 {
        let p = i as f32 / 2048.0;
        lfo.set_phase(p);
        observe_lfo(h, &lfo, &mut scratch);
        lfo.set_phase(p + 1.0e-4);
        observe_lfo(h, &lfo, &mut scratch);
    }
    for i in 0..4096 {
        let p = 1.0 - (i as f32) * 5.960_464_5e-8;
        lfo.set_phase(p);
        observe_lfo(h, &lfo, &mut scratch);
        lfo.set_phase(-p);
        observe_lfo(h, &lfo, &mut scratch);
    }
    for v in EDGE_F32.iter().copied().chain([f32::NAN]) {
        lfo.set_phase(v);
        observe_lfo(h, &lfo, &mut scratch);
        lfo.set_frequency(1.0);
        lfo.tick();
        observe_lfo(h, &lfo, &mut scratch);
    }
}

fn lfo_full_cycles(h: &mut Hasher) {
    let mut scratch = String::new();
    for (sr, f) in [
        (1_000.0_f32, 1.0_f32),
        (100.0, 1.0),
        (100.0, 100.0),
        (100.0, 50.0),
        (100.0, 99.99),
        (44_100.0, 7.3),
        (192_000.0, 0.011_444_09),
        (192_000.0, 0.0229),
        (48_000.0, 0.003),
        (48_000.0, 20_000.0),
        (8_000.0, 3_999.9),
    ] {
        let mut lfo = Lfo::new(sr);
        lfo.set_frequency(f);
        lfo.set_phase(0.999);
        for _ in 0..30_000 {
            lfo.tick();
            observe_lfo(h, &lfo, &mut scratch);
        }
    }
}

fn observe_adsr(h: &mut Hasher, env: &Adsr, scratch: &mut String) {
    h.f32(env.value());
    scratch.clear();
    write!(scratch, "{:?}", env).unwrap();
    h.str(scratch);
}

fn adsr_sequence(h: &mut Hasher, seed: u64, sample_rate: f32, steps: u32) {
    let mut rng = Lcg(seed);
    let mut scratch = String::new();
    let mut env = Adsr::new(sample_rate);
    observe_adsr(h, &env, &mut scratch);

    for _ in 0..steps {
        let op = rng.below(1000);
        match op {
            0..=959 => guarded(h, || env.tick()),
            960..=969 => env.gate_on(),
            970..=979 => env.gate_off(),
            _ => {
                let v = match rng.below(6) {
                    0 => edge(&mut rng),
                    1 => rng.unit() * 0.01,
                    2 => rng.unit() * 0.2,
                    3 => rng.unit(),
                    4 => rng.unit() * 25.0 - 2.0,
                    _ => 0.001 + rng.unit() * 0.05,
                };
                let input = match rng.below(4) {
                    0 => adsr::Input::Attack(v.into()),
                    1 => adsr::Input::Decay(v.into()),
                    2 => adsr::Input::Sustain(v.into()),
                    _ => adsr::Input::Release(v.into()),
                };
                let t: f32 = adsr::TimePeriod::from(v).into();
                let s: f32 = adsr::SustainLevel::from(v).into();
                h.f32(t);
                h.f32(s);
                env.set_input(input);
            }
        }
        observe_adsr(h, &env, &mut scratch);
    }
}

fn glide_sequence(h: &mut Hasher, seed: u64, sample_rate: f32, steps: u32) {
    let mut rng = Lcg(seed);
    let mut glide = GlideProcessor::new(sample_rate);
    let mut last_t = 0.5_f32;
    for _ in 0..steps {
        let op = rng.below(100);
        if op < 12 {
            // times close to the cached one exercise `is_almost` / `fabs` right at the 0.05 threshold
            let t = match rng.below(8) {
                0 => edge(&mut rng),
                1 => last_t + 0.05,
                2 => last_t - 0.05,
                3 => last_t + 0.05 + (rng.unit() - 0.5) * 1.0e-6,
                4 => last_t - 0.05 + (rng.unit() - 0.5) * 1.0e-6,
                5 => last_t + (rng.unit() - 0.5) * 0.2,
                6 => 0.0,
                _ => rng.unit() * 10.0,
            };
            if t.is_finite() {
                last_t = t;
            }
            guarded(h, || glide.set_time(t));
        }
        let x = match rng.below(20) {
            0 => 0.0,
            1 => 10.0,
            2 => -3.0,
            _ => rng.unit() * 10.0,
        };
        match catch_unwind(AssertUnwindSafe(|| glide.process(x))) {
            Ok(v) => h.f32(v),
            Err(_) => h.byte(0xEE),
        }
    }
}

#[test]
fn differential_hash() {
    // the sequences deliberately provoke the (pre-existing) debug-build overflow panic, keep the log quiet
    std::panic::set_hook(Box::new(|_| {}));

    let mut total = Hasher::new();

    let mut h = Hasher::new();
    let rates = [100.0_f32, 1_000.0, 8_000.0, 44_100.0, 48_000.0, 96_000.0, 192_000.0, 31_250.5];
    for (i, sr) in rates.iter().enumerate() {
        lfo_sequence(&mut h, 0x1234_5678_9abc_def0 ^ (i as u64 * 7919), *sr, 40_000, false);
        lfo_sequence(&mut h, 0x0fed_cba9_8765_4321 ^ (i as u64 * 104_729), *sr, 40_000, true);
    }
    // odd sample rates, outside the documented range, still must behave identically
    for (i, sr) in [0.0_f32, -48_000.0, 1.0e-3, 1.0e12, f32::INFINITY, f32::NAN]
        .iter()
        .enumerate()
    {
        lfo_sequence(&mut h, 0xdead_beef_0000_0001 + i as u64, *sr, 4_000, true);
    }
    println!("DIFFHASH lfo_random   {:016x}", h.0);
    total.u32(h.0 as u32);
    total.u32((h.0 >> 32) as u32);

    let mut h = Hasher::new();
    lfo_phase_sweep(&mut h);
    println!("DIFFHASH lfo_sweep    {:016x}", h.0);
    total.u32(h.0 as u32);
    total.u32((h.0 >> 32) as u32);

    let mut h = Hasher::new();
    lfo_full_cycles(&mut h);
    println!("DIFFHASH lfo_cycles   {:016x}", h.0);
    total.u32(h.0 as u32);
    total.u32((h.0 >> 32) as u32);

    let mut h = Hasher::new();
    for (i, sr) in [100.0_f32, 1_000.0, 8_000.0, 48_000.0, 192_000.0]
        .iter()
        .enumerate()
    {
        adsr_sequence(&mut h, 0x5151_5151_a0a0_0000 + i as u64 * 31, *sr, 120_000);
    }
    println!("DIFFHASH adsr_random  {:016x}", h.0);
    total.u32(h.0 as u32);
    total.u32((h.0 >> 32) as u32);

    let mut h = Hasher::new();
    for (i, sr) in [100.0_f32, 1_000.0, 48_000.0].iter().enumerate() {
        glide_sequence(&mut h, 0x7777_0000_1111_2222 + i as u64 * 17, *sr, 60_000);
    }
    println!("DIFFHASH glide_random {:016x}", h.0);
    total.u32(h.0 as u32);
    total.u32((h.0 >> 32) as u32);

    println!("DIFFHASH TOTAL        {:016x}", total.0);

    let _ = std::panic::take_hook();
}
