//! Differential test for the glide processor (src/glide_processor.rs, src/utils.rs).
//!
//! Drives the public API of `synth_utils` with long pseudo-random call sequences and hashes every
//! observable output (the raw bits of every f32 returned, and whether a call panicked).
//! `utils.rs` is a private module that is also used by the ADSR and the LFO (`linear_interp`,
//! `ilog_2`), so those two are driven as well.
//!
//! Copy to `tests/diff_test.rs` and run
//! `cargo test --offline --test diff_test -- --nocapture` (and the same with `--release`).
//! The lines starting with `DIFFHASH` must be identical for the clean crate and every refactoring.

use std::panic::{catch_unwind, AssertUnwindSafe};

use synth_utils::adsr::{self, Adsr};
use synth_utils::glide_processor::GlideProcessor;
use synth_utils::lfo::{Lfo, Waveshape};

// ---------------------------------------------------------------------------------------------

struct Lcg(u64);

impl Lcg {
    fn next_u32(&mut self) -> u32 {
        self.0 = self
            .0
            .wrapping_mul(6364136223846793005)
            .wrapping_add(1442695040888963407);
        (self.0 >> 32) as u32
    }
    /// uniform in [0, 1)
    fn unit(&mut self) -> f32 {
        (self.next_u32() >> 8) as f32 / 16_777_216.0
    }
    fn range(&mut self, lo: f32, hi: f32) -> f32 {
        lo + (hi - lo) * self.unit()
    }
    fn below(&mut self, n: u32) -> u32 {
        self.next_u32() % n
    }
}

struct Fnv(u64);

thread_local! {
    /// hash of the raw bits of every f32 hashed anywhere (NaN sign and payload included)
    static RAW: std::cell::Cell<u64> = std::cell::Cell::new(0xcbf29ce484222325);
}

impl Fnv {
    fn new() -> Self {
        Fnv(0xcbf29ce484222325)
    }
    fn byte(&mut self, b: u8) {
        self.0 ^= b as u64;
        self.0 = self.0.wrapping_mul(0x100000001b3);
    }
    fn u32(&mut self, v: u32) {
        for b in v.to_le_bytes() {
            self.byte(b);
        }
    }
    fn u64(&mut self, v: u64) {
        for b in v.to_le_bytes() {
            self.byte(b);
        }
    }
    /// NaNs are hashed as one canonical value: Rust leaves the sign and payload of a NaN produced by an
    /// arithmetic operation unspecified, and they do differ between debug and release builds of the
    /// *unchanged* crate (operand order of commutative operations). The raw bits go into `RAW` as well.
    fn f32(&mut self, v: f32) {
        RAW.with(|r| {
            let mut raw = Fnv(r.get());
            raw.u32(v.to_bits());
            r.set(raw.0);
        });
        self.u32(if v.is_nan() { 0x7fc0_0000 } else { v.to_bits() });
    }
}

// ---------------------------------------------------------------------------------------------

const FINITE_EDGE_VALS: [f32; 16] = [
    0.0,
    -0.0,
    1.0,
    -1.0,
    10.0,
    -10.0,
    0.5,
    1.0e-3,
    1.0e9,
    -1.0e9,
    1.0e30,
    -1.0e30,
    f32::MAX,
    f32::MIN,
    f32::MIN_POSITIVE,
    1.0e-42, // subnormal
];

const NONFINITE_VALS: [f32; 3] = [f32::NAN, f32::INFINITY, f32::NEG_INFINITY];

const FINITE_EDGE_TIMES: [f32; 20] = [
    0.0,
    -0.0,
    0.01,
    0.04,
    0.05,
    0.050_000_004,
    0.06,
    0.1,
    0.5,
    1.0,
    2.5,
    9.95,
    10.0,
    10.05,
    11.0,
    1.0e6,
    f32::MAX,
    f32::MIN_POSITIVE,
    1.0e-42,
    1.0e-6,
];

// outside the documented range, but the API accepts any f32
const WILD_TIMES: [f32; 7] = [
    -1.0,
    -0.04,
    -1.0e-42,
    f32::MIN,
    f32::NAN,
    f32::INFINITY,
    f32::NEG_INFINITY,
];

/// One long random walk over `set_time` / `process`.
///
/// `wild` additionally feeds NaN / infinities / negative times.
fn glide_run(h: &mut Fnv, sample_rate: f32, seed: u64, n_ops: usize, wild: bool) {
    let mut rng = Lcg(seed);
    let mut gp = match catch_unwind(|| GlideProcessor::new(sample_rate)) {
        Ok(gp) => {
            h.byte(1);
            gp
        }
        Err(_) => {
            h.byte(0);
            return;
        }
    };

    // the time most recently asked for, used to probe the "close to the cached time" guard
    let mut last_t = 0.0_f32;
    let mut held = 0.0_f32;

    for _ in 0..n_ops {
        let op = rng.below(100);
        if op < 22 {
            // set_time
            let kind = rng.below(if wild { 12 } else { 10 });
            let t = match kind {
                0..=2 => rng.range(0.0, 10.0),
                3 => rng.range(0.0, 0.2),
                4..=6 => last_t + rng.range(-0.11, 0.11), // around the epsilon of the guard
                7 => last_t + if rng.below(2) == 0 { 0.05 } else { -0.05 },
                8 | 9 => FINITE_EDGE_TIMES[rng.below(FINITE_EDGE_TIMES.len() as u32) as usize],
                _ => WILD_TIMES[rng.below(WILD_TIMES.len() as u32) as usize],
            };
            // (not `t.max(0.0)`: which zero that returns for -0.0 is unspecified and differs between
            // debug and release builds; -0.0 passes through here and selects the slowest glide)
            let t = if !wild && t < 0.0 { 0.0 } else { t };
            last_t = t;
            let r = catch_unwind(AssertUnwindSafe(|| gp.set_time(t)));
            h.byte(if r.is_ok() { 2 } else { 3 });
        } else {
            // process
            let kind = rng.below(if wild { 21 } else { 20 });
            let v = match kind {
                0..=7 => held,
                8..=10 => {
                    held = rng.range(-10.0, 10.0);
                    held
                }
                11..=13 => {
                    held = (rng.below(121) as f32) / 12.0; // 1V/oct note steps
                    held
                }
                14..=16 => rng.range(-1.0, 1.0),
                17 => rng.range(-1.0e-3, 1.0e-3),
                18 | 19 => FINITE_EDGE_VALS[rng.below(FINITE_EDGE_VALS.len() as u32) as usize],
                _ => NONFINITE_VALS[rng.below(NONFINITE_VALS.len() as u32) as usize],
            };
            match catch_unwind(AssertUnwindSafe(|| gp.process(v))) {
                Ok(out) => {
                    h.byte(4);
                    h.f32(out);
                }
                Err(_) => h.byte(5),
            }
        }
    }
}

/// Step responses: for each time setting, a step 0 -> 1 -> -3 hashed sample by sample.
fn glide_steps(h: &mut Fnv, sample_rate: f32) {
    let times = [
        0.0_f32, 0.001, 0.01, 0.02, 0.049, 0.05, 0.051, 0.1, 0.25, 1.0, 3.0, 9.9, 10.0, 12.0, 100.0,
    ];
    for &t in times.iter() {
        let mut gp = GlideProcessor::new(sample_rate);
        gp.set_time(t);
        h.f32(gp.process(0.0));
        for _ in 0..600 {
            h.f32(gp.process(1.0));
        }
        // a change in mid-glide
        gp.set_time(t * 0.5);
        for _ in 0..600 {
            h.f32(gp.process(-3.0));
        }
        gp.set_time(t + 0.049);
        gp.set_time(t + 0.06);
        for _ in 0..300 {
            h.f32(gp.process(0.25));
        }
    }

    // never calling set_time at all
    let mut gp = GlideProcessor::new(sample_rate);
    for i in 0..200 {
        h.f32(gp.process(if i < 100 { 1.0 } else { -1.0 }));
    }

    // a slow sweep of the time control, both directions, in steps smaller than the guard's epsilon
    let mut gp = GlideProcessor::new(sample_rate);
    let mut t = 0.0_f32;
    for i in 0..3000 {
        gp.set_time(t);
        h.f32(gp.process(((i / 50) % 7) as f32));
        t += 0.004;
    }
    for i in 0..3000 {
        gp.set_time(t);
        h.f32(gp.process(((i / 50) % 5) as f32 * -0.5));
        t -= 0.0041;
    }
}

fn adsr_run(h: &mut Fnv, sample_rate: f32, seed: u64, n_ops: usize) {
    let mut rng = Lcg(seed);
    let mut env = Adsr::new(sample_rate);
    let edge = [
        0.0_f32,
        -1.0,
        0.0005,
        0.001,
        0.5,
        1.0,
        20.0,
        25.0,
        1.0e30,
        f32::NAN,
        f32::INFINITY,
        f32::NEG_INFINITY,
    ];
    for _ in 0..n_ops {
        match rng.below(100) {
            0..=1 => env.gate_on(),
            2..=3 => env.gate_off(),
            4..=6 => {
                let v = if rng.below(4) == 0 {
                    edge[rng.below(edge.len() as u32) as usize]
                } else {
                    rng.range(0.0, 0.05)
                };
                let input = match rng.below(4) {
                    0 => adsr::Input::Attack(v.into()),
                    1 => adsr::Input::Decay(v.into()),
                    2 => adsr::Input::Sustain((v * 20.0).into()),
                    _ => adsr::Input::Release(v.into()),
                };
                env.set_input(input);
            }
            _ => {
                env.tick();
                h.f32(env.value());
            }
        }
    }
}

fn lfo_run(h: &mut Fnv, sample_rate: f32, seed: u64, n_ops: usize) {
    let mut rng = Lcg(seed);
    let mut lfo = Lfo::new(sample_rate);
    lfo.set_frequency(1.0);
    let shapes = [
        Waveshape::Sine,
        Waveshape::Triangle,
        Waveshape::UpSaw,
        Waveshape::DownSaw,
        Waveshape::Square,
    ];
    for _ in 0..n_ops {
        match rng.below(100) {
            0 => lfo.set_frequency(rng.range(0.0, sample_rate * 0.5)),
            1 => lfo.set_frequency(rng.range(0.0, 20.0)),
            2 => lfo.set_phase(rng.range(0.0, 4.0)),
            3 => lfo.reset(),
            _ => {
                lfo.tick();
                for s in shapes.iter() {
                    h.f32(lfo.get(*s));
                }
            }
        }
    }
}

#[test]
fn differential_hashes() {
    // the runs below provoke panics on purpose (illegal sample rates); keep the output readable
    std::panic::set_hook(Box::new(|_| {}));

    let mut total = Fnv::new();

    // 1. in-range use: finite values, times >= 0
    let rates = [100.0_f32, 1_000.0, 8_000.0, 44_100.0, 48_000.0, 192_000.0];
    let mut h = Fnv::new();
    for (i, &sr) in rates.iter().enumerate() {
        for seed in 0..4u64 {
            glide_run(&mut h, sr, 0x1234_5678 + 977 * seed + i as u64, 40_000, false);
        }
    }
    println!("DIFFHASH glide_in_range   {:016x}", h.0);
    total.u64(h.0);

    // 2. anything goes: NaN, infinities, negative times, odd sample rates (incl. ones `new` rejects)
    let odd_rates = [
        100.0_f32,
        48_000.0,
        0.5,
        3.0,
        1.0e-3,
        1.0e-38,
        1.0e-45,
        1.0e-40,
        f32::MAX,
        f32::INFINITY,
        0.0,
        -0.0,
        -1.0,
        -48_000.0,
        f32::NEG_INFINITY,
        f32::NAN,
        0.39,
        0.41,
    ];
    let mut h = Fnv::new();
    for (i, &sr) in odd_rates.iter().enumerate() {
        for seed in 0..3u64 {
            glide_run(&mut h, sr, 0xdead_beef + 31 * seed + 7 * i as u64, 20_000, true);
            glide_run(&mut h, sr, 0x0bad_cafe + 31 * seed + 7 * i as u64, 5_000, false);
        }
    }
    println!("DIFFHASH glide_wild       {:016x}", h.0);
    total.u64(h.0);

    // 3. deterministic step responses
    let mut h = Fnv::new();
    for &sr in [100.0_f32, 1_000.0, 44_100.0, 192_000.0].iter() {
        glide_steps(&mut h, sr);
    }
    println!("DIFFHASH glide_steps      {:016x}", h.0);
    total.u64(h.0);

    // 4. the other users of utils.rs
    let mut h = Fnv::new();
    for (i, &sr) in [100.0_f32, 1_000.0, 48_000.0, 192_000.0].iter().enumerate() {
        for seed in 0..3u64 {
            adsr_run(&mut h, sr, 0x5eed + 13 * seed + i as u64, 60_000);
        }
    }
    println!("DIFFHASH adsr             {:016x}", h.0);
    total.u64(h.0);

    let mut h = Fnv::new();
    for (i, &sr) in [100.0_f32, 1_000.0, 48_000.0, 192_000.0].iter().enumerate() {
        for seed in 0..3u64 {
            lfo_run(&mut h, sr, 0xf00d + 17 * seed + i as u64, 30_000);
        }
    }
    println!("DIFFHASH lfo              {:016x}", h.0);
    total.u64(h.0);

    println!("DIFFHASH total            {:016x}", total.0);
    println!("DIFFHASH raw_nan_bits     {:016x}", RAW.with(|r| r.get()));

    let _ = std::panic::take_hook();
}
