//! Differential test for `synth_utils::quantizer`.
//!
//! Drives the quantizer through long pseudo-random call sequences (fixed seeds) using only the public API and
//! hashes every observable output. The printed hashes must be identical for the clean crate and for every refactoring.
//!
//! Run with: `cargo test --offline --test diff_test -- --nocapture` (and again with `--release`).

use synth_utils::quantizer::{
    Conversion, Note, Quantizer, HALF_SEMITONE_WIDTH, NUM_NOTES_PER_OCTAVE, SEMITONE_WIDTH,
};

/// FNV-1a, 64 bit
struct Hasher(u64);

impl Hasher {
    fn new() -> Self {
        Self(0xcbf2_9ce4_8422_2325)
    }
    fn byte(&mut self, b: u8) {
        self.0 ^= b as u64;
        self.0 = self.0.wrapping_mul(0x0000_0100_0000_01b3);
    }
    fn u32(&mut self, v: u32) {
        for b in v.to_le_bytes() {
            self.byte(b);
        }
    }
    fn u64(&mut self, v: u64) {
        for b in v.to_le_bytes() {
            self.byte(b);
        }
    }
    fn f32(&mut self, v: f32) {
        self.u32(v.to_bits());
    }
    fn conversion(&mut self, c: &Conversion) {
        self.byte(c.note_num);
        self.f32(c.stairstep);
        self.f32(c.fraction);
    }
    /// every observable bit of the scale: is_allowed for all twelve notes via three different constructors
    fn scale(&mut self, q: &Quantizer) {
        for n in 0..12u8 {
            self.byte(q.is_allowed(Note::new(n)) as u8);
            self.byte(q.is_allowed(n.into()) as u8);
        }
        self.byte(q.is_allowed(Note::B) as u8);
        self.byte(q.is_allowed(Note::new(200)) as u8);
    }
}

/// simple 64 bit LCG (Knuth MMIX constants), upper bits are used
struct Lcg(u64);

impl Lcg {
    fn next(&mut self) -> u32 {
        self.0 = self
            .0
            .wrapping_mul(6364136223846793005)
            .wrapping_add(1442695040888963407);
        (self.0 >> 32) as u32
    }
    fn below(&mut self, n: u32) -> u32 {
        self.next() % n
    }
    /// uniform in [0, 1)
    fn unit(&mut self) -> f32 {
        (self.next() >> 8) as f32 / (1u32 << 24) as f32
    }
    fn range(&mut self, lo: f32, hi: f32) -> f32 {
        lo + (hi - lo) * self.unit()
    }
}

const ALL_NOTES: [Note; 12] = [
    Note::C,
    Note::CSHARP,
    Note::D,
    Note::DSHARP,
    Note::E,
    Note::F,
    Note::FSHARP,
    Note::G,
    Note::GSHARP,
    Note::A,
    Note::ASHARP,
    Note::B,
];

fn edge_values() -> [f32; 40] {
    [
        0.0,
        -0.0,
        f32::MIN_POSITIVE,
        -f32::MIN_POSITIVE,
        1.0e-45, // subnormal
        1.0e-7,
        -1.0e-7,
        -1.0,
        -1000.0,
        f32::MIN,
        f32::MAX,
        f32::INFINITY,
        f32::NEG_INFINITY,
        f32::NAN,
        -f32::NAN,
        f32::EPSILON,
        SEMITONE_WIDTH,
        HALF_SEMITONE_WIDTH,
        SEMITONE_WIDTH * 0.1,
        1.0 / NUM_NOTES_PER_OCTAVE,
        0.999_999,
        1.0,
        1.000_001,
        4.999_999,
        5.0,
        9.0,
        9.916_666,
        9.916_667,
        9.958_333,
        9.99,
        9.999_999,
        10.0,
        10.000_001,
        10.008,
        10.05,
        10.09,
        10.091_667,
        10.1,
        11.0,
        4294.967_3,
    ]
}

/// a random (possibly empty, possibly with repeats and out-of-range numbers) list of notes
fn random_notes(rng: &mut Lcg, buf: &mut [Note; 16]) -> usize {
    let len = match rng.below(8) {
        0 => 0,
        1 => 1,
        2 => 12 + rng.below(5) as usize,
        _ => rng.below(8) as usize,
    };
    for slot in buf.iter_mut().take(len) {
        *slot = match rng.below(4) {
            0 => Note::new(rng.below(256) as u8),
            1 => Note::from(rng.below(16) as u8),
            _ => ALL_NOTES[rng.below(12) as usize],
        };
    }
    len
}

/// set the scale of a quantizer to exactly the given 12 bit mask (mask must not be zero)
fn set_scale(q: &mut Quantizer, mask: u16) {
    for (i, n) in ALL_NOTES.iter().enumerate() {
        if (mask >> i) & 1 == 1 {
            q.allow(&[*n]);
        }
    }
    for (i, n) in ALL_NOTES.iter().enumerate() {
        if (mask >> i) & 1 == 0 {
            q.forbid(&[*n]);
        }
    }
}

/// Scenario A: no history, random scales, random and edge inputs
fn scenario_fresh(seed: u64) -> u64 {
    let mut rng = Lcg(seed);
    let mut h = Hasher::new();
    for _ in 0..400 {
        let mask = match rng.below(6) {
            0 => 0x0fff,
            1 => 1 << rng.below(12),
            _ => {
                let m = (rng.next() & 0x0fff) as u16;
                if m == 0 {
                    0x0800
                } else {
                    m
                }
            }
        };
        for _ in 0..120 {
            let v = match rng.below(10) {
                0 => rng.range(-1.0, 0.2),
                1 => rng.range(9.8, 10.3),
                2 => (rng.below(122) as f32) / 12.0,
                3 => (rng.below(122) as f32) / 12.0 + rng.range(-2.0e-5, 2.0e-5),
                _ => rng.range(0.0, 10.0),
            };
            let mut q = Quantizer::new();
            set_scale(&mut q, mask);
            h.scale(&q);
            h.conversion(&q.convert(v));
        }
        for v in edge_values() {
            let mut q = Quantizer::new();
            set_scale(&mut q, mask);
            h.conversion(&q.convert(v));
        }
    }
    h.0
}

/// Scenario B: one long-lived quantizer, random mixture of all public operations
fn scenario_history(seed: u64, steps: u32) -> u64 {
    let mut rng = Lcg(seed);
    let mut h = Hasher::new();
    let mut q = Quantizer::new();
    let mut v = rng.range(0.0, 10.0);
    let mut buf = [Note::C; 16];
    let edges = edge_values();
    for _ in 0..steps {
        match rng.below(32) {
            0 => {
                let len = random_notes(&mut rng, &mut buf);
                q.allow(&buf[..len]);
                h.scale(&q);
            }
            1 | 2 => {
                let len = random_notes(&mut rng, &mut buf);
                q.forbid(&buf[..len]);
                h.scale(&q);
            }
            3 => {
                // try to forbid everything, in a random rotation, the last one must survive
                let rot = rng.below(12) as usize;
                let mut all = ALL_NOTES;
                all.rotate_left(rot);
                q.forbid(&all);
                h.scale(&q);
            }
            4 => {
                q.allow(&ALL_NOTES);
                h.scale(&q);
            }
            5 => {
                let e = edges[rng.below(edges.len() as u32) as usize];
                h.conversion(&q.convert(e));
            }
            6 => {
                // big jump
                v = rng.range(-0.5, 10.5);
                h.conversion(&q.convert(v));
            }
            7 => {
                // sit exactly on / next to a semitone boundary or a hysteresis boundary
                let k = rng.below(122) as f32;
                let off = match rng.below(5) {
                    0 => 0.0,
                    1 => SEMITONE_WIDTH * 0.1,
                    2 => -SEMITONE_WIDTH * 0.1,
                    3 => SEMITONE_WIDTH + SEMITONE_WIDTH * 0.1,
                    _ => HALF_SEMITONE_WIDTH,
                };
                v = k / 12.0 + off;
                let bits = v.to_bits() as i64 + rng.below(7) as i64 - 3;
                let nudged = f32::from_bits(bits.max(0) as u32);
                h.conversion(&q.convert(nudged));
            }
            8 => {
                h.byte(u8::from(Note::new(rng.below(256) as u8)));
                h.byte(u8::from(Note::from(rng.below(256) as u8)));
                let c = Conversion::new();
                h.conversion(&c);
            }
            9..=20 => {
                // small noise, mostly inside the hysteresis window
                v += rng.range(-0.012, 0.012);
                h.conversion(&q.convert(v));
            }
            _ => {
                // slow drift
                v += rng.range(-0.05, 0.06);
                if !(-0.5..=10.5).contains(&v) {
                    v = rng.range(0.0, 10.0);
                }
                h.conversion(&q.convert(v));
            }
        }
    }
    h.scale(&q);
    h.0
}

/// Scenario C: exhaustive walk over all semitone and hysteresis boundaries, with history, for several scales
fn scenario_boundaries(seed: u64) -> u64 {
    let mut rng = Lcg(seed);
    let mut h = Hasher::new();
    let masks: [u16; 8] = [
        0x0fff, 0x0001, 0x0800, 0x0ab5, 0x054a, 0x0081, 0x0810, 0x0008,
    ];
    for mask in masks {
        let mut q = Quantizer::new();
        set_scale(&mut q, mask);
        for k in 0..=121u32 {
            let centre = k as f32 / 12.0;
            for off in [
                -SEMITONE_WIDTH * 0.1,
                0.0,
                SEMITONE_WIDTH * 0.1,
                HALF_SEMITONE_WIDTH,
                SEMITONE_WIDTH,
                SEMITONE_WIDTH + SEMITONE_WIDTH * 0.1,
            ] {
                let base = centre + off;
                for d in -2i64..=2 {
                    let bits = (base.to_bits() as i64 + d).max(0) as u32;
                    h.conversion(&q.convert(f32::from_bits(bits)));
                }
            }
            if rng.below(4) == 0 {
                // change the scale under the cached conversion, input stays put
                let m = (rng.next() & 0x0fff) as u16;
                set_scale(&mut q, if m == 0 { mask } else { m });
                h.scale(&q);
                h.conversion(&q.convert(centre));
                set_scale(&mut q, mask);
                h.conversion(&q.convert(centre));
            }
        }
        // and back down again
        for k in (0..=121u32).rev() {
            let centre = k as f32 / 12.0;
            h.conversion(&q.convert(centre + rng.range(-0.01, 0.01)));
        }
    }
    h.0
}

#[test]
fn quantizer_differential_hash() {
    let mut total = Hasher::new();

    let a1 = scenario_fresh(0x1234_5678_9abc_def0);
    let a2 = scenario_fresh(42);
    let b1 = scenario_history(1, 400_000);
    let b2 = scenario_history(0xdead_beef_cafe_f00d, 400_000);
    let b3 = scenario_history(7_777_777, 400_000);
    let c1 = scenario_boundaries(99);

    for x in [a1, a2, b1, b2, b3, c1] {
        total.u64(x);
    }

    println!("QHASH fresh      {a1:016x} {a2:016x}");
    println!("QHASH history    {b1:016x} {b2:016x} {b3:016x}");
    println!("QHASH boundaries {c1:016x}");
    println!("QHASH TOTAL      {:016x}", total.0);
}
