//! Differential test for the glide processor (and the private helpers in `utils`, which are only observable
//! through the glide processor, the LFO and the ADSR).
//!
//! It drives the public API with long pseudo-random call sequences (LCG, fixed seeds, edge values) and hashes the bit
//! pattern of every observable output. Copy it to `tests/diff_test.rs` and run
//! `cargo test --offline --test diff_test -- --nocapture` (and the same with `--release`); the printed hashes must be
//! identical for the clean crate and for every behaviour-preserving change.

use std::panic::{catch_unwind, AssertUnwindSafe};
use synth_utils::adsr::{self, Adsr};
use synth_utils::glide_processor::GlideProcessor;
use synth_utils::lfo::{Lfo, Waveshape};

/// Two FNV-1a (64 bit) hashes side by side: `raw` hashes the exact bit pattern of every f32, `canon` hashes every NaN
/// as the one canonical quiet NaN. (The sign and payload of a NaN produced by an arithmetic operation are not
/// specified by Rust and do differ between a debug and a release build of the *unchanged* crate, so `canon` is the
/// hash that is comparable across profiles, `raw` only within one profile.)
struct Hash {
    raw: u64,
    canon: u64,
}

fn fnv(state: &mut u64, b: u8) {
    *state ^= u64::from(b);
    *state = state.wrapping_mul(0x0000_0100_0000_01b3);
}

impl Hash {
    fn new() -> Self {
        Hash {
            raw: 0xcbf2_9ce4_8422_2325,
            canon: 0xcbf2_9ce4_8422_2325,
        }
    }
    fn byte(&mut self, b: u8) {
        fnv(&mut self.raw, b);
        fnv(&mut self.canon, b);
    }
    fn f32(&mut self, v: f32) {
        let canon = if v.is_nan() { 0x7fc0_0000 } else { v.to_bits() };
        for b in v.to_bits().to_le_bytes() {
            fnv(&mut self.raw, b);
        }
        for b in canon.to_le_bytes() {
            fnv(&mut self.canon, b);
        }
    }
    fn str(&mut self, s: &str) {
        for b in s.bytes() {
            self.byte(b);
        }
        self.byte(0xff);
    }
    fn show(&self) -> String {
        format!("raw={:016x} canon={:016x}", self.raw, self.canon)
    }
}

/// the classic 64 bit LCG (Knuth's MMIX constants), the high bits are used
struct Lcg(u64);

impl Lcg {
    fn next(&mut self) -> u32 {
        self.0 = self
            .0
            .wrapping_mul(6364136223846793005)
            .wrapping_add(1442695040888963407);
        (self.0 >> 32) as u32
    }
    fn below(&mut self, n: u32) -> u32 {
        self.next() % n
    }
    /// uniform in `[0, 1)`
    fn unit(&mut self) -> f32 {
        (self.next() >> 8) as f32 / 16_777_216.0_f32
    }
    fn pick(&mut self, vals: &[f32]) -> f32 {
        vals[self.below(vals.len() as u32) as usize]
    }
}

const EDGE_TIMES: [f32; 30] = [
    0.0,
    -0.0,
    f32::MIN_POSITIVE,
    1.0e-45,
    1.0e-9,
    1.0e-5,
    2.0e-5,
    0.001,
    0.01,
    0.04,
    0.049_999_997,
    0.05,
    0.050_000_004,
    0.1,
    0.5,
    1.0,
    2.0,
    9.95,
    10.0,
    10.05,
    11.0,
    1.0e9,
    f32::MAX,
    f32::INFINITY,
    -1.0e-9,
    -0.05,
    -1.0,
    -1.0e9,
    f32::NEG_INFINITY,
    f32::NAN,
];

const EDGE_VALS: [f32; 16] = [
    0.0,
    -0.0,
    1.0,
    -1.0,
    0.5,
    10.0,
    -10.0,
    1.0e-30,
    -1.0e-30,
    1.0e-45,
    1.0e20,
    -1.0e20,
    f32::MAX,
    f32::MIN,
    f32::MIN_POSITIVE,
    127.0 / 12.0,
];

const NON_FINITE_VALS: [f32; 4] = [
    f32::NAN,
    f32::INFINITY,
    f32::NEG_INFINITY,
    -f32::NAN,
];

const GOOD_RATES: [f32; 14] = [
    100.0,
    100.5,
    441.0,
    1_000.0,
    8_000.0,
    44_100.0,
    48_000.0,
    96_000.0,
    192_000.0,
    1.0,
    0.25,
    1.0e-3,
    3.0e9,
    f32::INFINITY,
];

const BAD_RATES: [f32; 8] = [
    0.0,
    -0.0,
    -1.0,
    -48_000.0,
    f32::NAN,
    f32::NEG_INFINITY,
    1.0e-45, // a quarter of this rounds to zero
    -1.0e-45,
];

fn panic_text(e: Box<dyn std::any::Any + Send>) -> String {
    if let Some(s) = e.downcast_ref::<String>() {
        s.clone()
    } else if let Some(s) = e.downcast_ref::<&'static str>() {
        (*s).to_string()
    } else {
        String::from("<non-string panic payload>")
    }
}

/// one long random call history on a single glide processor
fn drive_glide(h: &mut Hash, rng: &mut Lcg, sample_rate: f32, steps: u32, allow_non_finite_input: bool) {
    let mut gp = GlideProcessor::new(sample_rate);

    // the time which the processor most probably has in effect, used to aim at the edges of the 0.05 s dead band
    let mut last_t = -1.0_f32;
    let mut held = 0.0_f32;

    for _ in 0..steps {
        match rng.below(16) {
            0 => {
                let t = rng.pick(&EDGE_TIMES);
                gp.set_time(t);
                last_t = t;
            }
            1 => {
                let t = rng.unit() * 10.0;
                gp.set_time(t);
                last_t = t;
            }
            2 => {
                // close to the last time, around the dead band edges, one ulp more or less
                let offs = [0.0_f32, 0.05, -0.05, 0.049, -0.049, 0.051, -0.051, 0.1, -0.1];
                let mut t = last_t + rng.pick(&offs);
                match rng.below(3) {
                    0 => t = f32::from_bits(t.to_bits().wrapping_add(1)),
                    1 => t = f32::from_bits(t.to_bits().wrapping_sub(1)),
                    _ => {}
                }
                gp.set_time(t);
                // deliberately do not always track it, the dead band makes it history dependent anyway
                if rng.below(2) == 0 {
                    last_t = t;
                }
            }
            3 => {
                // very short times, around "two samples"
                let t = rng.unit() * 8.0 / sample_rate;
                gp.set_time(t);
                last_t = t;
            }
            4 => {
                held = rng.pick(&EDGE_VALS);
                h.f32(gp.process(held));
            }
            5 => {
                held = (rng.unit() - 0.5) * 20.0;
                h.f32(gp.process(held));
            }
            6 => {
                if allow_non_finite_input && rng.below(64) == 0 {
                    held = rng.pick(&NON_FINITE_VALS);
                }
                h.f32(gp.process(held));
            }
            7 => {
                // a burst at the held value
                for _ in 0..rng.below(40) {
                    h.f32(gp.process(held));
                }
            }
            8 => {
                // a noisy staircase, like a keyboard CV
                held = rng.below(128) as f32 / 12.0;
                h.f32(gp.process(held + (rng.unit() - 0.5) * 1.0e-3));
            }
            _ => {
                h.f32(gp.process(held));
            }
        }
    }
}

/// the step response for a grid of times: checks the "time means what it says" path bit for bit
fn step_responses(h: &mut Hash) {
    for &sr in &[100.0_f32, 1_000.0, 48_000.0, 192_000.0] {
        for &t in &[0.0_f32, 1.0e-5, 0.01, 0.06, 0.5, 1.0, 3.3, 10.0, 20.0, 1.0e9] {
            let mut gp = GlideProcessor::new(sr);
            gp.set_time(t);
            for _ in 0..50 {
                h.f32(gp.process(0.0));
            }
            for _ in 0..3_000 {
                h.f32(gp.process(1.0));
            }
            // change in mid-glide, and one that is inside the dead band
            gp.set_time(t + 0.04);
            gp.set_time(t * 0.5);
            for _ in 0..1_000 {
                h.f32(gp.process(-2.5));
            }
        }
    }
}

/// construction with unusable sample rates: the outcome (panic or not, and the message) must not change
fn bad_constructions(h: &mut Hash) {
    let prev_hook = std::panic::take_hook();
    std::panic::set_hook(Box::new(|_| {}));

    for &sr in BAD_RATES.iter().chain(GOOD_RATES.iter()) {
        let res = catch_unwind(AssertUnwindSafe(|| {
            let mut gp = GlideProcessor::new(sr);
            let a = gp.process(1.0);
            gp.set_time(0.5);
            let b = gp.process(1.0);
            gp.set_time(0.0);
            let c = gp.process(1.0);
            (a, b, c)
        }));
        match res {
            Ok((a, b, c)) => {
                h.byte(1);
                h.f32(a);
                h.f32(b);
                h.f32(c);
            }
            Err(e) => {
                h.byte(2);
                h.str(&panic_text(e));
            }
        }
    }

    std::panic::set_hook(prev_hook);
}

const SHAPES: [Waveshape; 5] = [
    Waveshape::Sine,
    Waveshape::Triangle,
    Waveshape::UpSaw,
    Waveshape::DownSaw,
    Waveshape::Square,
];

/// the LFO uses `utils::linear_interp` and `utils::ilog_2`
fn drive_lfo(h: &mut Hash, rng: &mut Lcg, sample_rate: f32, steps: u32) {
    let mut lfo = Lfo::new(sample_rate);
    for _ in 0..steps {
        match rng.below(32) {
            0 => lfo.set_frequency(rng.unit() * sample_rate),
            1 => lfo.set_frequency(rng.unit() * 20.0),
            2 => lfo.set_frequency(rng.pick(&[0.0, 1.0e-3, 0.1, 1.0, 7.3])),
            3 => lfo.reset(),
            4 => lfo.set_phase(rng.unit()),
            5 => lfo.set_phase((rng.unit() - 0.5) * 64.0),
            6 => lfo.set_phase(rng.pick(&[0.0, 0.25, 0.5, 0.75, 1.0, -0.25, 0.999_999_94, 1.0e-7])),
            _ => lfo.tick(),
        }
        for shape in SHAPES {
            h.f32(lfo.get(shape));
        }
    }
}

/// the ADSR uses `utils::linear_interp` and `utils::ilog_2`
fn drive_adsr(h: &mut Hash, rng: &mut Lcg, sample_rate: f32, steps: u32) {
    let mut env = Adsr::new(sample_rate);
    let times = [
        0.0_f32,
        -1.0,
        0.001,
        0.002,
        0.01,
        0.1,
        1.0,
        20.0,
        1.0e9,
        f32::NAN,
        f32::INFINITY,
    ];
    let levels = [0.0_f32, 1.0, 0.5, -3.0, 7.0, f32::NAN, 0.999];
    for _ in 0..steps {
        match rng.below(64) {
            0 | 1 => env.gate_on(),
            2 | 3 => env.gate_off(),
            4 => env.set_input(adsr::Input::Attack(rng.pick(&times).into())),
            5 => env.set_input(adsr::Input::Decay(rng.pick(&times).into())),
            6 => env.set_input(adsr::Input::Release(rng.pick(&times).into())),
            7 => env.set_input(adsr::Input::Sustain(rng.pick(&levels).into())),
            8 => env.set_input(adsr::Input::Attack((rng.unit() * 0.05).into())),
            9 => env.set_input(adsr::Input::Decay((rng.unit() * 0.05).into())),
            10 => env.set_input(adsr::Input::Release((rng.unit() * 0.05).into())),
            11 => env.set_input(adsr::Input::Sustain(rng.unit().into())),
            _ => env.tick(),
        }
        h.f32(env.value());
    }
}

fn glide_hash() -> Hash {
    let mut h = Hash::new();

    // finite inputs only: the filter state stays meaningful for the whole history
    for (i, &sr) in GOOD_RATES.iter().enumerate() {
        for seed in 0..3_u64 {
            let mut rng = Lcg(0x9e37_79b9_7f4a_7c15 ^ (seed << 20) ^ (i as u64));
            drive_glide(&mut h, &mut rng, sr, 40_000, false);
        }
    }

    // many short histories which may also receive NaN and infinities
    let mut rng = Lcg(20_261_005);
    for _ in 0..600 {
        let sr = rng.pick(&GOOD_RATES);
        drive_glide(&mut h, &mut rng, sr, 400, true);
    }

    step_responses(&mut h);
    bad_constructions(&mut h);
    h
}

fn neighbours_hash() -> Hash {
    let mut h = Hash::new();
    for (i, &sr) in [100.0_f32, 1_000.0, 44_100.0, 192_000.0].iter().enumerate() {
        let mut rng = Lcg(0xdead_beef_0000_0001 + i as u64);
        drive_lfo(&mut h, &mut rng, sr, 60_000);
        drive_adsr(&mut h, &mut rng, sr, 120_000);
    }
    h
}

#[test]
fn differential_hash() {
    let profile = if cfg!(debug_assertions) { "debug" } else { "release" };
    println!("DIFF_HASH {profile} glide: {}", glide_hash().show());
    println!("DIFF_HASH {profile} lfo+adsr: {}", neighbours_hash().show());
}
