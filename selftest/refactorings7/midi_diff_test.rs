//! Differential test for `synth_utils::mono_midi_receiver`.
//!
//! Drives the receiver with long pseudo-random byte / call sequences (fixed-seed LCG) and folds every observable
//! output into an FNV-1a hash after every single call.  The hashes are printed (`--nocapture`) and also compared with
//! the values obtained from the unmodified crate, so the test fails if any observable output differs anywhere.
//!
//! Run as an integration test: copy to `tests/diff_test.rs` and
//! `cargo test --offline --test diff_test -- --nocapture` (and the same with `--release`).

use synth_utils::mono_midi_receiver::{MonoMidiReceiver, NotePriority, RetriggerMode};

struct Lcg(u64);

impl Lcg {
    fn next(&mut self) -> u32 {
        self.0 = self
            .0
            .wrapping_mul(6364136223846793005)
            .wrapping_add(1442695040888963407);
        (self.0 >> 33) as u32
    }
    fn below(&mut self, n: u32) -> u32 {
        self.next() % n
    }
    fn byte(&mut self) -> u8 {
        (self.next() >> 7) as u8
    }
}

struct Fnv(u64);

impl Fnv {
    fn new() -> Self {
        Fnv(0xcbf29ce484222325)
    }
    fn u8(&mut self, b: u8) {
        self.0 ^= b as u64;
        self.0 = self.0.wrapping_mul(0x100000001b3);
    }
    fn u32(&mut self, v: u32) {
        for b in v.to_le_bytes() {
            self.u8(b);
        }
    }
    fn f32(&mut self, v: f32) {
        self.u32(v.to_bits());
    }
    fn bool(&mut self, v: bool) {
        self.u8(v as u8);
    }
}

/// hash every output that can be read without changing the state
fn observe(h: &mut Fnv, mr: &MonoMidiReceiver) {
    h.u8(mr.note_num());
    h.f32(mr.velocity());
    h.f32(mr.pitch_bend());
    h.f32(mr.mod_wheel());
    h.f32(mr.volume());
    h.f32(mr.vcf_cutoff());
    h.f32(mr.vcf_resonance());
    h.f32(mr.portamento_time());
    h.bool(mr.portamento_enabled());
    h.bool(mr.sustain_enabled());
    h.bool(mr.gate());
}

/// read the self-clearing edge flags now and then (reading them is itself part of the call history)
fn poll_edges(h: &mut Fnv, rng: &mut Lcg, mr: &mut MonoMidiReceiver) {
    match rng.below(8) {
        0 => h.bool(mr.rising_gate()),
        1 => h.bool(mr.falling_gate()),
        2 => {
            h.bool(mr.rising_gate());
            h.bool(mr.falling_gate());
            h.bool(mr.rising_gate());
            h.bool(mr.falling_gate());
        }
        3 => {
            h.bool(mr.falling_gate());
            h.bool(mr.rising_gate());
        }
        _ => (),
    }
    observe(h, mr);
}

fn reconfigure(rng: &mut Lcg, mr: &mut MonoMidiReceiver) {
    match rng.below(5) {
        0 => mr.set_retrigger_mode(RetriggerMode::AllowRetrigger),
        1 => mr.set_retrigger_mode(RetriggerMode::NoRetrigger),
        2 => mr.set_note_priority(NotePriority::Last),
        3 => mr.set_note_priority(NotePriority::High),
        _ => mr.set_note_priority(NotePriority::Low),
    }
}

fn feed(h: &mut Fnv, rng: &mut Lcg, mr: &mut MonoMidiReceiver, byte: u8) {
    mr.parse(byte);
    observe(h, mr);
    poll_edges(h, rng, mr);
}

const EDGE_BYTES: [u8; 16] = [
    0, 1, 63, 64, 65, 126, 127, 128, 0x79, 0x7B, 0xF0, 0xF7, 0xF8, 0xFE, 0xFF, 0x40,
];
const CCS: [u8; 14] = [
    0x01, 0x07, 0x47, 0x4A, 0x05, 0x41, 0x40, 0x79, 0x7B, 0x00, 0x02, 0x7A, 0x7C, 0x78,
];

/// completely unstructured bytes, biased towards status bytes and edge values
fn run_raw(seed: u64, channel: u8, steps: usize) -> u64 {
    let mut rng = Lcg(seed);
    let mut h = Fnv::new();
    let mut mr = MonoMidiReceiver::new(channel);
    observe(&mut h, &mr);
    h.bool(mr.rising_gate());
    h.bool(mr.falling_gate());
    for _ in 0..steps {
        if rng.below(97) == 0 {
            reconfigure(&mut rng, &mut mr);
        }
        let b = match rng.below(6) {
            0 => EDGE_BYTES[rng.below(EDGE_BYTES.len() as u32) as usize],
            1 => 0x80 | rng.byte(),                              // any status byte
            2 => 0x80 | ((rng.below(7) as u8) << 4) | channel.min(15), // channel-voice status on our channel
            3 => rng.byte() & 0x7F,                              // any data byte
            4 => rng.byte() & 0x0F,                              // a small data byte: few distinct notes
            _ => rng.byte(),
        };
        feed(&mut h, &mut rng, &mut mr, b);
    }
    h.0
}

/// well-formed messages (with running status, real-time bytes in between, other channels, aborted messages)
fn run_structured(seed: u64, channel: u8, steps: usize, note_span: u32) -> u64 {
    let mut rng = Lcg(seed);
    let mut h = Fnv::new();
    let mut mr = MonoMidiReceiver::new(channel);
    let own = channel.min(15);
    let mut last_status = 0u8;
    observe(&mut h, &mr);
    for _ in 0..steps {
        if rng.below(41) == 0 {
            reconfigure(&mut rng, &mut mr);
        }
        let ch = if rng.below(8) == 0 { rng.byte() & 0x0F } else { own };
        let note = (30 + rng.below(note_span)) as u8 & 0x7F;
        let (status, d1, d2): (u8, u8, Option<u8>) = match rng.below(16) {
            0..=5 => {
                let vel = match rng.below(6) {
                    0 => 0,
                    1 => 1,
                    2 => 127,
                    _ => rng.byte() & 0x7F,
                };
                (0x90 | ch, note, Some(vel))
            }
            6..=9 => (0x80 | ch, note, Some(rng.byte() & 0x7F)),
            10..=12 => {
                let cc = if rng.below(4) == 0 {
                    rng.byte() & 0x7F
                } else {
                    CCS[rng.below(CCS.len() as u32) as usize]
                };
                let v = match rng.below(6) {
                    0 => 0,
                    1 => 63,
                    2 => 64,
                    3 => 127,
                    _ => rng.byte() & 0x7F,
                };
                (0xB0 | ch, cc, Some(v))
            }
            13 => {
                let (l, m) = match rng.below(5) {
                    0 => (0, 0),
                    1 => (0, 64),
                    2 => (127, 127),
                    3 => (127, 63),
                    _ => (rng.byte() & 0x7F, rng.byte() & 0x7F),
                };
                (0xE0 | ch, l, Some(m))
            }
            14 => (0xC0 | ch, rng.byte() & 0x7F, None), // program change, unsupported
            _ => (0xA0 | ch, note, Some(rng.byte() & 0x7F)), // poly pressure, unsupported
        };
        // running status: leave the status byte out sometimes when it repeats
        if !(status == last_status && rng.below(2) == 0) {
            feed(&mut h, &mut rng, &mut mr, status);
            last_status = status;
        }
        if rng.below(6) == 0 {
            let rt = 0xF8 | (rng.byte() & 0x07);
            feed(&mut h, &mut rng, &mut mr, rt); // real-time byte inside a message
        }
        feed(&mut h, &mut rng, &mut mr, d1);
        if rng.below(29) == 0 {
            continue; // abort the message after the first data byte
        }
        if rng.below(6) == 0 {
            feed(&mut h, &mut rng, &mut mr, 0xFE);
        }
        if let Some(d2) = d2 {
            feed(&mut h, &mut rng, &mut mr, d2);
        }
        if rng.below(53) == 0 {
            // system exclusive / system common cancels running status
            feed(&mut h, &mut rng, &mut mr, 0xF0);
            for _ in 0..rng.below(5) {
                let b = rng.byte() & 0x7F;
                feed(&mut h, &mut rng, &mut mr, b);
            }
            feed(&mut h, &mut rng, &mut mr, 0xF7);
            last_status = 0;
        }
    }
    h.0
}

/// more than 32 keys held at once, then released in various orders, under every priority / retrigger mode
fn run_overflow(seed: u64) -> u64 {
    let mut rng = Lcg(seed);
    let mut h = Fnv::new();
    for round in 0..60u32 {
        let mut mr = MonoMidiReceiver::new(round as u8 % 20);
        let ch = (round as u8 % 20).min(15);
        reconfigure(&mut rng, &mut mr);
        reconfigure(&mut rng, &mut mr);
        let n = 28 + rng.below(12);
        feed(&mut h, &mut rng, &mut mr, 0x90 | ch);
        for i in 0..n {
            let note = if rng.below(5) == 0 { 60 } else { (20 + (i * 7 + round) % 90) as u8 };
            feed(&mut h, &mut rng, &mut mr, note);
            let vel = 1 + (rng.byte() % 127);
            feed(&mut h, &mut rng, &mut mr, vel);
        }
        match rng.below(3) {
            0 => {
                feed(&mut h, &mut rng, &mut mr, 0xB0 | ch);
                feed(&mut h, &mut rng, &mut mr, 0x7B);
                feed(&mut h, &mut rng, &mut mr, 0);
            }
            1 => {
                feed(&mut h, &mut rng, &mut mr, 0x80 | ch);
                for note in 0..128u32 {
                    feed(&mut h, &mut rng, &mut mr, note as u8);
                    feed(&mut h, &mut rng, &mut mr, 64);
                }
            }
            _ => {
                for note in (0..128u32).rev() {
                    feed(&mut h, &mut rng, &mut mr, note as u8);
                    feed(&mut h, &mut rng, &mut mr, 0); // note-on with velocity 0
                }
            }
        }
        h.bool(mr.rising_gate());
        h.bool(mr.falling_gate());
        observe(&mut h, &mr);
    }
    h.0
}

fn all_hashes() -> [u64; 4] {
    let mut raw = Fnv::new();
    let mut structured = Fnv::new();
    let mut narrow = Fnv::new();
    for (i, ch) in [0u8, 1, 7, 15, 16, 200, 255, 9].into_iter().enumerate() {
        let seed = 0x5EED_0000 + 7919 * i as u64;
        for b in run_raw(seed, ch, 120_000).to_le_bytes() {
            raw.u8(b);
        }
        for b in run_structured(seed ^ 0xABCDEF, ch, 60_000, 60).to_le_bytes() {
            structured.u8(b);
        }
        for b in run_structured(seed ^ 0x123457, ch, 60_000, 4).to_le_bytes() {
            narrow.u8(b);
        }
    }
    [raw.0, structured.0, narrow.0, run_overflow(0xF00D)]
}

// hashes obtained from the unmodified crate (identical in debug and release builds)
const EXPECTED: [u64; 4] = [
    0xeea2220e16e9d480,
    0x0f306d647c21724e,
    0x82c75c6fe6aef9eb,
    0x1756059013232c51,
];

#[test]
fn mono_midi_receiver_outputs_are_unchanged() {
    let got = all_hashes();
    println!(
        "DIFFHASH raw={:016x} structured={:016x} narrow={:016x} overflow={:016x}",
        got[0], got[1], got[2], got[3]
    );
    if EXPECTED != [0, 0, 0, 0] {
        assert_eq!(got, EXPECTED);
    }
}
