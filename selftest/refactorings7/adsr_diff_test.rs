//! Differential test for src/adsr.rs and src/phase_accumulator.rs (the latter is reached through `Adsr` and `Lfo`).
//!
//! Uses only the public API of `synth_utils`. Every observable output (returned f32 bit patterns, `Debug` text,
//! `PartialEq` results, and whether a call panicked) is folded into an FNV-1a hash, one hash per scenario.
//! Run with `cargo test --offline --test diff_test -- --nocapture` (and again with `--release`); the printed
//! `DIFFHASH` lines must be identical between the clean crate and every refactored variant of the same profile.

use std::fmt::Write as _;
use std::panic::{catch_unwind, AssertUnwindSafe};

use synth_utils::adsr::{
    Adsr, Input, State, SustainLevel, TimePeriod, MAX_TIME_PERIOD_SEC, MIN_TIME_PERIOD_SEC,
};
use synth_utils::lfo::{Lfo, Waveshape};

struct Fnv(u64);

impl Fnv {
    fn new() -> Self {
        Fnv(0xcbf2_9ce4_8422_2325)
    }
    fn byte(&mut self, b: u8) {
        self.0 ^= b as u64;
        self.0 = self.0.wrapping_mul(0x0000_0100_0000_01b3);
    }
    fn u32(&mut self, v: u32) {
        for b in v.to_le_bytes() {
            self.byte(b);
        }
    }
    fn f32(&mut self, v: f32) {
        self.u32(v.to_bits());
    }
    fn bool(&mut self, v: bool) {
        self.byte(v as u8 + 1);
    }
    fn str(&mut self, s: &str) {
        for b in s.bytes() {
            self.byte(b);
        }
        self.byte(0xff);
    }
    fn dbg<T: core::fmt::Debug>(&mut self, buf: &mut String, v: &T) {
        buf.clear();
        write!(buf, "{:?}", v).unwrap();
        let s = core::mem::take(buf);
        self.str(&s);
        *buf = s;
    }
}

struct Lcg(u64);

impl Lcg {
    fn next(&mut self) -> u32 {
        self.0 = self
            .0
            .wrapping_mul(6364136223846793005)
            .wrapping_add(1442695040888963407);
        (self.0 >> 32) as u32
    }
    fn below(&mut self, n: u32) -> u32 {
        self.next() % n
    }
    fn unit(&mut self) -> f32 {
        (self.next() >> 8) as f32 / (1u32 << 24) as f32
    }
}

const EDGE: [f32; 30] = [
    0.0,
    -0.0,
    1.0,
    -1.0,
    0.5,
    0.001,
    0.000_999_9,
    0.001_000_1,
    20.0,
    19.999_998,
    20.000_002,
    1.0e-30,
    -1.0e-30,
    1.0e30,
    -1.0e30,
    f32::MIN_POSITIVE,
    1.0e-45,
    f32::MAX,
    f32::MIN,
    f32::EPSILON,
    0.999_999_94,
    1.000_000_1,
    0.25,
    0.75,
    3.0,
    1234.5,
    f32::NAN,
    f32::INFINITY,
    f32::NEG_INFINITY,
    -7.25,
];

/// a time value: mostly short, sometimes long, sometimes an edge value or an arbitrary bit pattern
fn some_time(r: &mut Lcg) -> f32 {
    match r.below(16) {
        0..=7 => 0.001 + 0.02 * r.unit(),
        8..=10 => 0.3 * r.unit(),
        11 => 20.0 * r.unit(),
        12 => 40.0 * r.unit() - 10.0,
        13 => f32::from_bits(r.next()),
        _ => EDGE[r.below(EDGE.len() as u32) as usize],
    }
}

fn some_level(r: &mut Lcg) -> f32 {
    match r.below(8) {
        0..=3 => r.unit(),
        4 => 3.0 * r.unit() - 1.0,
        5 => f32::from_bits(r.next()),
        _ => EDGE[r.below(EDGE.len() as u32) as usize],
    }
}

/// runs `f`, hashing whether it panicked; the object is kept in use afterwards on purpose
fn guarded<R>(h: &mut Fnv, f: impl FnOnce() -> R) -> Option<R> {
    match catch_unwind(AssertUnwindSafe(f)) {
        Ok(r) => {
            h.byte(0xA1);
            Some(r)
        }
        Err(_) => {
            h.byte(0xEE);
            None
        }
    }
}

fn adsr_random(h: &mut Fnv, sample_rate: f32, seed: u64, ops: u32) {
    let mut r = Lcg(seed);
    let mut buf = String::new();
    let mut adsr = Adsr::new(sample_rate);
    h.dbg(&mut buf, &adsr);
    h.f32(adsr.value());
    for i in 0..ops {
        match r.below(64) {
            0 | 1 => adsr.gate_on(),
            2 | 3 => adsr.gate_off(),
            4 => {
                // double event without a tick in between
                adsr.gate_on();
                h.f32(adsr.value());
                adsr.gate_off();
            }
            5 => {
                adsr.gate_off();
                h.f32(adsr.value());
                adsr.gate_on();
            }
            6 => {
                let inp = Input::Attack(some_time(&mut r).into());
                h.dbg(&mut buf, &inp);
                adsr.set_input(inp);
            }
            7 => {
                let inp = Input::Decay(some_time(&mut r).into());
                h.dbg(&mut buf, &inp);
                adsr.set_input(inp);
            }
            8 => {
                let inp = Input::Sustain(some_level(&mut r).into());
                h.dbg(&mut buf, &inp);
                adsr.set_input(inp);
            }
            9 => {
                let inp = Input::Release(some_time(&mut r).into());
                h.dbg(&mut buf, &inp);
                adsr.set_input(inp);
            }
            10 => {
                // a copy must behave like the original
                let mut c = adsr;
                guarded(h, || c.tick());
                h.f32(c.value());
                let mut d = adsr.clone();
                d.gate_on();
                guarded(h, || d.tick());
                h.f32(d.value());
            }
            _ => {
                guarded(h, || adsr.tick());
            }
        }
        h.f32(adsr.value());
        if i < 3000 || i % 61 == 0 {
            h.dbg(&mut buf, &adsr);
        }
    }
    h.dbg(&mut buf, &adsr);
}

/// one complete envelope with fixed settings, every sample hashed, `Debug` text hashed sparsely
fn adsr_cycle(h: &mut Fnv, sample_rate: f32, a: f32, d: f32, s: f32, rel: f32, hold: u32) {
    let mut buf = String::new();
    let mut adsr = Adsr::new(sample_rate);
    adsr.set_input(Input::Attack(a.into()));
    adsr.set_input(Input::Decay(d.into()));
    adsr.set_input(Input::Sustain(s.into()));
    adsr.set_input(Input::Release(rel.into()));
    let limit: u64 = 3 * 20 * 192_000 + 1_000_000;
    let mut n: u64 = 0;
    adsr.gate_on();
    // run until the Debug text says Sustain (the state is only visible through Debug)
    loop {
        adsr.tick();
        h.f32(adsr.value());
        n += 1;
        if n % 4099 == 0 {
            h.dbg(&mut buf, &adsr);
        }
        buf.clear();
        if n % 16 == 0 || n < 64 {
            write!(buf, "{:?}", adsr).unwrap();
            if buf.contains("state: Sustain") {
                break;
            }
        }
        assert!(n < limit, "envelope never reached sustain");
    }
    h.u32(n as u32);
    for _ in 0..hold {
        adsr.tick();
        h.f32(adsr.value());
    }
    adsr.gate_off();
    loop {
        adsr.tick();
        h.f32(adsr.value());
        n += 1;
        if n % 4099 == 0 {
            h.dbg(&mut buf, &adsr);
        }
        buf.clear();
        if n % 16 == 0 {
            write!(buf, "{:?}", adsr).unwrap();
            if buf.contains("state: AtRest") {
                break;
            }
        }
        assert!(n < 2 * limit, "envelope never came to rest");
    }
    h.u32(n as u32);
    h.dbg(&mut buf, &adsr);
}

fn conversions(h: &mut Fnv) {
    let mut buf = String::new();
    let mut r = Lcg(0x5EED_C0DE);
    h.f32(MIN_TIME_PERIOD_SEC);
    h.f32(MAX_TIME_PERIOD_SEC);
    let mut one = |h: &mut Fnv, v: f32| {
        let t = TimePeriod::from(v);
        let s = SustainLevel::from(v);
        h.f32(f32::from(t));
        h.f32(f32::from(s));
        let t2: TimePeriod = v.into();
        let s2: SustainLevel = v.into();
        h.bool(t == t2);
        h.bool(s == s2);
        h.bool(t == TimePeriod::from(MIN_TIME_PERIOD_SEC));
        h.bool(t == TimePeriod::from(MAX_TIME_PERIOD_SEC));
        h.bool(s == SustainLevel::from(0.0));
        h.bool(s == SustainLevel::from(1.0));
        h.bool(Input::Attack(t) == Input::Decay(t));
        h.bool(Input::Release(t) == Input::Release(t2));
        h.bool(Input::Sustain(s) == Input::Sustain(s2));
        h.dbg(&mut buf, &t);
        h.dbg(&mut buf, &s);
        h.dbg(&mut buf, &Input::Release(t));
    };
    for v in EDGE {
        one(h, v);
        one(h, -v);
    }
    for _ in 0..200_000 {
        let v = f32::from_bits(r.next());
        one(h, v);
    }
    for st in [
        State::AtRest,
        State::Attack,
        State::Decay,
        State::Sustain,
        State::Release,
    ] {
        h.dbg(&mut buf, &st);
        h.bool(st == State::Decay);
        h.bool(st.clone() == st);
    }
}

const SHAPES: [Waveshape; 5] = [
    Waveshape::Sine,
    Waveshape::Triangle,
    Waveshape::UpSaw,
    Waveshape::DownSaw,
    Waveshape::Square,
];

fn lfo_random(h: &mut Fnv, sample_rate: f32, seed: u64, ops: u32) {
    let mut r = Lcg(seed);
    let mut buf = String::new();
    let mut lfo = Lfo::new(sample_rate);
    let mut shadow = lfo;
    h.dbg(&mut buf, &lfo);
    for i in 0..ops {
        match r.below(48) {
            0 => {
                let f = match r.below(8) {
                    0 => EDGE[r.below(EDGE.len() as u32) as usize],
                    1 => f32::from_bits(r.next()),
                    2 => sample_rate,
                    3 => sample_rate * 0.5,
                    4 => sample_rate * r.unit() * 3.0,
                    _ => sample_rate * r.unit() * r.unit() * 0.2,
                };
                h.f32(f);
                guarded(h, || lfo.set_frequency(f));
            }
            1 => lfo.reset(),
            2 | 3 => {
                let p = match r.below(8) {
                    0 | 1 => EDGE[r.below(EDGE.len() as u32) as usize],
                    2 => f32::from_bits(r.next()),
                    3 => 2000.0 * r.unit() - 1000.0,
                    4 => -r.unit(),
                    _ => r.unit(),
                };
                h.f32(p);
                guarded(h, || lfo.set_phase(p));
            }
            4 => {
                shadow = lfo;
            }
            _ => {
                guarded(h, || lfo.tick());
            }
        }
        for ws in SHAPES {
            if let Some(v) = guarded(h, || lfo.get(ws)) {
                h.f32(v);
            }
        }
        h.bool(lfo == shadow);
        h.bool(lfo == lfo.clone());
        if i < 3000 || i % 53 == 0 {
            h.dbg(&mut buf, &lfo);
        }
    }
    h.dbg(&mut buf, &lfo);
}

const ADSR_RATES: [f32; 16] = [
    100.0,
    1_000.0,
    8_000.0,
    44_100.0,
    48_000.0,
    96_000.0,
    192_000.0,
    // outside the documented range; debug-build overflow panics are part of the observed behaviour
    7.5,
    1.0e-3,
    0.0,
    -0.0,
    -1_000.0,
    1.0e30,
    f32::NAN,
    f32::INFINITY,
    f32::NEG_INFINITY,
];

#[test]
fn differential_hashes() {
    // panics are expected in some out-of-range scenarios and are hashed, keep the log quiet
    std::panic::set_hook(Box::new(|_| {}));

    let mut h = Fnv::new();
    conversions(&mut h);
    println!("DIFFHASH conversions      {:016x}", h.0);

    let mut h = Fnv::new();
    for (k, sr) in ADSR_RATES.iter().enumerate() {
        for seed in [1u64, 0xDEAD_BEEF, 0x1234_5678_9ABC_DEF0] {
            adsr_random(&mut h, *sr, seed.wrapping_add(k as u64 * 7919), 60_000);
        }
    }
    println!("DIFFHASH adsr_random      {:016x}", h.0);

    let mut h = Fnv::new();
    for seed in [11u64, 12, 13, 14] {
        adsr_random(&mut h, 1_000.0, seed, 400_000);
    }
    println!("DIFFHASH adsr_random_long {:016x}", h.0);

    let mut h = Fnv::new();
    adsr_cycle(&mut h, 1_000.0, 0.1, 0.1, 0.5, 0.1, 10);
    adsr_cycle(&mut h, 100.0, 0.0, 0.0, 0.0, 0.0, 3);
    adsr_cycle(&mut h, 100.0, 0.001, 0.001, 1.0, 0.001, 3);
    adsr_cycle(&mut h, 44_100.0, 0.003, 1.7, 0.3, 2.9, 100);
    adsr_cycle(&mut h, 48_000.0, 0.25, 0.5, 0.999_999_94, 0.125, 7);
    adsr_cycle(&mut h, 192_000.0, 20.0, 20.0, 0.25, 20.0, 1000);
    adsr_cycle(&mut h, 192_000.0, f32::INFINITY, f32::NAN, f32::NAN, 1.0e30, 5);
    adsr_cycle(&mut h, 100.0, 20.0, 19.0, -3.0, 18.0, 5);
    println!("DIFFHASH adsr_cycles      {:016x}", h.0);

    let mut h = Fnv::new();
    for (k, sr) in ADSR_RATES.iter().enumerate() {
        for seed in [5u64, 0xFACE_FEED] {
            lfo_random(&mut h, *sr, seed.wrapping_add(k as u64 * 104_729), 60_000);
        }
    }
    println!("DIFFHASH lfo_random       {:016x}", h.0);

    let _ = std::panic::take_hook();
}
