//! Differential test for `synth_utils::ribbon_controller`.
//!
//! Copy to `tests/diff_test.rs` and run with
//! `cargo test --offline --test diff_test -- --nocapture` (and again with `--release`).
//!
//! Drives the ribbon controller through long pseudo-random call sequences (fixed-seed LCG, edge values included)
//! using only the public API and hashes every observable output (FNV-1a, 64 bit). The printed hashes must be
//! identical before and after a behaviour-preserving change. Panics are caught and hashed as observable events
//! as well, so a change that adds or removes a panic shows up as a different hash.

use std::panic::{catch_unwind, AssertUnwindSafe};
use synth_utils::ribbon_controller::{sample_rate_to_capacity, RibbonController};

// ---------------------------------------------------------------------------------------------------------------------

struct Fnv(u64, /* number of observations with a press reported (coverage statistic) */ u64, /* edges seen */ u64);

impl Fnv {
    fn new() -> Self {
        Fnv(0xcbf2_9ce4_8422_2325, 0, 0)
    }
    fn byte(&mut self, b: u8) {
        self.0 ^= b as u64;
        self.0 = self.0.wrapping_mul(0x0000_0100_0000_01b3);
    }
    fn u32(&mut self, v: u32) {
        for b in v.to_le_bytes() {
            self.byte(b);
        }
    }
    fn u64(&mut self, v: u64) {
        for b in v.to_le_bytes() {
            self.byte(b);
        }
    }
    fn f32(&mut self, v: f32) {
        // bit-exact, distinguishes +0.0 / -0.0 and NaN payloads
        self.u32(v.to_bits());
    }
    fn bool(&mut self, v: bool) {
        self.byte(if v { 0xA5 } else { 0x5A });
    }
    /// hash the result of reading a self-clearing edge flag, and count the `true`s
    fn edge(&mut self, v: bool) {
        self.bool(v);
        self.2 += v as u64;
    }
}

struct Lcg(u64);

impl Lcg {
    fn next(&mut self) -> u32 {
        self.0 = self
            .0
            .wrapping_mul(6364136223846793005)
            .wrapping_add(1442695040888963407);
        (self.0 >> 32) as u32
    }
    fn below(&mut self, n: u32) -> u32 {
        self.next() % n
    }
    /// uniform in [0, 1)
    fn unit(&mut self) -> f32 {
        (self.next() >> 8) as f32 / 16_777_216.0
    }
}

// ---------------------------------------------------------------------------------------------------------------------

const EDGE_SAMPLES: [f32; 22] = [
    0.0,
    -0.0,
    1.0,
    0.5,
    -1.0,
    -1.0e-30,
    1.0e-30,
    f32::MIN_POSITIVE,
    1.0e-45, // subnormal
    0.95,
    0.96,
    0.9606148,
    0.97,
    0.999_999_94,
    1.000_000_1,
    2.0,
    1.0e30,
    -1.0e30,
    f32::MAX,
    f32::MIN,
    f32::INFINITY,
    f32::NEG_INFINITY,
];

fn observe<const N: usize>(h: &mut Fnv, rng: &mut Lcg, rib: &mut RibbonController<N>) {
    h.f32(rib.value());
    h.bool(rib.finger_is_pressing());
    h.1 += rib.finger_is_pressing() as u64;
    // the edge flags are self-clearing, so *when* they are read is part of the call history: read them at
    // pseudo-random moments, in both orders
    match rng.below(8) {
        0 | 1 | 2 => {
            h.edge(rib.finger_just_pressed());
            h.edge(rib.finger_just_released());
        }
        3 => {
            h.edge(rib.finger_just_released());
            h.edge(rib.finger_just_pressed());
        }
        4 => h.edge(rib.finger_just_pressed()),
        5 => h.edge(rib.finger_just_released()),
        6 => {
            h.edge(rib.finger_just_pressed());
            h.edge(rib.finger_just_pressed());
            h.edge(rib.finger_just_released());
            h.edge(rib.finger_just_released());
        }
        _ => {}
    }
    h.f32(rib.value());
    h.bool(rib.finger_is_pressing());
}

/// One long random session on one controller. `wild` additionally feeds NaN / inf / huge / negative samples.
fn session<const N: usize>(
    h: &mut Fnv,
    seed: u64,
    ctor: [f32; 4],
    segments: u32,
    wild: bool,
) {
    let mut rng = Lcg(seed);
    let mut rib = RibbonController::<N>::new(ctor[0], ctor[1], ctor[2], ctor[3]);
    observe(h, &mut rng, &mut rib);

    for _ in 0..segments {
        let kind = rng.below(10);
        match kind {
            // a press: noisy samples around a base position, length from "much too short" to "several buffers"
            0..=4 => {
                let len = match rng.below(6) {
                    0 => rng.below(4),
                    1 => rng.below(N as u32 + 1),
                    2 => N as u32 + rng.below(40),
                    3 => (N as u32).saturating_sub(rng.below(4)) + rng.below(8),
                    _ => rng.below(3 * N as u32 + 50),
                };
                let base = rng.unit() * 0.96;
                let noise = rng.unit() * 0.05;
                for _ in 0..len {
                    let s = base + (rng.unit() - 0.5) * noise;
                    rib.poll(s);
                    observe(h, &mut rng, &mut rib);
                }
            }
            // a constant press (exact repeated values, incl. signed zeros)
            5 => {
                let s = match rng.below(5) {
                    0 => 0.0,
                    1 => -0.0,
                    2 => 0.42,
                    3 => 0.9,
                    _ => rng.unit(),
                };
                let len = rng.below(2 * N as u32 + 30);
                for _ in 0..len {
                    rib.poll(s);
                    observe(h, &mut rng, &mut rib);
                }
            }
            // a sweep across the whole range, crossing the press boundary
            6 => {
                let len = rng.below(2 * N as u32 + 30) + 1;
                let up = rng.below(2) == 0;
                for i in 0..len {
                    let x = i as f32 / len as f32;
                    rib.poll(if up { x } else { 1.0 - x });
                    observe(h, &mut rng, &mut rib);
                }
            }
            // finger lifted: out-of-range samples, sometimes a single glitch only
            7 | 8 => {
                let len = if rng.below(2) == 0 { 1 } else { rng.below(25) + 1 };
                for _ in 0..len {
                    let s = if rng.below(3) == 0 { 1.0 } else { 0.96 + rng.unit() * 0.04 };
                    rib.poll(s);
                    observe(h, &mut rng, &mut rib);
                }
            }
            // edge values
            _ => {
                let len = rng.below(12) + 1;
                for _ in 0..len {
                    let mut s = EDGE_SAMPLES[rng.below(EDGE_SAMPLES.len() as u32) as usize];
                    if !wild && !(0.0..=1.0).contains(&s) {
                        s = 1.0;
                    }
                    if wild && rng.below(6) == 0 {
                        s = f32::NAN;
                    }
                    let reps = if rng.below(4) == 0 { N as u32 + 5 } else { 1 };
                    for _ in 0..reps {
                        rib.poll(s);
                        observe(h, &mut rng, &mut rib);
                    }
                }
            }
        }
    }
}

/// Run a session, catching panics (debug-build overflow checks on badly sized buffers / absurd sample rates);
/// whether and where a panic happened is folded into the hash through the partial hash state.
fn guarded<const N: usize>(name: &str, seed: u64, ctor: [f32; 4], segments: u32, wild: bool) -> u64 {
    let mut h = Fnv::new();
    h.u64(N as u64);
    let r = catch_unwind(AssertUnwindSafe(|| session::<N>(&mut h, seed, ctor, segments, wild)));
    h.bool(r.is_ok());
    println!(
        "HASH {:<34} {:016x}  pressed-obs {:>7} edges {:>5}{}",
        name,
        h.0,
        h.1,
        h.2,
        if r.is_ok() { "" } else { "  (panicked)" }
    );
    h.0
}

const CAP_100: usize = sample_rate_to_capacity(100);
const CAP_1K: usize = sample_rate_to_capacity(1_000);
const CAP_10K: usize = sample_rate_to_capacity(10_000);
const CAP_48K: usize = sample_rate_to_capacity(48_000);
const CAP_192K: usize = sample_rate_to_capacity(192_000);

const STD: [f32; 3] = [20.0e3, 820.0, 1.0e6];

#[test]
fn ribbon_differential() {
    // silence the panic messages of the deliberately provoked panics
    std::panic::set_hook(Box::new(|_| {}));

    let mut total = Fnv::new();

    // --- the const helper, including arguments that overflow the u32 arithmetic -------------------------------------
    {
        let mut h = Fnv::new();
        let mut rng = Lcg(0x5eed_0001);
        let mut args: Vec<u32> = vec![
            0, 1, 2, 99, 100, 101, 333, 499, 500, 501, 999, 1_000, 1_001, 8_000, 10_000, 22_050, 44_100, 48_000, 96_000,
            192_000, 286_331, 286_332, 286_333, 1_000_000, 2_147_483, 2_147_484, 4_294_967, 4_294_968, 0x7fff_ffff,
            0x8000_0000, u32::MAX - 1, u32::MAX,
        ];
        for _ in 0..4000 {
            let v = match rng.below(3) {
                0 => rng.below(200_000),
                1 => rng.below(300_000),
                _ => rng.next(),
            };
            args.push(v);
        }
        for a in args {
            match catch_unwind(|| sample_rate_to_capacity(a)) {
                Ok(c) => {
                    h.bool(true);
                    h.u64(c as u64);
                }
                Err(_) => h.bool(false),
            }
        }
        println!("HASH {:<34} {:016x}", "sample_rate_to_capacity", h.0);
        total.u64(h.0);
    }
    total.u64(CAP_100 as u64);
    total.u64(CAP_1K as u64);
    total.u64(CAP_10K as u64);
    total.u64(CAP_48K as u64);
    total.u64(CAP_192K as u64);

    // --- correctly sized buffers, in-range samples ------------------------------------------------------------------
    total.u64(guarded::<CAP_100>("sr100/std", 1, [100.0, STD[0], STD[1], STD[2]], 3000, false));
    total.u64(guarded::<CAP_1K>("sr1k/std", 2, [1_000.0, STD[0], STD[1], STD[2]], 3000, false));
    total.u64(guarded::<CAP_10K>("sr10k/std", 3, [10_000.0, STD[0], STD[1], STD[2]], 1500, false));
    total.u64(guarded::<CAP_10K>("sr10k/10k-pot", 4, [10_000.0, 10.0e3, 470.0, 220.0e3], 1500, false));
    total.u64(guarded::<CAP_48K>("sr48k/std", 5, [48_000.0, STD[0], STD[1], STD[2]], 400, false));
    total.u64(guarded::<CAP_192K>("sr192k/std", 6, [192_000.0, STD[0], STD[1], STD[2]], 120, false));
    total.u64(guarded::<CAP_10K>("sr10k/fractional-rate", 7, [10_000.75, STD[0], STD[1], STD[2]], 800, false));

    // --- correctly sized buffers, wild samples (NaN, inf, negative, huge) -------------------------------------------
    total.u64(guarded::<CAP_100>("sr100/wild", 11, [100.0, STD[0], STD[1], STD[2]], 3000, true));
    total.u64(guarded::<CAP_1K>("sr1k/wild", 12, [1_000.0, STD[0], STD[1], STD[2]], 3000, true));
    total.u64(guarded::<CAP_10K>("sr10k/wild", 13, [10_000.0, STD[0], STD[1], STD[2]], 1500, true));
    total.u64(guarded::<CAP_48K>("sr48k/wild", 14, [48_000.0, STD[0], STD[1], STD[2]], 300, true));

    // --- odd constructor arguments ----------------------------------------------------------------------------------
    total.u64(guarded::<CAP_1K>("sr1k/zero-dropper", 21, [1_000.0, 20.0e3, 0.0, 1.0e6], 1500, true));
    total.u64(guarded::<CAP_1K>("sr1k/zero-softpot", 22, [1_000.0, 0.0, 820.0, 1.0e6], 800, true));
    total.u64(guarded::<CAP_1K>("sr1k/all-zero-ohms", 23, [1_000.0, 0.0, 0.0, 0.0], 800, true));
    total.u64(guarded::<CAP_1K>("sr1k/negative-pullup", 24, [1_000.0, 20.0e3, 820.0, -1.0e6], 1500, true));
    total.u64(guarded::<CAP_1K>("sr1k/negative-dropper", 25, [1_000.0, 20.0e3, -820.0, 1.0e6], 1500, true));
    total.u64(guarded::<CAP_1K>("sr1k/nan-ohms", 26, [1_000.0, f32::NAN, 820.0, 1.0e6], 800, true));
    total.u64(guarded::<CAP_1K>("sr1k/inf-pullup", 27, [1_000.0, 20.0e3, 820.0, f32::INFINITY], 1500, true));
    total.u64(guarded::<CAP_1K>("sr1k/huge-dropper", 28, [1_000.0, 20.0e3, 1.0e30, 1.0e6], 800, true));
    total.u64(guarded::<CAP_1K>("sr1k/tiny-pullup", 29, [1_000.0, 20.0e3, 820.0, 1.0e-3], 1500, true));

    // --- odd sample rates for the constructor (buffer no longer matches the rate) -----------------------------------
    total.u64(guarded::<CAP_1K>("cap1k/sr0", 31, [0.0, STD[0], STD[1], STD[2]], 1500, true));
    total.u64(guarded::<CAP_1K>("cap1k/sr-neg", 32, [-48_000.0, STD[0], STD[1], STD[2]], 1500, true));
    total.u64(guarded::<CAP_1K>("cap1k/sr-nan", 33, [f32::NAN, STD[0], STD[1], STD[2]], 1500, true));
    total.u64(guarded::<CAP_1K>("cap1k/sr-inf", 34, [f32::INFINITY, STD[0], STD[1], STD[2]], 200, true));
    total.u64(guarded::<CAP_1K>("cap1k/sr-1e9", 35, [1.0e9, STD[0], STD[1], STD[2]], 200, true));
    total.u64(guarded::<CAP_1K>("cap1k/sr-4294967", 36, [4_294_967.0, STD[0], STD[1], STD[2]], 200, true));
    total.u64(guarded::<CAP_1K>("cap1k/sr-2e6", 37, [2.0e6, STD[0], STD[1], STD[2]], 200, true));
    total.u64(guarded::<CAP_1K>("cap1k/sr500", 38, [500.0, STD[0], STD[1], STD[2]], 1500, true));
    total.u64(guarded::<CAP_1K>("cap1k/sr9000 (take 0)", 39, [9_000.0, STD[0], STD[1], STD[2]], 600, true));
    total.u64(guarded::<CAP_1K>("cap1k/sr8500 (take 1)", 42, [8_500.0, STD[0], STD[1], STD[2]], 600, true));
    total.u64(guarded::<CAP_1K>("cap1k/sr8000 (take 2)", 40, [8_000.0, STD[0], STD[1], STD[2]], 600, true));
    total.u64(guarded::<CAP_1K>("cap1k/sr10k (underflow)", 41, [10_000.0, STD[0], STD[1], STD[2]], 600, true));

    // --- hand-sized buffers -----------------------------------------------------------------------------------------
    total.u64(guarded::<1>("cap1/sr100", 51, [100.0, STD[0], STD[1], STD[2]], 3000, true));
    total.u64(guarded::<1>("cap1/sr499 (take 1)", 52, [499.0, STD[0], STD[1], STD[2]], 3000, true));
    total.u64(guarded::<1>("cap1/sr500 (take 0)", 53, [500.0, STD[0], STD[1], STD[2]], 3000, true));
    total.u64(guarded::<1>("cap1/sr1000 (underflow)", 54, [1_000.0, STD[0], STD[1], STD[2]], 3000, true));
    total.u64(guarded::<2>("cap2/sr1000 (take 0)", 55, [1_000.0, STD[0], STD[1], STD[2]], 3000, true));
    total.u64(guarded::<3>("cap3/sr1000", 56, [1_000.0, STD[0], STD[1], STD[2]], 3000, true));
    total.u64(guarded::<7>("cap7/sr3000", 57, [3_000.0, STD[0], STD[1], STD[2]], 3000, true));
    total.u64(guarded::<64>("cap64/sr100", 58, [100.0, STD[0], STD[1], STD[2]], 2000, true));
    total.u64(guarded::<1000>("cap1000/sr10k", 59, [10_000.0, STD[0], STD[1], STD[2]], 300, true));

    // --- the exact scenario of the unit tests, bit-exact ------------------------------------------------------------
    {
        let mut h = Fnv::new();
        let mut rib = RibbonController::<CAP_10K>::new(10_000.0, 20.0e3, 820.0, 1.0e6);
        for &(v, n) in &[(0.42_f32, 179_u32), (0.42, 1), (1.0, 1), (0.1, 180), (0.2, 90), (0.9, 21), (1.0, 3), (0.0, 400)] {
            for _ in 0..n {
                rib.poll(v);
                h.f32(rib.value());
                h.bool(rib.finger_is_pressing());
            }
            h.bool(rib.finger_just_pressed());
            h.bool(rib.finger_just_released());
        }
        println!("HASH {:<34} {:016x}", "unit-test-scenario", h.0);
        total.u64(h.0);
    }

    println!(
        "HASH {:<34} {:016x}   [{}]",
        "TOTAL",
        total.0,
        if cfg!(debug_assertions) { "debug" } else { "release" }
    );
}
