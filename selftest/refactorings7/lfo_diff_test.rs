//! Differential test for the LFO module (src/lfo.rs, src/phase_accumulator.rs, src/utils.rs).
//!
//! Copy to `tests/diff_test.rs` of the crate and run
//!     cargo test --offline --test diff_test -- --nocapture
//!     cargo test --offline --release --test diff_test -- --nocapture
//!
//! Only the public API of `synth_utils` is used (`lfo::Lfo`, `lfo::Waveshape`, and `adsr::Adsr`, the
//! other public client of the private phase accumulator and of `utils::{ilog_2, linear_interp}`).
//! Every observable output is hashed (FNV-1a, 64 bit): the f32 bit patterns of all five waveshapes, the
//! `Debug` rendering of the whole object (which exposes every private field of the phase accumulator),
//! the result of `PartialEq` against a snapshot, and whether a call panicked (debug-build arithmetic
//! overflow for out-of-range frequencies is part of the observable behaviour, so it is hashed too).
//!
//! The hashes of the unmodified crate are hard-coded below, separately for debug and release builds.

use std::fmt::Write as _;
use std::panic::{catch_unwind, AssertUnwindSafe};
use synth_utils::adsr::{self, Adsr};
use synth_utils::lfo::{Lfo, Waveshape};

// ---------------------------------------------------------------------------------------------------------------------
// helpers

struct Fnv(u64);

impl Fnv {
    fn new() -> Self {
        Fnv(0xcbf2_9ce4_8422_2325)
    }
    fn byte(&mut self, b: u8) {
        self.0 ^= b as u64;
        self.0 = self.0.wrapping_mul(0x0000_0100_0000_01b3);
    }
    fn u32(&mut self, v: u32) {
        for b in v.to_le_bytes() {
            self.byte(b);
        }
    }
    fn f32(&mut self, v: f32) {
        self.u32(v.to_bits());
    }
    fn str(&mut self, s: &str) {
        for b in s.bytes() {
            self.byte(b);
        }
        self.byte(0xff);
    }
}

struct Lcg(u64);

impl Lcg {
    fn next(&mut self) -> u32 {
        self.0 = self
            .0
            .wrapping_mul(6364136223846793005)
            .wrapping_add(1442695040888963407);
        (self.0 >> 32) as u32
    }
    fn below(&mut self, n: u32) -> u32 {
        self.next() % n
    }
    /// uniform in [0, 1)
    fn unit(&mut self) -> f32 {
        (self.next() >> 8) as f32 / 16_777_216.0
    }
    /// an arbitrary bit pattern: any f32 including NaNs, infinities, subnormals
    fn any_f32(&mut self) -> f32 {
        f32::from_bits(self.next())
    }
}

const SHAPES: [Waveshape; 5] = [
    Waveshape::Sine,
    Waveshape::Triangle,
    Waveshape::UpSaw,
    Waveshape::DownSaw,
    Waveshape::Square,
];

const EDGE_PHASES: [f32; 26] = [
    0.0,
    -0.0,
    0.25,
    0.5,
    0.75,
    1.0,
    -1.0,
    -2.0,
    0.999_999_94,
    1.000_000_1,
    -0.999_999_94,
    0.000_061_035_156, // 2^-14, one table step of the index
    0.000_976_562_5,   // 2^-10
    0.999_023_44,      // last table entry
    0.999_938_96,
    123_456.79,
    -123_456.79,
    16_777_216.0,
    -16_777_217.0,
    1.0e30,
    -1.0e30,
    f32::MAX,
    f32::MIN,
    f32::MIN_POSITIVE,
    1.0e-45, // subnormal
    -1.0e-45,
];

const NON_FINITE: [f32; 3] = [f32::NAN, f32::INFINITY, f32::NEG_INFINITY];

fn observe_lfo(h: &mut Fnv, lfo: &Lfo, buf: &mut String) {
    for ws in SHAPES {
        h.f32(lfo.get(ws));
    }
    // reading in another order must give the same values (and reads must not disturb the state)
    for ws in SHAPES.iter().rev() {
        h.f32(lfo.get(*ws));
    }
    buf.clear();
    write!(buf, "{:?}", lfo).unwrap();
    h.str(buf);
}

/// run `f`, hash whether it panicked
fn guarded<F: FnOnce()>(h: &mut Fnv, f: F) {
    let r = catch_unwind(AssertUnwindSafe(f));
    h.byte(if r.is_ok() { 0 } else { 1 });
}

// ---------------------------------------------------------------------------------------------------------------------
// A: LFO, documented argument ranges, long random call sequences

fn lfo_in_range(seed: u64, steps: u32) -> u64 {
    let mut h = Fnv::new();
    let mut rng = Lcg(seed);
    let mut buf = String::new();
    let rates = [100.0_f32, 1_000.0, 8_000.0, 44_100.0, 48_000.0, 96_000.0, 192_000.0];
    for &sr in rates.iter() {
        let mut lfo = Lfo::new(sr);
        let mut snapshot = lfo;
        observe_lfo(&mut h, &lfo, &mut buf);
        for _ in 0..steps {
            match rng.below(32) {
                0 => {
                    // frequency anywhere in [0, sr], biased to low frequencies
                    let f = match rng.below(8) {
                        0 => 0.0,
                        1 => sr,
                        2 => sr * 0.5,
                        3 => sr * rng.unit(),
                        4 => sr / 16_777_216.0,       // exactly one counter step
                        5 => sr / 16_777_216.0 * 0.5, // less than one counter step
                        6 => 20.0 * rng.unit(),
                        _ => rng.unit(),
                    };
                    lfo.set_frequency(f);
                }
                1 => lfo.reset(),
                2 => {
                    let p = match rng.below(4) {
                        0 => EDGE_PHASES[rng.below(EDGE_PHASES.len() as u32) as usize],
                        1 => rng.unit(),
                        2 => (rng.unit() - 0.5) * 2000.0,
                        _ => {
                            // any finite bit pattern
                            let mut v = rng.any_f32();
                            while !v.is_finite() {
                                v = rng.any_f32();
                            }
                            v
                        }
                    };
                    lfo.set_phase(p);
                }
                3 => {
                    h.byte((lfo == snapshot) as u8);
                    snapshot = lfo;
                    h.byte((lfo == snapshot) as u8);
                }
                4 => {
                    // a burst of ticks
                    for _ in 0..rng.below(2000) {
                        lfo.tick();
                    }
                }
                _ => lfo.tick(),
            }
            observe_lfo(&mut h, &lfo, &mut buf);
        }
    }
    h.0
}

// ---------------------------------------------------------------------------------------------------------------------
// B: LFO, wild arguments (negative / huge / NaN / inf frequencies, phases and sample rates); panics are observed

fn lfo_wild(seed: u64, steps: u32) -> u64 {
    let mut h = Fnv::new();
    let mut rng = Lcg(seed);
    let mut buf = String::new();
    let rates = [
        0.0_f32,
        -0.0,
        -48_000.0,
        1.0e-30,
        1.0,
        100.0,
        48_000.0,
        1.0e30,
        f32::NAN,
        f32::INFINITY,
        f32::NEG_INFINITY,
    ];
    for &sr in rates.iter() {
        let mut lfo = Lfo::new(sr);
        observe_lfo(&mut h, &lfo, &mut buf);
        for _ in 0..steps {
            match rng.below(12) {
                0 => {
                    let f = match rng.below(10) {
                        0 => rng.any_f32(),
                        1 => NON_FINITE[rng.below(3) as usize],
                        2 => -rng.unit() * 100.0,
                        3 => 1.0e30,
                        4 => -1.0e30,
                        5 => sr * 255.9,
                        6 => sr * 256.0,
                        7 => sr * 1.000_000_1,
                        8 => 0.0,
                        _ => rng.unit() * 1000.0,
                    };
                    lfo.set_frequency(f);
                }
                1 => lfo.reset(),
                2 => {
                    let p = match rng.below(4) {
                        0 => rng.any_f32(),
                        1 => NON_FINITE[rng.below(3) as usize],
                        2 => EDGE_PHASES[rng.below(EDGE_PHASES.len() as u32) as usize],
                        _ => (rng.unit() - 0.5) * 8.0,
                    };
                    lfo.set_phase(p);
                }
                _ => {
                    // in a debug build the tick overflows (and panics, leaving the state untouched) when the
                    // increment saturated; in a release build it wraps. Either way it is observed.
                    let l = &mut lfo;
                    guarded(&mut h, || l.tick());
                }
            }
            let l = &lfo;
            let (hh, bb) = (&mut h, &mut buf);
            let r = catch_unwind(AssertUnwindSafe(|| observe_lfo(hh, l, bb)));
            h.byte(if r.is_ok() { 0 } else { 1 });
        }
    }
    h.0
}

// ---------------------------------------------------------------------------------------------------------------------
// C: LFO, exhaustive walk over every one of the 2^24 phases the counter can hold (increment = 1), all five shapes

fn lfo_every_phase() -> u64 {
    let mut h = Fnv::new();
    // 2^24 Hz sample rate and 1 Hz: increment is exactly one counter step
    let mut lfo = Lfo::new(16_777_216.0);
    lfo.set_frequency(1.0);
    for _ in 0..(1u32 << 24) + 3 {
        for ws in SHAPES {
            h.f32(lfo.get(ws));
        }
        lfo.tick();
    }
    let mut buf = String::new();
    observe_lfo(&mut h, &lfo, &mut buf);
    h.0
}

// ---------------------------------------------------------------------------------------------------------------------
// D: LFO, set_phase sweep (dense, and every edge value, positive and negative), each followed by a few ticks

fn lfo_phase_sweep() -> u64 {
    let mut h = Fnv::new();
    let mut buf = String::new();
    let mut lfo = Lfo::new(48_000.0);
    lfo.set_frequency(48_000.0 / 16_777_216.0 * 4097.0);
    for i in -70_000i32..=70_000 {
        lfo.set_phase(i as f32 / 32_768.0);
        observe_lfo(&mut h, &lfo, &mut buf);
        lfo.tick();
        lfo.tick();
        lfo.tick();
        observe_lfo(&mut h, &lfo, &mut buf);
    }
    for &p in EDGE_PHASES.iter().chain(NON_FINITE.iter()) {
        lfo.set_phase(p);
        observe_lfo(&mut h, &lfo, &mut buf);
        lfo.tick();
        observe_lfo(&mut h, &lfo, &mut buf);
    }
    h.0
}

// ---------------------------------------------------------------------------------------------------------------------
// E: ADSR (the other public client of the phase accumulator, `ilog_2` and `linear_interp`)

fn adsr_random(seed: u64, steps: u32) -> u64 {
    let mut h = Fnv::new();
    let mut rng = Lcg(seed);
    let mut buf = String::new();
    let rates = [100.0_f32, 1_000.0, 44_100.0, 192_000.0];
    let edge_times = [
        0.0_f32,
        -1.0,
        0.001,
        0.0005,
        0.002,
        0.01,
        0.05,
        1.0,
        20.0,
        25.0,
        1.0e30,
        -1.0e30,
        f32::NAN,
        f32::INFINITY,
        f32::NEG_INFINITY,
    ];
    for &sr in rates.iter() {
        let mut env = Adsr::new(sr);
        for _ in 0..steps {
            match rng.below(64) {
                0 => env.gate_on(),
                1 => env.gate_off(),
                2 | 3 => {
                    let t = match rng.below(3) {
                        0 => edge_times[rng.below(edge_times.len() as u32) as usize],
                        1 => rng.unit() * 0.05,
                        _ => rng.any_f32(),
                    };
                    let input = match rng.below(4) {
                        0 => adsr::Input::Attack(t.into()),
                        1 => adsr::Input::Decay(t.into()),
                        2 => adsr::Input::Release(t.into()),
                        _ => {
                            let s = match rng.below(3) {
                                0 => rng.unit(),
                                1 => rng.any_f32(),
                                _ => [0.0, 1.0, -1.0, 2.0, f32::NAN, f32::INFINITY][rng.below(6) as usize],
                            };
                            adsr::Input::Sustain(s.into())
                        }
                    };
                    env.set_input(input);
                }
                _ => env.tick(),
            }
            h.f32(env.value());
            buf.clear();
            write!(buf, "{:?}", env).unwrap();
            h.str(&buf);
        }
    }
    h.0
}

// ---------------------------------------------------------------------------------------------------------------------

#[cfg(debug_assertions)]
const EXPECTED: [(&str, u64); 9] = [
    ("lfo_in_range/1", 0x1580267768e5f053),
    ("lfo_in_range/2", 0x77d2a53deb074c39),
    ("lfo_wild/1", 0x2ac95472bfed464e),
    ("lfo_wild/2", 0xfe78af8a5a8c0828),
    ("lfo_every_phase", 0x242d0115beea4472),
    ("lfo_phase_sweep", 0xf3095390c0b207c3),
    ("adsr_random/1", 0x8a5bc982640df5d0),
    ("adsr_random/2", 0x906d9ccc1253bedd),
    ("combined", 0x97e27a6cf172069c),
];

#[cfg(not(debug_assertions))]
const EXPECTED: [(&str, u64); 9] = [
    ("lfo_in_range/1", 0x1580267768e5f053),
    ("lfo_in_range/2", 0x77d2a53deb074c39),
    ("lfo_wild/1", 0x2105ace7ac522323),
    ("lfo_wild/2", 0xee78cc49982b99b7),
    ("lfo_every_phase", 0x242d0115beea4472),
    ("lfo_phase_sweep", 0xf3095390c0b207c3),
    ("adsr_random/1", 0x8a5bc982640df5d0),
    ("adsr_random/2", 0x906d9ccc1253bedd),
    ("combined", 0xb475dc07449644b3),
];

#[test]
fn differential_hashes() {
    // the panics provoked on purpose in `lfo_wild` should not flood stderr
    let old_hook = std::panic::take_hook();
    std::panic::set_hook(Box::new(|_| {}));
    let results = catch_unwind(|| {
        let mut r: Vec<(&str, u64)> = vec![
            ("lfo_in_range/1", lfo_in_range(0x1234_5678_9abc_def0, 30_000)),
            ("lfo_in_range/2", lfo_in_range(0x0bad_cafe_dead_beef, 30_000)),
            ("lfo_wild/1", lfo_wild(0x0000_0000_0000_0001, 20_000)),
            ("lfo_wild/2", lfo_wild(0xfeed_face_0123_4567, 20_000)),
            ("lfo_every_phase", lfo_every_phase()),
            ("lfo_phase_sweep", lfo_phase_sweep()),
            ("adsr_random/1", adsr_random(0x5151_5151_a0a0_a0a0, 150_000)),
            ("adsr_random/2", adsr_random(0x0f0f_1e1e_2d2d_3c3c, 150_000)),
        ];
        let mut all = Fnv::new();
        for (_, v) in r.iter() {
            all.u32(*v as u32);
            all.u32((*v >> 32) as u32);
        }
        r.push(("combined", all.0));
        r
    });
    std::panic::set_hook(old_hook);
    let results = results.expect("an unguarded call panicked");

    let profile = if cfg!(debug_assertions) { "debug" } else { "release" };
    for (name, v) in results.iter() {
        println!("HASH {profile} {name} {v:#018x}");
    }
    for ((name, v), (ename, ev)) in results.iter().zip(EXPECTED.iter()) {
        assert_eq!(name, ename);
        assert_eq!(v, ev, "hash of {name} ({profile}) differs from the unmodified crate");
    }
}
