//! Differential test for `synth_utils::quantizer`.
//!
//! Copy to `tests/diff_test.rs` and run `cargo test --offline --test diff_test -- --nocapture`
//! (and the same with `--release`). It drives the quantizer with long pseudo-random call
//! histories and hashes every observable output (bit patterns of the f32 fields included).
//! The printed hashes must be identical for the clean crate and for every refactoring.

use synth_utils::quantizer::{Conversion, Note, Quantizer};

/// Hashes obtained on the clean crate (debug profile).
const EXPECTED_DEBUG: [u64; 5] = [
    0xadb2abdfee974735,
    0xa79366e5d15fa57e,
    0x1038041c4677e31e,
    0xb4c6434dcfd85284,
    0x4c5df938e9a28a90,
];

/// Hashes obtained on the clean crate (release profile).
///
/// They differ from the debug ones already on the clean crate, for one reason only: `convert` clamps with
/// `v_in.max(0.0)`, and the sign of `max(-0.0, +0.0)` is unspecified; the debug build yields `-0.0` and the optimised
/// build `+0.0`, which shows in the sign bit of `fraction` for the input `-0.0`.
const EXPECTED_RELEASE: [u64; 5] = [
    0x68ea062d7c30c135,
    0x259f9d6bc86e44fe,
    0x60883553afae321e,
    0xe9c63220ff4ca204,
    0x5d65af3f0b72d690,
];

struct Lcg(u64);

impl Lcg {
    fn next(&mut self) -> u32 {
        self.0 = self
            .0
            .wrapping_mul(6364136223846793005)
            .wrapping_add(1442695040888963407);
        (self.0 >> 32) as u32
    }
    fn below(&mut self, n: u32) -> u32 {
        self.next() % n
    }
    fn unit(&mut self) -> f32 {
        (self.next() >> 8) as f32 / (1u32 << 24) as f32
    }
}

struct Hash(u64);

impl Hash {
    fn new() -> Self {
        Hash(0xcbf29ce484222325)
    }
    fn byte(&mut self, b: u8) {
        self.0 ^= b as u64;
        self.0 = self.0.wrapping_mul(0x100000001b3);
    }
    fn u32(&mut self, v: u32) {
        for b in v.to_le_bytes() {
            self.byte(b);
        }
    }
    fn conv(&mut self, c: Conversion) {
        self.byte(c.note_num);
        self.u32(c.stairstep.to_bits());
        self.u32(c.fraction.to_bits());
    }
    fn scale(&mut self, q: &Quantizer) {
        // 0..=255 also exercises the clamping of `Note::new` / `From<u8>`
        let mut bits = 0u32;
        for n in 0..12u8 {
            if q.is_allowed(Note::new(n)) {
                bits |= 1 << n;
            }
        }
        self.u32(bits);
    }
}

const EDGE: [f32; 34] = [
    0.0,
    -0.0,
    f32::MIN_POSITIVE,
    -f32::MIN_POSITIVE,
    1.0e-7,
    -1.0e-7,
    0.008_333,
    0.041_666,
    0.083_333,
    0.083_334,
    0.091_6,
    0.075,
    0.5,
    0.999_999,
    1.0,
    1.000_001,
    4.999_999_5,
    5.0,
    9.916_666,
    9.916_667,
    9.958_333,
    9.999_999,
    10.0,
    10.000_001,
    10.1,
    -1.0,
    -10.0,
    1.0e9,
    -1.0e9,
    f32::MAX,
    f32::MIN,
    f32::INFINITY,
    f32::NEG_INFINITY,
    f32::NAN,
];

fn note_from(r: &mut Lcg) -> Note {
    match r.below(8) {
        0 => Note::from(r.below(256) as u8), // clamped to 11 above 11
        1 => Note::new(255),
        2 => Note::B,
        3 => Note::C,
        _ => Note::new(r.below(12) as u8),
    }
}

fn input(r: &mut Lcg, last: f32) -> f32 {
    match r.below(16) {
        0 => EDGE[r.below(EDGE.len() as u32) as usize],
        // exactly on, or one/two ulps around, a semitone boundary
        1 => {
            let n = r.below(122) as f32 / 12.0_f32;
            match r.below(5) {
                0 => n,
                1 => f32::from_bits(n.to_bits().wrapping_add(1)),
                2 => f32::from_bits(n.to_bits().wrapping_sub(1)),
                3 => n + 1.0 / 24.0,
                _ => n - 1.0 / 24.0,
            }
        }
        // small noise around the previous input: exercises the hysteresis window
        2..=6 => last + (r.unit() - 0.5) * 0.04,
        7 => last + (r.unit() - 0.5) * 0.2,
        // near the window edges of the previous input
        8 => last + 1.0 / 12.0 + (r.unit() - 0.5) * 0.02,
        9 => last - (r.unit() - 0.5) * 0.02,
        // slightly outside the legal range
        10 => -0.2 + r.unit() * 0.4,
        11 => 9.8 + r.unit() * 0.4,
        // arbitrary bit pattern (all exponents, NaN payloads, denormals)
        12 => f32::from_bits(r.next()),
        _ => r.unit() * 10.0,
    }
}

fn run(seed: u64, steps: u32) -> u64 {
    let mut r = Lcg(seed);
    let mut h = Hash::new();
    let mut q = Quantizer::new();
    let mut last = 0.0_f32;
    h.conv(Conversion::new());
    h.scale(&q);

    for _ in 0..steps {
        match r.below(24) {
            0 => {
                let mut ns = [Note::C; 14];
                let len = r.below(15) as usize; // 0 ..= 14, including the empty slice
                for n in ns.iter_mut().take(len) {
                    *n = note_from(&mut r);
                }
                q.allow(&ns[..len]);
                h.scale(&q);
            }
            1 | 2 => {
                let mut ns = [Note::C; 14];
                let len = r.below(15) as usize;
                for n in ns.iter_mut().take(len) {
                    *n = note_from(&mut r);
                }
                q.forbid(&ns[..len]);
                h.scale(&q);
            }
            3 => {
                // forbid everything in a random rotation: the last one must survive
                let start = r.below(12) as u8;
                let mut ns = [Note::C; 12];
                for (i, n) in ns.iter_mut().enumerate() {
                    *n = Note::new((start + i as u8) % 12);
                }
                q.forbid(&ns);
                h.scale(&q);
            }
            4 => {
                // forbid all but one or two
                let keep_a = r.below(12) as u8;
                let keep_b = r.below(12) as u8;
                for n in 0..12u8 {
                    if n != keep_a && n != keep_b {
                        q.forbid(&[Note::new(n)]);
                    }
                }
                h.scale(&q);
            }
            5 => {
                // empty slices must be harmless
                q.forbid(&[]);
                q.allow(&[]);
                h.scale(&q);
            }
            6 => {
                if r.below(8) == 0 {
                    q = Quantizer::new();
                    h.scale(&q);
                }
            }
            7 => {
                let n = note_from(&mut r);
                h.byte(u8::from(n));
                h.byte(q.is_allowed(n) as u8);
                h.byte((n == Note::B) as u8);
            }
            _ => {
                let v = input(&mut r, last);
                if v.is_finite() {
                    last = v;
                }
                h.conv(q.convert(v));
            }
        }
    }
    h.0
}

/// Every scale (all 4095 non-empty masks) swept with a history-free quantizer and with history.
fn sweep() -> u64 {
    let mut h = Hash::new();
    let mut r = Lcg(0x5eed_0005);
    for mask in 1u32..4096 {
        let mut q = Quantizer::new();
        for n in 0..12u8 {
            if mask >> n & 1 == 0 {
                q.forbid(&[Note::new(n)]);
            }
        }
        h.scale(&q);
        // ascending sweep with history
        let mut v = -0.05_f32;
        while v < 10.1 {
            h.conv(q.convert(v));
            v += 0.013 + r.unit() * 0.02;
        }
        // history-free probes
        for _ in 0..24 {
            let mut fresh = Quantizer::new();
            for n in 0..12u8 {
                if mask >> n & 1 == 0 {
                    fresh.forbid(&[Note::new(n)]);
                }
            }
            let v = match r.below(4) {
                0 => EDGE[r.below(EDGE.len() as u32) as usize],
                1 => r.below(122) as f32 / 12.0,
                _ => r.unit() * 10.0,
            };
            h.conv(fresh.convert(v));
        }
    }
    h.0
}

#[test]
fn differential_hashes() {
    let got = [
        run(0x5eed_0001, 400_000),
        run(0x5eed_0002, 400_000),
        run(0xdead_beef_cafe_f00d, 400_000),
        run(0, 400_000),
        sweep(),
    ];
    for (i, g) in got.iter().enumerate() {
        println!("quantizer diff hash {} = {:016x}", i, g);
    }
    let expected = if cfg!(debug_assertions) {
        EXPECTED_DEBUG
    } else {
        EXPECTED_RELEASE
    };
    assert_eq!(got, expected, "observable behaviour differs from the clean crate");
}
