#!/bin/bash
# try.sh <patch> <Cxx>... : apply <patch> to a scratch copy of /repo's current tree and run the named checks on it (full output)
set -u
P="$1"; shift
T=$(mktemp -d /tmp/try-XXXXXX)
cp -r /repo/src /repo/Cargo.toml /repo/Cargo.lock /repo/README.md "$T"/
if [ "$P" != CLEAN ]; then (cd "$T" && patch -p1 -s --no-backup-if-mismatch -i "$P") || { echo "patch failed"; rm -rf "$T"; exit 2; }; fi
cd "$(dirname "$0")/.."
for c in "$@"; do VERIF_SELFTEST_REPO="$T" VERIF_SELFTEST_EVIDENCE="$T/ev" ./check "$c"; done
rm -rf "$T"
