//! Differential test for `src/adsr.rs` and `src/phase_accumulator.rs` of `synth_utils`.
//!
//! Copy to `tests/diff_test.rs` of the crate and run
//!
//!     cargo test --offline --test diff_test -- --nocapture
//!     cargo test --offline --release --test diff_test -- --nocapture
//!
//! It drives the public API (`adsr::*` directly, the private phase accumulator both through `adsr::Adsr` and through
//! `lfo::Lfo`, its only other user) with long pseudo-random call sequences from a fixed-seed LCG and folds every observable
//! output (return values bit-for-bit, `Debug` renderings, `PartialEq` results, and whether/when a call panicked) into
//! FNV-1a hashes. The hashes are printed as `HASH <section> <value>` and compared with the values obtained from the
//! unmodified crate, so the test is self-checking.

use core::fmt::Write as _;
use std::panic::{catch_unwind, AssertUnwindSafe};
use synth_utils::{adsr, lfo};

/// Hashes measured on the unmodified crate.
///
/// The `lfo` hash is the same in debug and release builds. The other three depend on the build profile, for reasons that
/// are already present in the unmodified crate:
/// * `SustainLevel::from(-0.0)` is `-0.0` in a debug build and `+0.0` in a release build (`f32::max(-0.0, 0.0)` may
///   return either zero), which shows in `f32::from(SustainLevel)` and in the `Debug` rendering of `Adsr`;
/// * the out-of-contract section provokes arithmetic-overflow panics, which exist in debug builds only.
const EXPECT_LFO: u64 = 0x95d4eb22dd426b36;
#[cfg(debug_assertions)]
const EXPECT_CONVERSIONS: u64 = 0xf4f66fa0877d2750;
#[cfg(debug_assertions)]
const EXPECT_ADSR: u64 = 0xa7870a18e548f978;
#[cfg(debug_assertions)]
const EXPECT_OUT_OF_CONTRACT: u64 = 0x9c3078ff38e78f76;
#[cfg(not(debug_assertions))]
const EXPECT_CONVERSIONS: u64 = 0xe6217ece4a1b42fb;
#[cfg(not(debug_assertions))]
const EXPECT_ADSR: u64 = 0xa480626e0acdbd4e;
#[cfg(not(debug_assertions))]
const EXPECT_OUT_OF_CONTRACT: u64 = 0xb813be3e5ab049a5;

// ------------------------------------------------------------------------------------------------------------------

struct Lcg(u64);

impl Lcg {
    fn next_u32(&mut self) -> u32 {
        // Knuth MMIX constants
        self.0 = self
            .0
            .wrapping_mul(6364136223846793005)
            .wrapping_add(1442695040888963407);
        (self.0 >> 32) as u32
    }

    fn below(&mut self, n: u32) -> u32 {
        self.next_u32() % n
    }

    /// uniform in `[0, 1)`
    fn unit(&mut self) -> f32 {
        (self.next_u32() >> 8) as f32 / 16_777_216.0_f32
    }
}

struct Fnv(u64);

impl Fnv {
    fn new() -> Self {
        Self(0xcbf2_9ce4_8422_2325)
    }
    fn byte(&mut self, b: u8) {
        self.0 ^= b as u64;
        self.0 = self.0.wrapping_mul(0x0000_0100_0000_01b3);
    }
    fn u32(&mut self, v: u32) {
        for b in v.to_le_bytes() {
            self.byte(b);
        }
    }
    fn f32(&mut self, v: f32) {
        self.u32(v.to_bits());
    }
    fn bool(&mut self, v: bool) {
        self.byte(v as u8);
    }
    fn debug<T: core::fmt::Debug>(&mut self, v: &T) {
        write!(self, "{:?}", v).unwrap();
        self.byte(0xff);
    }
}

impl core::fmt::Write for Fnv {
    fn write_str(&mut self, s: &str) -> core::fmt::Result {
        for b in s.bytes() {
            self.byte(b);
        }
        Ok(())
    }
}

const EDGE_VALUES: [f32; 40] = [
    0.0,
    -0.0,
    1.0,
    -1.0,
    0.5,
    -0.5,
    0.001,
    0.000_999_9,
    0.001_000_1,
    0.002,
    0.01,
    0.1,
    0.25,
    0.75,
    0.999_999_9,
    1.000_000_1,
    2.0,
    10.0,
    19.999_998,
    20.0,
    20.000_002,
    100.0,
    -100.0,
    1.0e-10,
    -1.0e-10,
    1.0e10,
    -1.0e10,
    1.0e30,
    -1.0e30,
    f32::MIN_POSITIVE,
    -f32::MIN_POSITIVE,
    1.0e-45, // subnormal
    f32::EPSILON,
    f32::MAX,
    f32::MIN,
    f32::INFINITY,
    f32::NEG_INFINITY,
    f32::NAN,
    -f32::NAN,
    16_777_216.0,
];

/// a parameter value: mostly a short musically useful one (so that phases complete), sometimes anything at all
fn param(rng: &mut Lcg) -> f32 {
    match rng.below(10) {
        0 | 1 => EDGE_VALUES[rng.below(EDGE_VALUES.len() as u32) as usize],
        2 => f32::from_bits(rng.next_u32()), // any bit pattern, including NaNs with payloads
        3 => rng.unit() * 25.0 - 2.0,        // whole legal time range and a bit outside
        4 => rng.unit() * 1.4 - 0.2,         // whole legal sustain range and a bit outside
        5 | 6 => rng.unit(),
        _ => rng.unit() * 0.05, // short
    }
}

fn random_input(rng: &mut Lcg) -> adsr::Input {
    let v = param(rng);
    match rng.below(4) {
        0 => adsr::Input::Attack(v.into()),
        1 => adsr::Input::Decay(v.into()),
        2 => adsr::Input::Sustain(v.into()),
        _ => adsr::Input::Release(v.into()),
    }
}

// ------------------------------------------------------------------------------------------------------------------

fn conversions(h: &mut Fnv) {
    h.f32(adsr::MIN_TIME_PERIOD_SEC);
    h.f32(adsr::MAX_TIME_PERIOD_SEC);

    let mut rng = Lcg(0x5eed_0001);
    let mut prev = adsr::Input::Attack(0.0.into());
    for i in 0..200_000_u32 {
        let v = if (i as usize) < EDGE_VALUES.len() {
            EDGE_VALUES[i as usize]
        } else {
            param(&mut rng)
        };
        let t = adsr::TimePeriod::from(v);
        let s = adsr::SustainLevel::from(v);
        h.f32(f32::from(t));
        h.f32(f32::from(s));
        h.debug(&t);
        h.debug(&s);
        h.bool(t == adsr::TimePeriod::from(f32::from(t)));
        h.bool(s == adsr::SustainLevel::from(f32::from(s)));
        let input = match i % 4 {
            0 => adsr::Input::Attack(t),
            1 => adsr::Input::Decay(t),
            2 => adsr::Input::Sustain(s),
            _ => adsr::Input::Release(t),
        };
        h.debug(&input);
        h.bool(input == prev);
        h.bool(input == input.clone());
        prev = input;
    }
    for st in [
        adsr::State::AtRest,
        adsr::State::Attack,
        adsr::State::Decay,
        adsr::State::Sustain,
        adsr::State::Release,
    ] {
        h.debug(&st);
        h.bool(st == adsr::State::Decay);
    }
}

/// one random ADSR call; every observable is hashed after it
fn adsr_step(env: &mut adsr::Adsr, rng: &mut Lcg, h: &mut Fnv, tick_weight: u32) {
    match rng.below(tick_weight + 6) {
        0 => env.gate_on(),
        1 => env.gate_off(),
        2 => env.set_input(random_input(rng)),
        3 => {
            // burst of parameter changes, then a gate event
            for _ in 0..rng.below(4) {
                env.set_input(random_input(rng));
            }
            if rng.below(2) == 0 {
                env.gate_on()
            } else {
                env.gate_off()
            }
        }
        4 => {
            // a copy behaves like the original
            let mut copy = *env;
            copy.tick();
            h.f32(copy.value());
            h.debug(&copy);
        }
        5 => {
            // quick double gate events
            env.gate_on();
            h.f32(env.value());
            env.gate_off();
            h.f32(env.value());
            env.gate_on();
        }
        _ => env.tick(),
    }
    h.f32(env.value());
    h.debug(env);
}

fn adsr_in_contract(h: &mut Fnv) {
    let sample_rates = [
        100.0_f32, 100.5, 441.0, 1_000.0, 8_000.0, 12_345.678, 44_100.0, 48_000.0, 96_000.0, 192_000.0,
    ];
    for (i, &sr) in sample_rates.iter().enumerate() {
        for (j, &tick_weight) in [2_u32, 20, 400].iter().enumerate() {
            let mut rng = Lcg(0xad5e_0000 + (i as u64) * 16 + j as u64);
            let mut env = adsr::Adsr::new(sr);
            h.f32(env.value());
            h.debug(&env);
            for _ in 0..60_000 {
                adsr_step(&mut env, &mut rng, h, tick_weight);
            }
        }
    }

    // deterministic full envelopes: every timed phase from start to end with every output hashed
    for &sr in &[100.0_f32, 1_000.0, 48_000.0] {
        for &(a, d, s, r) in &[
            (0.001_f32, 0.001_f32, 1.0_f32, 0.001_f32),
            (0.1, 0.1, 0.5, 0.1),
            (0.05, 0.2, 0.0, 0.3),
            (0.3, 0.01, 0.999, 0.02),
            (1.0, 0.5, 0.25, 2.0),
            (-5.0, f32::NAN, 7.0, f32::INFINITY),
        ] {
            let mut env = adsr::Adsr::new(sr);
            env.set_input(adsr::Input::Attack(a.into()));
            env.set_input(adsr::Input::Decay(d.into()));
            env.set_input(adsr::Input::Sustain(s.into()));
            env.set_input(adsr::Input::Release(r.into()));
            env.gate_on();
            let n = ((a.max(0.001).min(20.0) + d.max(0.001).min(20.0)) * sr) as usize + 20;
            for _ in 0..n.min(150_000) {
                env.tick();
                h.f32(env.value());
            }
            h.debug(&env);
            env.gate_off();
            let n = (r.max(0.001).min(20.0) * sr) as usize + 20;
            for _ in 0..n.min(150_000) {
                env.tick();
                h.f32(env.value());
            }
            h.debug(&env);
        }
    }

    // a 20 s phase at 192 kHz: the slowest increment, rescaled in mid-phase
    let mut env = adsr::Adsr::new(192_000.0);
    env.set_input(adsr::Input::Attack(20.0.into()));
    env.set_input(adsr::Input::Release(20.0.into()));
    env.gate_on();
    for i in 0..400_000_u32 {
        env.tick();
        h.f32(env.value());
        if i == 300_000 {
            env.set_input(adsr::Input::Attack(0.5.into()));
        }
        if i == 350_000 {
            env.gate_off();
        }
    }
    h.debug(&env);
}

fn lfo_observe(osc: &lfo::Lfo, h: &mut Fnv) {
    for ws in [
        lfo::Waveshape::Sine,
        lfo::Waveshape::Triangle,
        lfo::Waveshape::UpSaw,
        lfo::Waveshape::DownSaw,
        lfo::Waveshape::Square,
    ] {
        h.f32(osc.get(ws));
    }
    h.debug(osc);
}

fn lfo_step(osc: &mut lfo::Lfo, sr: f32, rng: &mut Lcg, h: &mut Fnv, in_contract: bool) {
    match rng.below(24) {
        0 => {
            let f = match rng.below(6) {
                0 => 0.0,
                1 => sr,
                2 => sr * 0.5,
                3 => rng.unit() * sr,
                4 if !in_contract => param(rng) * sr,
                _ => rng.unit() * 20.0,
            };
            let f = if in_contract { f.max(0.0).min(sr) } else { f };
            osc.set_frequency(f);
        }
        1 => osc.reset(),
        2 => {
            let p = match rng.below(4) {
                0 => EDGE_VALUES[rng.below(EDGE_VALUES.len() as u32) as usize],
                1 => f32::from_bits(rng.next_u32()),
                2 => rng.unit() * 8.0 - 4.0,
                _ => rng.unit(),
            };
            osc.set_phase(p);
        }
        3 => {
            let copy = *osc;
            h.bool(copy == *osc);
            let mut copy = copy;
            copy.tick();
            h.bool(copy == *osc);
        }
        _ => osc.tick(),
    }
    lfo_observe(osc, h);
}

fn lfo_in_contract(h: &mut Fnv) {
    let sample_rates = [100.0_f32, 1_000.0, 12_345.678, 44_100.0, 48_000.0, 192_000.0];
    for (i, &sr) in sample_rates.iter().enumerate() {
        let mut rng = Lcg(0x1f0_0000 + i as u64);
        let mut osc = lfo::Lfo::new(sr);
        lfo_observe(&osc, h);
        for _ in 0..80_000 {
            lfo_step(&mut osc, sr, &mut rng, h, true);
        }
    }
}

/// sample rates and frequencies outside the documented ranges: overflow panics are possible in debug builds, so each
/// run is wrapped in `catch_unwind` and the position of the panic (if any) is part of the hash
fn out_of_contract(h: &mut Fnv) {
    let sample_rates = [
        0.0_f32,
        -0.0,
        -1.0,
        -48_000.0,
        f32::NAN,
        f32::INFINITY,
        f32::NEG_INFINITY,
        1.0e-30,
        1.0e-3,
        0.5,
        1.0,
        10.0,
        50.0,
        99.0,
        1.0e6,
        1.0e9,
        1.0e20,
        f32::MAX,
        f32::MIN_POSITIVE,
    ];
    let hook = std::panic::take_hook();
    std::panic::set_hook(Box::new(|_| {}));
    for (i, &sr) in sample_rates.iter().enumerate() {
        for rep in 0..4_u64 {
            let mut rng = Lcg(0xbad_0000 + (i as u64) * 8 + rep);
            let mut count = 0_u32;
            let r = catch_unwind(AssertUnwindSafe(|| {
                let mut env = adsr::Adsr::new(sr);
                for _ in 0..5_000 {
                    adsr_step(&mut env, &mut rng, h, 8);
                    count += 1;
                }
            }));
            h.bool(r.is_ok());
            h.u32(count);

            let mut count = 0_u32;
            let r = catch_unwind(AssertUnwindSafe(|| {
                let mut osc = lfo::Lfo::new(sr);
                for _ in 0..5_000 {
                    lfo_step(&mut osc, sr, &mut rng, h, false);
                    count += 1;
                }
            }));
            h.bool(r.is_ok());
            h.u32(count);
        }
    }
    std::panic::set_hook(hook);
}

#[test]
fn differential_hashes() {
    let mut results = Vec::new();
    for (name, section, expect) in [
        ("conversions", conversions as fn(&mut Fnv), EXPECT_CONVERSIONS),
        ("adsr", adsr_in_contract, EXPECT_ADSR),
        ("lfo", lfo_in_contract, EXPECT_LFO),
        ("out_of_contract", out_of_contract, EXPECT_OUT_OF_CONTRACT),
    ] {
        let mut h = Fnv::new();
        section(&mut h);
        println!("HASH {name} {:#018x}", h.0);
        results.push((name, h.0, expect));
    }
    for (name, got, expect) in results {
        assert_eq!(got, expect, "section {name}: {got:#018x} != {expect:#018x}");
    }
}
