//! Differential test for `synth_utils::mono_midi_receiver`.
//!
//! Drives `MonoMidiReceiver` through long pseudo-random call sequences using only the public API and folds every
//! observable output (after every single call) into one FNV-1a hash per scenario and one overall hash.
//!
//! Usage: copy to `tests/diff_test.rs` of the crate and run
//! `cargo test --offline --test diff_test -- --nocapture` (and the same with `--release`).
//! The printed hashes must be identical for the clean crate and for every behaviour-preserving change; the overall
//! hash is additionally pinned to the value measured on the clean crate.

use synth_utils::mono_midi_receiver::{MonoMidiReceiver, NotePriority, RetriggerMode};

/// Overall hash measured on the clean crate (identical in debug and release builds).
const BASELINE_HASH: u64 = 0x0df0_6d29_cf3b_d114;

// ---------------------------------------------------------------------------------------------------------------------
// tiny deterministic helpers
// ---------------------------------------------------------------------------------------------------------------------

struct Lcg(u64);

impl Lcg {
    fn next_u32(&mut self) -> u32 {
        // Knuth MMIX constants, top 32 bits are returned
        self.0 = self
            .0
            .wrapping_mul(6364136223846793005)
            .wrapping_add(1442695040888963407);
        (self.0 >> 32) as u32
    }

    /// uniform-ish value in `[0, n)`
    fn below(&mut self, n: u32) -> u32 {
        self.next_u32() % n
    }

    fn byte(&mut self) -> u8 {
        (self.next_u32() >> 11) as u8
    }

    fn pick(&mut self, choices: &[u8]) -> u8 {
        choices[self.below(choices.len() as u32) as usize]
    }
}

struct Fnv(u64);

impl Fnv {
    fn new() -> Self {
        Fnv(0xcbf2_9ce4_8422_2325)
    }
    fn u8(&mut self, b: u8) {
        self.0 ^= u64::from(b);
        self.0 = self.0.wrapping_mul(0x0000_0100_0000_01b3);
    }
    fn u32(&mut self, v: u32) {
        for b in v.to_le_bytes() {
            self.u8(b);
        }
    }
    fn u64(&mut self, v: u64) {
        for b in v.to_le_bytes() {
            self.u8(b);
        }
    }
    fn f32(&mut self, v: f32) {
        // bit-exact, distinguishes -0.0 from 0.0 and every NaN payload
        self.u32(v.to_bits());
    }
    fn bool(&mut self, v: bool) {
        self.u8(v as u8);
    }
}

/// Hash every output that can be read without changing the receiver.
fn observe(mr: &MonoMidiReceiver, h: &mut Fnv) {
    h.u8(mr.note_num());
    h.f32(mr.pitch_bend());
    h.f32(mr.velocity());
    h.f32(mr.mod_wheel());
    h.f32(mr.volume());
    h.f32(mr.vcf_cutoff());
    h.f32(mr.vcf_resonance());
    h.f32(mr.portamento_time());
    h.bool(mr.portamento_enabled());
    h.bool(mr.sustain_enabled());
    h.bool(mr.gate());
}

// ---------------------------------------------------------------------------------------------------------------------
// stimulus
// ---------------------------------------------------------------------------------------------------------------------

/// 7-bit data values with the edges over-represented
const EDGE_DATA: [u8; 12] = [0, 1, 2, 62, 63, 64, 65, 100, 125, 126, 127, 42];

/// controller numbers: every implemented one, their neighbours, and some unrelated ones
const CC_NUMS: [u8; 24] = [
    0x01, 0x07, 0x47, 0x4A, 0x40, 0x41, 0x05, 0x79, 0x7B, // implemented
    0x00, 0x02, 0x06, 0x08, 0x04, 0x3F, 0x42, 0x46, 0x48, 0x49, 0x4B, 0x78, 0x7A, 0x7C, 0x7F,
];

/// system real-time bytes, may appear anywhere
const REALTIME: [u8; 8] = [0xF8, 0xF9, 0xFA, 0xFB, 0xFC, 0xFD, 0xFE, 0xFF];

/// system common / sysex bytes
const SYSTEM: [u8; 8] = [0xF0, 0xF1, 0xF2, 0xF3, 0xF4, 0xF5, 0xF6, 0xF7];

fn data7(rng: &mut Lcg) -> u8 {
    if rng.below(3) == 0 {
        rng.pick(&EDGE_DATA)
    } else {
        rng.byte() & 0x7F
    }
}

/// a note from a pool whose size is chosen by the scenario, so that note-offs often match held notes and so that the
/// 32-entry held-note buffer is overflowed in the scenarios with a big pool
fn note(rng: &mut Lcg, pool: u32) -> u8 {
    match rng.below(8) {
        0 => 0,
        1 => 127,
        _ => (30 + rng.below(pool)) as u8 & 0x7F,
    }
}

/// channel nibble: mostly the listened channel, sometimes a neighbour or a random one
fn chan(rng: &mut Lcg, listen: u8) -> u8 {
    let listen = listen.min(15);
    match rng.below(6) {
        0 => rng.byte() & 0x0F,
        1 => listen.wrapping_add(1) & 0x0F,
        _ => listen,
    }
}

struct Driver {
    mr: MonoMidiReceiver,
    h: Fnv,
    calls: u64,
}

impl Driver {
    fn feed(&mut self, rng: &mut Lcg, byte: u8, realtime_noise: bool) {
        // occasionally squeeze a real-time byte in front of any byte, even in the middle of a message
        if realtime_noise && rng.below(9) == 0 {
            let rt = rng.pick(&REALTIME);
            self.mr.parse(rt);
            self.after_call(rng);
        }
        self.mr.parse(byte);
        self.after_call(rng);
    }

    fn after_call(&mut self, rng: &mut Lcg) {
        self.calls += 1;
        observe(&self.mr, &mut self.h);
        // read the self-clearing edge flags at irregular moments, in either order, sometimes twice
        match rng.below(8) {
            0 => {
                let r = self.mr.rising_gate();
                self.h.bool(r);
            }
            1 => {
                let f = self.mr.falling_gate();
                self.h.bool(f);
            }
            2 => {
                let r = self.mr.rising_gate();
                let f = self.mr.falling_gate();
                self.h.bool(r);
                self.h.bool(f);
                // a true rising edge implies a high gate, a true falling edge a low one
                assert!(!r || self.mr.gate());
                assert!(!f || !self.mr.gate());
            }
            3 => {
                let f = self.mr.falling_gate();
                let r = self.mr.rising_gate();
                let r2 = self.mr.rising_gate();
                let f2 = self.mr.falling_gate();
                self.h.bool(f);
                self.h.bool(r);
                self.h.bool(r2);
                self.h.bool(f2);
                assert!(!r2 && !f2);
            }
            _ => (),
        }
        observe(&self.mr, &mut self.h);
    }
}

/// One scenario: `steps` random actions against a receiver listening on `channel`.
///
/// `style` selects the byte-stream flavour:
/// 0 = well formed messages with explicit status bytes, 1 = well formed using running status where possible,
/// 2 = well formed with real-time bytes injected anywhere, 3 = pure random bytes, 4 = mixture of everything.
fn scenario(seed: u64, channel: u8, style: u32, pool: u32, steps: u32) -> (u64, u64) {
    let mut rng = Lcg(seed ^ 0x9E37_79B9_7F4A_7C15);
    let mut d = Driver {
        mr: MonoMidiReceiver::new(channel),
        h: Fnv::new(),
        calls: 0,
    };
    // the power-on state is observable too
    observe(&d.mr, &mut d.h);

    let mut last_status: u8 = 0;

    for _ in 0..steps {
        let noise = style == 2 || style == 4;
        let running = style == 1 || style == 4;

        // mode changes
        match rng.below(40) {
            0 => d.mr.set_retrigger_mode(RetriggerMode::AllowRetrigger),
            1 => d.mr.set_retrigger_mode(RetriggerMode::NoRetrigger),
            2 => d.mr.set_note_priority(NotePriority::Last),
            3 => d.mr.set_note_priority(NotePriority::High),
            4 => d.mr.set_note_priority(NotePriority::Low),
            _ => (),
        }
        observe(&d.mr, &mut d.h);

        if style == 3 || (style == 4 && rng.below(10) == 0) {
            // raw garbage, biased towards status bytes so that messages do get completed
            let n = 1 + rng.below(6);
            for _ in 0..n {
                let b = match rng.below(6) {
                    0 => 0x80 | (rng.byte() & 0x70) | chan(&mut rng, channel),
                    1 => rng.pick(&EDGE_DATA),
                    2 => rng.pick(&SYSTEM),
                    3 => rng.pick(&REALTIME),
                    _ => rng.byte(),
                };
                d.feed(&mut rng, b, false);
            }
            last_status = 0; // unknown after garbage
            continue;
        }

        let ch = chan(&mut rng, channel);
        // message kind
        let kind = rng.below(100);
        let (status, data): (u8, [u8; 2]) = if kind < 34 {
            // note on (velocity 0 included through the edge values)
            let vel = if rng.below(6) == 0 {
                0
            } else {
                data7(&mut rng)
            };
            (0x90 | ch, [note(&mut rng, pool), vel])
        } else if kind < 60 {
            // note off
            (0x80 | ch, [note(&mut rng, pool), data7(&mut rng)])
        } else if kind < 82 {
            // control change
            let cc = if rng.below(5) == 0 {
                rng.byte() & 0x7F
            } else {
                rng.pick(&CC_NUMS)
            };
            // all-notes-off / reset-all-controllers a bit rarer so that state builds up
            let cc = if (cc == 0x7B || cc == 0x79) && rng.below(3) != 0 {
                0x01
            } else {
                cc
            };
            (0xB0 | ch, [cc, data7(&mut rng)])
        } else if kind < 92 {
            // pitch bend, LSB first, edges: 0, 8192, 16383
            let (lsb, msb) = match rng.below(6) {
                0 => (0, 0),
                1 => (0, 0x40),
                2 => (0x7F, 0x7F),
                3 => (1, 0x40),
                _ => (data7(&mut rng), data7(&mut rng)),
            };
            (0xE0 | ch, [lsb, msb])
        } else if kind < 94 {
            // poly aftertouch (unsupported, two data bytes)
            (0xA0 | ch, [data7(&mut rng), data7(&mut rng)])
        } else if kind < 96 {
            // program change (unsupported, ONE data byte)
            let b = data7(&mut rng);
            let st = 0xC0 | ch;
            if !(running && st == last_status) {
                d.feed(&mut rng, st, noise);
            }
            d.feed(&mut rng, b, noise);
            last_status = st;
            continue;
        } else if kind < 97 {
            // channel pressure (unsupported, ONE data byte)
            let b = data7(&mut rng);
            let st = 0xD0 | ch;
            if !(running && st == last_status) {
                d.feed(&mut rng, st, noise);
            }
            d.feed(&mut rng, b, noise);
            last_status = st;
            continue;
        } else if kind < 98 {
            // system exclusive with a random payload, terminated or not
            d.feed(&mut rng, 0xF0, noise);
            let n = rng.below(7);
            for _ in 0..n {
                let b = data7(&mut rng);
                d.feed(&mut rng, b, noise);
            }
            if rng.below(3) != 0 {
                d.feed(&mut rng, 0xF7, noise);
            }
            last_status = 0;
            continue;
        } else if kind < 99 {
            // system common: cancels running status
            let st = rng.pick(&[0xF1, 0xF2, 0xF3, 0xF6]);
            d.feed(&mut rng, st, noise);
            let n = match st {
                0xF2 => 2,
                0xF1 | 0xF3 => 1,
                _ => 0,
            };
            for _ in 0..n {
                let b = data7(&mut rng);
                d.feed(&mut rng, b, noise);
            }
            last_status = 0;
            continue;
        } else {
            // truncated message: status and one data byte only, the next status aborts it
            let st = 0x90 | ch;
            d.feed(&mut rng, st, noise);
            let b = note(&mut rng, pool);
            d.feed(&mut rng, b, noise);
            last_status = 0;
            continue;
        };

        if !(running && status == last_status && rng.below(4) != 0) {
            d.feed(&mut rng, status, noise);
        }
        d.feed(&mut rng, data[0], noise);
        d.feed(&mut rng, data[1], noise);
        last_status = status;
    }

    // drain the edge flags at the end
    let r = d.mr.rising_gate();
    let f = d.mr.falling_gate();
    d.h.bool(r);
    d.h.bool(f);
    observe(&d.mr, &mut d.h);

    (d.h.0, d.calls)
}

/// Deterministic (non random) corner cases: every controller with every value, every pitch-bend corner, the held-note
/// buffer filled past its capacity and emptied again, on every channel including the clamped ones.
fn exhaustive_corners() -> u64 {
    let mut h = Fnv::new();
    for &channel in &[0u8, 1, 7, 14, 15, 16, 200, 255] {
        let ch = channel.min(15);
        let mut mr = MonoMidiReceiver::new(channel);
        observe(&mr, &mut h);

        // every controller number with every value, on the listened channel and on the next one
        for &st in &[0xB0 | ch, 0xB0 | (ch.wrapping_add(1) & 0x0F)] {
            for cc in 0..=127u8 {
                for val in 0..=127u8 {
                    mr.parse(st);
                    mr.parse(cc);
                    mr.parse(val);
                    observe(&mr, &mut h);
                }
                h.bool(mr.rising_gate());
                h.bool(mr.falling_gate());
            }
        }

        // pitch bend: sweep of the MSB for a few LSBs
        for &lsb in &[0u8, 1, 63, 64, 126, 127] {
            for msb in 0..=127u8 {
                mr.parse(0xE0 | ch);
                mr.parse(lsb);
                mr.parse(msb);
                observe(&mr, &mut h);
            }
        }
        // reset all controllers brings the bend back
        mr.parse(0xB0 | ch);
        mr.parse(0x79);
        mr.parse(0);
        observe(&mr, &mut h);

        // hold more notes than the buffer can remember, in every priority / retrigger mode, release them in three
        // different orders
        for mode in 0..6u32 {
            match mode % 3 {
                0 => mr.set_note_priority(NotePriority::Last),
                1 => mr.set_note_priority(NotePriority::High),
                _ => mr.set_note_priority(NotePriority::Low),
            }
            if mode < 3 {
                mr.set_retrigger_mode(RetriggerMode::NoRetrigger);
            } else {
                mr.set_retrigger_mode(RetriggerMode::AllowRetrigger);
            }
            for order in 0..3u32 {
                for i in 0..40u32 {
                    let n = (20 + ((i * 7) % 41)) as u8; // scrambled, 40 distinct notes in [20, 60]
                    mr.parse(0x90 | ch);
                    mr.parse(n);
                    mr.parse((1 + i * 3) as u8); // velocities 1..=118
                    observe(&mr, &mut h);
                    if i % 5 == 0 {
                        h.bool(mr.rising_gate());
                    }
                    if i % 7 == 0 {
                        h.bool(mr.falling_gate());
                    }
                }
                // a duplicate note-on of a held note
                mr.parse(27);
                mr.parse(99);
                observe(&mr, &mut h);
                for j in 0..40u32 {
                    let i = match order {
                        0 => j,
                        1 => 39 - j,
                        _ => (j * 11) % 40,
                    };
                    let n = (20 + ((i * 7) % 41)) as u8;
                    if j % 2 == 0 {
                        mr.parse(0x80 | ch);
                        mr.parse(n);
                        mr.parse(64);
                    } else {
                        // note-on with velocity zero
                        mr.parse(0x90 | ch);
                        mr.parse(n);
                        mr.parse(0);
                    }
                    observe(&mr, &mut h);
                    if j % 3 == 0 {
                        h.bool(mr.falling_gate());
                        h.bool(mr.rising_gate());
                    }
                }
                // stray note-off with nothing held, then all-notes-off with nothing held
                mr.parse(0x80 | ch);
                mr.parse(60);
                mr.parse(0);
                observe(&mr, &mut h);
                h.bool(mr.falling_gate());
                mr.parse(0xB0 | ch);
                mr.parse(0x7B);
                mr.parse(0);
                observe(&mr, &mut h);
                h.bool(mr.falling_gate());
                h.bool(mr.rising_gate());

                // all-notes-off with notes held, edge read / not read before the next note-on
                for k in 0..4u8 {
                    mr.parse(0x90 | ch);
                    mr.parse(50 + k);
                    mr.parse(100);
                    mr.parse(70 + k);
                    mr.parse(100);
                    observe(&mr, &mut h);
                    if k % 2 == 0 {
                        h.bool(mr.rising_gate());
                    }
                    mr.parse(0xB0 | ch);
                    mr.parse(0x7B);
                    mr.parse(k);
                    observe(&mr, &mut h);
                    if k < 2 {
                        h.bool(mr.falling_gate());
                        h.bool(mr.rising_gate());
                    }
                }
            }
        }
    }
    h.0
}

#[test]
fn differential_hash_of_every_observable_output() {
    let mut total = Fnv::new();
    let mut total_calls = 0u64;

    let corners = exhaustive_corners();
    println!("corners                                   hash={corners:016x}");
    total.u64(corners);

    // (seed, channel, style, note pool size, steps)
    let scenarios: [(u64, u8, u32, u32, u32); 16] = [
        (1, 0, 0, 6, 40_000),
        (2, 1, 1, 6, 40_000),
        (3, 15, 2, 6, 40_000),
        (4, 9, 3, 6, 60_000),
        (5, 5, 4, 6, 60_000),
        (6, 16, 0, 60, 40_000), // channel clamps to 15, pool overflows the held-note buffer
        (7, 255, 1, 90, 40_000), // channel clamps to 15
        (8, 3, 2, 90, 40_000),
        (9, 0, 4, 90, 60_000),
        (10, 7, 4, 3, 60_000),
        (0xDEAD_BEEF, 2, 4, 40, 80_000),
        (0xFFFF_FFFF_FFFF_FFFF, 14, 4, 12, 80_000),
        (0, 1, 4, 2, 60_000),
        (0x1234_5678_9ABC_DEF0, 8, 3, 6, 100_000),
        (77, 1, 0, 1, 30_000),
        (78, 12, 1, 97, 60_000),
    ];

    for (seed, channel, style, pool, steps) in scenarios {
        let (hash, calls) = scenario(seed, channel, style, pool, steps);
        println!(
            "seed={seed:016x} ch={channel:3} style={style} pool={pool:2} steps={steps:6} calls={calls:7} hash={hash:016x}"
        );
        total.u64(hash);
        total.u64(calls);
        total_calls += calls;
    }

    println!("TOTAL parse calls = {total_calls}");
    println!("TOTAL HASH = {:016x}", total.0);

    assert_eq!(
        total.0, BASELINE_HASH,
        "observable behaviour differs from the clean crate"
    );
}
