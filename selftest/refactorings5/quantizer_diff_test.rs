//! Differential test for `synth_utils::quantizer`.
//!
//! Drives the quantizer through long pseudo-random call sequences (fixed-seed LCG) using only the public API and
//! hashes every observable output (FNV-1a, 64 bit).  The hashes printed by this test must be identical on the clean
//! crate and with every refactoring applied, in debug and in release builds.
//!
//! Run (copied to `tests/diff_test.rs` of the crate):
//!   cargo test --offline --test diff_test -- --nocapture
//!   cargo test --offline --release --test diff_test -- --nocapture

use synth_utils::quantizer::{
    Conversion, Note, Quantizer, HALF_SEMITONE_WIDTH, NUM_NOTES_PER_OCTAVE, SEMITONE_WIDTH,
};

// ---------------------------------------------------------------------------------------------------------------------
// helpers
// ---------------------------------------------------------------------------------------------------------------------

/// Two FNV-1a states fed with the same data.
///
/// * `raw` hashes every output bit for bit.
/// * `canon` is the same except that a `fraction` of `-0.0` is hashed as `+0.0`.
///
/// The reason for the second one: `convert` clamps with `v_in.max(0.0_f32).min(V_MAX)` and `f32::max(-0.0, 0.0)` is
/// allowed to return either zero; with the toolchain used here it yields `-0.0` in a debug build and `+0.0` in a
/// release build, so for the input `-0.0` the clean crate reports `fraction == -0.0` (debug) or `+0.0` (release).
/// `raw` therefore has one expected value per build profile, `canon` has a single one.
#[derive(Clone, Copy, PartialEq, Eq, Debug)]
struct Hashes {
    raw: u64,
    canon: u64,
}

struct Fnv(Hashes);

impl Fnv {
    fn new() -> Self {
        Fnv(Hashes {
            raw: 0xcbf2_9ce4_8422_2325,
            canon: 0xcbf2_9ce4_8422_2325,
        })
    }
    fn step(state: &mut u64, b: u8) {
        *state ^= b as u64;
        *state = state.wrapping_mul(0x0000_0100_0000_01b3);
    }
    fn byte(&mut self, b: u8) {
        Self::step(&mut self.0.raw, b);
        Self::step(&mut self.0.canon, b);
    }
    fn u32(&mut self, v: u32) {
        for b in v.to_le_bytes() {
            self.byte(b);
        }
    }
    fn u64(&mut self, v: u64) {
        for b in v.to_le_bytes() {
            self.byte(b);
        }
    }
    fn f32(&mut self, v: f32) {
        self.u32(v.to_bits());
    }
    fn conversion(&mut self, c: &Conversion) {
        self.byte(c.note_num);
        self.f32(c.stairstep);
        let raw = c.fraction.to_bits();
        let canon = if raw == 0x8000_0000 { 0 } else { raw };
        for (r, c) in raw.to_le_bytes().into_iter().zip(canon.to_le_bytes()) {
            Self::step(&mut self.0.raw, r);
            Self::step(&mut self.0.canon, c);
        }
    }
    /// all twelve `is_allowed` answers, asked both through the constants and through `Note::new`/`From<u8>`
    fn scale(&mut self, q: &Quantizer) {
        let mut bits = 0u32;
        for n in 0..12u8 {
            if q.is_allowed(Note::new(n)) {
                bits |= 1 << n;
            }
        }
        // out of range note numbers act as 11
        for (i, n) in [12u8, 13, 100, 200, 255].iter().enumerate() {
            if q.is_allowed(Note::from(*n)) {
                bits |= 1 << (12 + i);
            }
        }
        self.u32(bits);
    }
}

struct Lcg(u64);

impl Lcg {
    fn next_u32(&mut self) -> u32 {
        self.0 = self
            .0
            .wrapping_mul(6364136223846793005)
            .wrapping_add(1442695040888963407);
        (self.0 >> 32) as u32
    }
    fn below(&mut self, n: u32) -> u32 {
        self.next_u32() % n
    }
    /// uniform-ish f32 in [0, 1)
    fn unit(&mut self) -> f32 {
        (self.next_u32() >> 8) as f32 / (1u32 << 24) as f32
    }
}

const EDGE_VALUES: [f32; 40] = [
    0.0,
    -0.0,
    f32::MIN_POSITIVE,
    -f32::MIN_POSITIVE,
    1.0e-45, // smallest subnormal
    1.0e-7,
    -1.0e-7,
    0.000_001,
    0.041_666,
    0.041_667,
    0.083_333,
    0.083_334,
    1.0 / 12.0,
    0.5,
    0.999_999,
    1.0,
    1.000_001,
    4.999_999,
    5.0,
    9.916_666,
    9.916_667,
    9.958_3,
    9.999_999,
    10.0,
    10.000_001,
    10.5,
    11.0,
    100.0,
    4294.967_3,
    4295.0,
    1.0e9,
    1.0e30,
    f32::MAX,
    f32::MIN,
    -1.0,
    -1.0e9,
    f32::INFINITY,
    f32::NEG_INFINITY,
    f32::NAN,
    -f32::NAN,
];

fn random_voltage(rng: &mut Lcg, last: f32) -> f32 {
    match rng.below(16) {
        // the legal range
        0..=4 => rng.unit() * 10.0,
        // a bit beyond the legal range on both sides
        5 => rng.unit() * 14.0 - 2.0,
        // near an exact semitone boundary, within a few hysteresis widths
        6..=8 => {
            let semi = rng.below(122) as f32;
            let off = (rng.unit() - 0.5) * SEMITONE_WIDTH * 0.5;
            semi / NUM_NOTES_PER_OCTAVE + off
        }
        // small noise around the previous input (exercises the hysteresis path)
        9..=11 => {
            let noise = (rng.unit() - 0.5) * SEMITONE_WIDTH * 0.4;
            if last.is_finite() {
                last + noise
            } else {
                noise
            }
        }
        // half-semitone points
        12 => rng.below(242) as f32 * HALF_SEMITONE_WIDTH,
        // raw bit patterns: every class of f32 including NaN payloads, infinities, subnormals
        13 => f32::from_bits(rng.next_u32()),
        // edge values
        _ => EDGE_VALUES[rng.below(EDGE_VALUES.len() as u32) as usize],
    }
}

fn random_notes(rng: &mut Lcg, buf: &mut [Note; 16]) -> usize {
    let len = match rng.below(8) {
        0 => 0,
        1..=4 => 1 + rng.below(3) as usize,
        5..=6 => 1 + rng.below(12) as usize,
        _ => 16,
    };
    for slot in buf.iter_mut().take(len) {
        *slot = match rng.below(4) {
            0 => Note::new(rng.below(256) as u8), // includes out of range numbers, which act as 11
            1 => Note::from(rng.below(12) as u8),
            _ => [
                Note::C,
                Note::CSHARP,
                Note::D,
                Note::DSHARP,
                Note::E,
                Note::F,
                Note::FSHARP,
                Note::G,
                Note::GSHARP,
                Note::A,
                Note::ASHARP,
                Note::B,
            ][rng.below(12) as usize],
        };
    }
    len
}

/// one long random call history on a single quantizer
fn random_history(seed: u64, steps: usize, scale_change_one_in: u32) -> Hashes {
    let mut rng = Lcg(seed);
    let mut h = Fnv::new();
    let mut q = Quantizer::new();
    let mut last = 0.0_f32;
    let mut buf = [Note::C; 16];

    h.scale(&q);

    for _ in 0..steps {
        let op = rng.below(scale_change_one_in);
        if op == 0 {
            let len = random_notes(&mut rng, &mut buf);
            q.forbid(&buf[..len]);
            h.scale(&q);
        } else if op == 1 {
            let len = random_notes(&mut rng, &mut buf);
            q.allow(&buf[..len]);
            h.scale(&q);
        } else if op == 2 && rng.below(8) == 0 {
            // occasionally start over with a fresh quantizer (no history)
            q = Quantizer::new();
            h.scale(&q);
        } else {
            let v = random_voltage(&mut rng, last);
            last = v;
            let c = q.convert(v);
            h.conversion(&c);
            // the input stays put while the scale may change next
            if rng.below(4) == 0 {
                let c = q.convert(v);
                h.conversion(&c);
            }
        }
    }
    h.0
}

/// every one of the 4095 non-empty scales (plus the attempt to build the empty one), swept without history and with
/// history, rising and falling
fn exhaustive_scales() -> Hashes {
    let mut h = Fnv::new();
    let all: [Note; 12] = core::array::from_fn(|i| Note::new(i as u8));

    for mask in 0u32..4096 {
        let mut forbidden = [Note::C; 12];
        let mut len = 0;
        for n in 0..12 {
            if mask >> n & 1 == 0 {
                forbidden[len] = all[n];
                len += 1;
            }
        }

        // fresh quantizer per input (history free)
        for i in 0..=60u32 {
            let mut q = Quantizer::new();
            q.forbid(&forbidden[..len]);
            if i == 0 {
                h.scale(&q);
            }
            let v = i as f32 * (10.0 / 60.0) + (mask as f32) * 1.0e-5;
            h.conversion(&q.convert(v));
        }

        // one quantizer, rising then falling sweep (with history)
        let mut q = Quantizer::new();
        q.forbid(&forbidden[..len]);
        for i in 0..=130u32 {
            let v = i as f32 * 0.08 - 0.2;
            h.conversion(&q.convert(v));
        }
        for i in (0..=130u32).rev() {
            let v = i as f32 * 0.08 - 0.2 + 0.003;
            h.conversion(&q.convert(v));
        }
        // re-allow everything, input stays put
        q.allow(&all);
        h.scale(&q);
        h.conversion(&q.convert(-0.2 + 0.003));
    }
    h.0
}

/// dense sweep over the whole input range and beyond, chromatic and a few fixed scales, with and without history
fn dense_sweeps() -> Hashes {
    let mut h = Fnv::new();
    let scales: [&[Note]; 5] = [
        &[],
        &[Note::CSHARP, Note::DSHARP, Note::FSHARP, Note::GSHARP, Note::ASHARP],
        &[Note::C, Note::D, Note::E, Note::F, Note::G, Note::A, Note::B],
        &[
            Note::C,
            Note::CSHARP,
            Note::D,
            Note::E,
            Note::F,
            Note::FSHARP,
            Note::G,
            Note::GSHARP,
            Note::A,
            Note::ASHARP,
            Note::B,
        ],
        &[
            Note::CSHARP,
            Note::D,
            Note::DSHARP,
            Note::E,
            Note::F,
            Note::FSHARP,
            Note::G,
            Note::GSHARP,
            Note::A,
            Note::ASHARP,
            Note::B,
        ],
    ];

    for forbidden in scales {
        let mut with_history = Quantizer::new();
        with_history.forbid(forbidden);
        h.scale(&with_history);
        let n = 40_000u32;
        for i in 0..=n {
            let v = -0.5 + 11.0 * (i as f32 / n as f32);
            h.conversion(&with_history.convert(v));
            let mut fresh = Quantizer::new();
            fresh.forbid(forbidden);
            h.conversion(&fresh.convert(v));
        }
        for i in (0..=n).rev() {
            let v = -0.5 + 11.0 * (i as f32 / n as f32);
            h.conversion(&with_history.convert(v));
        }
    }

    // every edge value, fresh and after every other edge value
    for &a in EDGE_VALUES.iter() {
        let mut fresh = Quantizer::new();
        h.conversion(&fresh.convert(a));
        for &b in EDGE_VALUES.iter() {
            let mut q = Quantizer::new();
            q.forbid(&[Note::C, Note::B]);
            h.conversion(&q.convert(a));
            h.conversion(&q.convert(b));
            q.allow(&[Note::C]);
            h.conversion(&q.convert(b));
        }
    }

    // the f32 neighbourhood of every semitone boundary, one ulp at a time
    for semi in 0..=121u32 {
        let centre = semi as f32 / 12.0;
        let bits = centre.to_bits();
        for d in -40i32..=40 {
            let v = f32::from_bits((bits as i64 + d as i64).max(0) as u32);
            let mut fresh = Quantizer::new();
            h.conversion(&fresh.convert(v));
        }
    }
    h.0
}

/// public items that are not functions of a quantizer
fn constants_and_constructors() -> Hashes {
    let mut h = Fnv::new();
    h.f32(NUM_NOTES_PER_OCTAVE);
    h.f32(SEMITONE_WIDTH);
    h.f32(HALF_SEMITONE_WIDTH);
    h.conversion(&Conversion::new());
    for n in 0..=255u8 {
        h.byte(u8::from(Note::new(n)));
        h.byte(u8::from(Note::from(n)));
        h.byte((Note::new(n) == Note::B) as u8);
    }
    for (i, n) in [
        Note::C,
        Note::CSHARP,
        Note::D,
        Note::DSHARP,
        Note::E,
        Note::F,
        Note::FSHARP,
        Note::G,
        Note::GSHARP,
        Note::A,
        Note::ASHARP,
        Note::B,
    ]
    .iter()
    .enumerate()
    {
        h.byte(u8::from(*n));
        h.byte((*n == Note::new(i as u8)) as u8);
    }
    h.0
}

// ---------------------------------------------------------------------------------------------------------------------
// the test
// ---------------------------------------------------------------------------------------------------------------------

const NAMES: [&str; 8] = [
    "consts",
    "random_a",
    "random_b",
    "random_c",
    "random_d",
    "exhaustive_scales",
    "dense_sweeps",
    "combined",
];

/// `raw` hashes of the clean crate, debug build (`cargo test`).
const EXPECTED_RAW_DEBUG: [u64; 8] = [
    0x7e44_c1fb_1e77_4ca5,
    0x5578_22cb_3388_2e9e,
    0x2f68_2e8d_4352_29ea,
    0x4ed4_af89_4856_7f87,
    0x1f9e_2092_dd8f_963b,
    0x078e_d62e_52a2_4a64,
    0x247e_0404_3d59_1d65,
    0xda9b_f5cd_22ba_a792,
];
/// `raw` hashes of the clean crate, release build (`cargo test --release`).
const EXPECTED_RAW_RELEASE: [u64; 8] = [
    0x7e44_c1fb_1e77_4ca5,
    0x316f_26d2_f9a3_029e,
    0x9893_7ab7_09fd_ad6a,
    0xc8ff_a355_601e_e907,
    0x8ab1_0a0e_5397_10bb,
    0x078e_d62e_52a2_4a64,
    0xabb6_3260_35d5_9de5,
    0x981c_6d41_d526_b10a,
];
/// `canon` hashes of the clean crate, identical in both build profiles.
const EXPECTED_CANON: [u64; 8] = [
    0x7e44_c1fb_1e77_4ca5,
    0xe71d_5af5_295b_0b1e,
    0x99af_14b1_b6af_f56a,
    0xbd66_9c1e_0824_9e07,
    0x3488_1bc4_7962_3c3b,
    0x078e_d62e_52a2_4a64,
    0xabb6_3260_35d5_9de5,
    0xb946_3d0f_c8f3_7aa6,
];

#[test]
fn quantizer_differential_hashes() {
    let mut results: Vec<Hashes> = vec![
        constants_and_constructors(),
        // mostly conversions, occasional scale change
        random_history(0x0123_4567_89ab_cdef, 400_000, 40),
        random_history(0xdead_beef_cafe_f00d, 400_000, 200),
        // scale changes very frequent
        random_history(42, 400_000, 4),
        random_history(0xffff_ffff_ffff_ffff, 400_000, 12),
        exhaustive_scales(),
        dense_sweeps(),
    ];

    let mut combined = Fnv::new();
    for r in results.iter() {
        // each state folds in its own kind only
        let (raw, canon) = (r.raw, r.canon);
        let mut a = Fnv::new();
        a.u64(raw);
        let mut b = Fnv::new();
        b.u64(canon);
        combined.0.raw = (combined.0.raw ^ a.0.raw).wrapping_mul(0x0000_0100_0000_01b3);
        combined.0.canon = (combined.0.canon ^ b.0.canon).wrapping_mul(0x0000_0100_0000_01b3);
    }
    results.push(combined.0);

    let profile = if cfg!(debug_assertions) { "debug" } else { "release" };
    for (name, r) in NAMES.iter().zip(results.iter()) {
        println!(
            "DIFFHASH {profile:<7} {name:<18} raw {:016x}  canon {:016x}",
            r.raw, r.canon
        );
    }

    if std::env::var_os("DIFF_TEST_NO_ASSERT").is_none() {
        let expected_raw = if cfg!(debug_assertions) {
            EXPECTED_RAW_DEBUG
        } else {
            EXPECTED_RAW_RELEASE
        };
        for (i, name) in NAMES.iter().enumerate() {
            assert_eq!(
                results[i].raw, expected_raw[i],
                "raw hash of `{name}` differs from the clean crate ({profile})"
            );
            assert_eq!(
                results[i].canon, EXPECTED_CANON[i],
                "canon hash of `{name}` differs from the clean crate ({profile})"
            );
        }
    }
}
