//! Differential test for the LFO module (src/lfo.rs, src/phase_accumulator.rs, src/utils.rs).
//!
//! Drives every public entry point that reaches the three files (`Lfo` directly, `Adsr` through the shared
//! `PhaseAccumulator`/`linear_interp`/`ilog_2`, `GlideProcessor` through `is_almost`/`fabs`) with long
//! pseudo-random call sequences and folds every observable output into FNV-1a hashes:
//!
//! * the bit pattern of every `f32` returned,
//! * the `Debug` rendering of the `Lfo`/`Adsr` (this exposes every stored field, so the complete internal state is
//!   compared after every single call),
//! * the result of `PartialEq` between snapshots,
//! * whether the call panicked (each call runs under `catch_unwind`, so an added or removed panic changes the hash).
//!
//! Usage: copy to `<crate>/tests/diff_test.rs` and run
//! `cargo test --offline --test diff_test -- --nocapture` (and the same with `--release`).
//! The `HASH ...` lines must be identical before and after a behaviour-preserving change (compare debug with debug
//! and release with release: out-of-range frequencies overflow-panic in debug builds and wrap in release builds).

use std::fmt::Write as _;
use std::panic::{catch_unwind, AssertUnwindSafe};
use std::sync::atomic::{AtomicUsize, Ordering};

/// number of calls that panicked so far (reported for information, also part of the comparison)
static PANICS: AtomicUsize = AtomicUsize::new(0);

use synth_utils::adsr::{self, Adsr};
use synth_utils::glide_processor::GlideProcessor;
use synth_utils::lfo::{Lfo, Waveshape};

// ---------------------------------------------------------------------------------------------------------------
// tiny deterministic helpers

struct Lcg(u64);

impl Lcg {
    fn new(seed: u64) -> Self {
        Self(seed.wrapping_mul(0x9E37_79B9_7F4A_7C15) ^ 0xD1B5_4A32_D192_ED03)
    }
    fn next_u32(&mut self) -> u32 {
        self.0 = self
            .0
            .wrapping_mul(6364136223846793005)
            .wrapping_add(1442695040888963407);
        (self.0 >> 32) as u32
    }
    fn below(&mut self, n: u32) -> u32 {
        self.next_u32() % n
    }
    /// uniform in [0, 1)
    fn unit(&mut self) -> f32 {
        (self.next_u32() >> 8) as f32 / 16_777_216.0
    }
}

struct Fnv(u64);

impl Fnv {
    fn new() -> Self {
        Self(0xcbf2_9ce4_8422_2325)
    }
    fn byte(&mut self, b: u8) {
        self.0 ^= b as u64;
        self.0 = self.0.wrapping_mul(0x0000_0100_0000_01b3);
    }
    fn u32(&mut self, v: u32) {
        for b in v.to_le_bytes() {
            self.byte(b);
        }
    }
    fn f32(&mut self, v: f32) {
        self.u32(v.to_bits());
    }
    fn str(&mut self, s: &str) {
        for b in s.bytes() {
            self.byte(b);
        }
        self.byte(0xff);
    }
}

/// runs `f`, returns `Some(result)` or `None` if it panicked; the outcome is folded into the hash
fn guarded<T>(h: &mut Fnv, tag: u32, f: impl FnOnce() -> T) -> Option<T> {
    match catch_unwind(AssertUnwindSafe(f)) {
        Ok(v) => {
            h.u32(tag);
            Some(v)
        }
        Err(_) => {
            h.u32(0xDEAD_0000 | tag);
            PANICS.fetch_add(1, Ordering::Relaxed);
            None
        }
    }
}

const SHAPES: [Waveshape; 5] = [
    Waveshape::Sine,
    Waveshape::Triangle,
    Waveshape::UpSaw,
    Waveshape::DownSaw,
    Waveshape::Square,
];

const EDGE_F32: [f32; 24] = [
    0.0,
    -0.0,
    1.0,
    -1.0,
    0.5,
    -0.5,
    0.25,
    0.75,
    1e-30,
    -1e-30,
    f32::MIN_POSITIVE,
    f32::EPSILON,
    0.999_999_94,
    1.000_000_1,
    123_456.79,
    -98_765.43,
    1e10,
    -1e10,
    f32::MAX,
    f32::MIN,
    f32::NAN,
    f32::INFINITY,
    f32::NEG_INFINITY,
    16_777_216.0,
];

// ---------------------------------------------------------------------------------------------------------------
// LFO

fn observe_lfo(h: &mut Fnv, lfo: &Lfo, scratch: &mut String) {
    for (i, ws) in SHAPES.iter().enumerate() {
        if let Some(v) = guarded(h, 0x10 + i as u32, || lfo.get(*ws)) {
            h.f32(v);
        }
    }
    // reading is side-effect free: a second read of the first shape gives the same bits
    if let Some(v) = guarded(h, 0x16, || lfo.get(Waveshape::Sine)) {
        h.f32(v);
    }
    scratch.clear();
    write!(scratch, "{:?}", lfo).unwrap();
    h.str(scratch);
}

/// `wild == false`: only documented in-range arguments (frequencies in [0, sr], finite phases)
/// `wild == true`: additionally NaN, infinities, negative and huge frequencies, arbitrary bit patterns
fn run_lfo(h: &mut Fnv, seed: u64, sample_rate: f32, wild: bool, n_ops: usize) {
    let mut rng = Lcg::new(seed);
    let mut scratch = String::new();

    let mut lfo = match guarded(h, 0x01, || Lfo::new(sample_rate)) {
        Some(l) => l,
        None => return,
    };
    let mut snapshot = lfo;
    observe_lfo(h, &lfo, &mut scratch);

    for _ in 0..n_ops {
        let op = rng.below(100);
        if op < 55 {
            // single tick
            guarded(h, 0x02, || lfo.tick());
        } else if op < 63 {
            // burst of ticks, observed only at the end
            let k = 1 + rng.below(300);
            for _ in 0..k {
                guarded(h, 0x03, || lfo.tick());
            }
        } else if op < 78 {
            let sel = rng.below(if wild { 12 } else { 8 });
            let f = match sel {
                0 => 0.0,
                1 => sample_rate,
                2 => sample_rate / 2.0,
                3 => sample_rate / 4.0,
                4 => rng.unit() * sample_rate,
                5 => rng.unit() * 20.0,
                6 => rng.unit() * rng.unit() * rng.unit(),
                7 => sample_rate / 16_777_216.0 * (rng.below(5) as f32),
                8 => EDGE_F32[rng.below(EDGE_F32.len() as u32) as usize],
                9 => f32::from_bits(rng.next_u32()),
                10 => -rng.unit() * sample_rate,
                _ => sample_rate * (1.0 + rng.unit() * 300.0),
            };
            h.f32(f);
            guarded(h, 0x04, || lfo.set_frequency(f));
        } else if op < 83 {
            guarded(h, 0x05, || lfo.reset());
        } else if op < 95 {
            let sel = rng.below(if wild { 7 } else { 5 });
            let p = match sel {
                0 => rng.unit(),
                1 => (rng.unit() - 0.5) * 8.0,
                2 => (rng.below(9) as f32 - 4.0) * 0.25,
                3 => (rng.unit() - 0.5) * 1e6,
                4 => {
                    // finite edge values only
                    let v = EDGE_F32[rng.below(EDGE_F32.len() as u32) as usize];
                    if v.is_finite() {
                        v
                    } else {
                        -3.75
                    }
                }
                5 => EDGE_F32[rng.below(EDGE_F32.len() as u32) as usize],
                _ => f32::from_bits(rng.next_u32()),
            };
            h.f32(p);
            guarded(h, 0x06, || lfo.set_phase(p));
        } else if op < 98 {
            // Copy / PartialEq
            h.u32((lfo == snapshot) as u32);
            snapshot = lfo;
            h.u32((lfo == snapshot) as u32);
        } else {
            // continue from the copy, the original is dropped
            let copy = lfo;
            lfo = copy;
        }
        observe_lfo(h, &lfo, &mut scratch);
    }
}

/// every reachable LUT index and a sweep over the whole cycle at a very low frequency
fn sweep_lfo(h: &mut Fnv) {
    let mut scratch = String::new();
    for &(sr, f) in &[
        (1_000.0_f32, 1.0_f32),
        (48_000.0, 7.3),
        (100.0, 0.01),
        (192_000.0, 20.0),
        (44_100.0, 0.003),
    ] {
        let mut lfo = Lfo::new(sr);
        lfo.set_frequency(f);
        for _ in 0..60_000 {
            lfo.tick();
            for ws in SHAPES {
                h.f32(lfo.get(ws));
            }
        }
        observe_lfo(h, &lfo, &mut scratch);
    }
    // position the phase on a fine grid, including the neighbourhood of every table cell boundary
    let mut lfo = Lfo::new(48_000.0);
    for i in 0..=(1 << 16) {
        let p = i as f32 / 65_536.0;
        lfo.set_phase(p);
        for ws in SHAPES {
            h.f32(lfo.get(ws));
        }
        lfo.set_phase(-p);
        for ws in SHAPES {
            h.f32(lfo.get(ws));
        }
    }
    observe_lfo(h, &lfo, &mut scratch);
}

// ---------------------------------------------------------------------------------------------------------------
// ADSR (shares PhaseAccumulator, linear_interp and ilog_2 with the LFO)

fn observe_adsr(h: &mut Fnv, adsr: &Adsr, scratch: &mut String) {
    if let Some(v) = guarded(h, 0x20, || adsr.value()) {
        h.f32(v);
    }
    scratch.clear();
    write!(scratch, "{:?}", adsr).unwrap();
    h.str(scratch);
}

fn run_adsr(h: &mut Fnv, seed: u64, sample_rate: f32, wild: bool, n_ops: usize) {
    let mut rng = Lcg::new(seed);
    let mut scratch = String::new();
    let mut adsr = match guarded(h, 0x21, || Adsr::new(sample_rate)) {
        Some(a) => a,
        None => return,
    };
    observe_adsr(h, &adsr, &mut scratch);

    for _ in 0..n_ops {
        let op = rng.below(100);
        if op < 70 {
            guarded(h, 0x22, || adsr.tick());
        } else if op < 76 {
            let k = 1 + rng.below(400);
            for _ in 0..k {
                guarded(h, 0x23, || adsr.tick());
            }
        } else if op < 82 {
            guarded(h, 0x24, || adsr.gate_on());
        } else if op < 88 {
            guarded(h, 0x25, || adsr.gate_off());
        } else {
            let sel = rng.below(if wild { 6 } else { 4 });
            let v = match sel {
                0 => rng.unit(),
                1 => rng.unit() * 0.05,
                2 => rng.unit() * 25.0 - 2.0,
                3 => {
                    let e = EDGE_F32[rng.below(EDGE_F32.len() as u32) as usize];
                    if e.is_finite() {
                        e
                    } else {
                        0.3
                    }
                }
                4 => EDGE_F32[rng.below(EDGE_F32.len() as u32) as usize],
                _ => f32::from_bits(rng.next_u32()),
            };
            h.f32(v);
            let input = match rng.below(4) {
                0 => adsr::Input::Attack(v.into()),
                1 => adsr::Input::Decay(v.into()),
                2 => adsr::Input::Sustain(v.into()),
                _ => adsr::Input::Release(v.into()),
            };
            guarded(h, 0x26, || adsr.set_input(input));
        }
        observe_adsr(h, &adsr, &mut scratch);
    }
}

// ---------------------------------------------------------------------------------------------------------------
// Glide (uses is_almost / fabs)

fn run_glide(h: &mut Fnv, seed: u64, sample_rate: f32, wild: bool, n_ops: usize) {
    let mut rng = Lcg::new(seed);
    let mut glide = match guarded(h, 0x31, || GlideProcessor::new(sample_rate)) {
        Some(g) => g,
        None => return,
    };
    let mut target = 0.0_f32;
    for _ in 0..n_ops {
        let op = rng.below(100);
        if op < 12 {
            let sel = rng.below(if wild { 7 } else { 5 });
            let t = match sel {
                0 => rng.unit() * 10.0,
                1 => rng.unit() * 0.2,
                2 => 0.0,
                3 => (rng.below(201) as f32) * 0.05,
                4 => rng.unit() * 0.1 + (rng.below(4) as f32),
                5 => EDGE_F32[rng.below(EDGE_F32.len() as u32) as usize],
                _ => f32::from_bits(rng.next_u32()),
            };
            h.f32(t);
            guarded(h, 0x32, || glide.set_time(t));
        } else if op < 20 {
            target = (rng.unit() - 0.5) * 20.0;
        }
        if let Some(v) = guarded(h, 0x33, || glide.process(target)) {
            h.f32(v);
        }
    }
}

// ---------------------------------------------------------------------------------------------------------------

const SAMPLE_RATES_OK: [f32; 7] = [
    100.0, 1_000.0, 8_000.0, 44_100.0, 48_000.0, 96_000.0, 192_000.0,
];

const SAMPLE_RATES_WILD: [f32; 8] = [
    0.0,
    -0.0,
    -48_000.0,
    1e-30,
    3.0e38,
    f32::NAN,
    f32::INFINITY,
    f32::NEG_INFINITY,
];

#[test]
fn differential_hashes() {
    // the sequences deliberately provoke the (pre-existing) overflow panics of out-of-range arguments in debug
    // builds; keep the output readable
    std::panic::set_hook(Box::new(|_| {}));

    let mut lfo_ok = Fnv::new();
    for (i, sr) in SAMPLE_RATES_OK.iter().enumerate() {
        for seed in 0..3u64 {
            run_lfo(&mut lfo_ok, 1000 + 17 * i as u64 + seed, *sr, false, 12_000);
        }
    }

    let panics_in_range_lfo = PANICS.load(Ordering::Relaxed);

    let mut lfo_wild = Fnv::new();
    for (i, sr) in SAMPLE_RATES_OK.iter().chain(SAMPLE_RATES_WILD.iter()).enumerate() {
        for seed in 0..2u64 {
            run_lfo(&mut lfo_wild, 5000 + 31 * i as u64 + seed, *sr, true, 8_000);
        }
    }

    let mut lfo_sweep = Fnv::new();
    sweep_lfo(&mut lfo_sweep);

    let panics_before_adsr = PANICS.load(Ordering::Relaxed);
    let mut adsr_ok = Fnv::new();
    for (i, sr) in SAMPLE_RATES_OK.iter().enumerate() {
        for seed in 0..2u64 {
            run_adsr(&mut adsr_ok, 9000 + 13 * i as u64 + seed, *sr, false, 10_000);
        }
    }

    let panics_before_adsr_wild = PANICS.load(Ordering::Relaxed);
    let mut adsr_wild = Fnv::new();
    for (i, sr) in SAMPLE_RATES_OK.iter().chain(SAMPLE_RATES_WILD.iter()).enumerate() {
        run_adsr(&mut adsr_wild, 12_000 + 7 * i as u64, *sr, true, 6_000);
    }

    let panics_before_glide = PANICS.load(Ordering::Relaxed);
    let mut glide = Fnv::new();
    for (i, sr) in SAMPLE_RATES_OK.iter().enumerate() {
        run_glide(&mut glide, 15_000 + i as u64, *sr, false, 20_000);
        run_glide(&mut glide, 16_000 + i as u64, *sr, true, 20_000);
    }

    let _ = std::panic::take_hook();

    let profile = if cfg!(debug_assertions) { "debug" } else { "release" };
    println!("HASH[{profile}] lfo_in_range = {:016x}", lfo_ok.0);
    println!("HASH[{profile}] lfo_wild     = {:016x}", lfo_wild.0);
    println!("HASH[{profile}] lfo_sweep    = {:016x}", lfo_sweep.0);
    println!("HASH[{profile}] adsr_in_range= {:016x}", adsr_ok.0);
    println!("HASH[{profile}] adsr_wild    = {:016x}", adsr_wild.0);
    println!("HASH[{profile}] glide        = {:016x}", glide.0);
    println!(
        "HASH[{profile}] panics       = lfo_in_range {} / lfo_wild+sweep {} / adsr_in_range {} / adsr_wild {} / glide {}",
        panics_in_range_lfo,
        panics_before_adsr - panics_in_range_lfo,
        panics_before_adsr_wild - panics_before_adsr,
        panics_before_glide - panics_before_adsr_wild,
        PANICS.load(Ordering::Relaxed) - panics_before_glide
    );
    // C17: documented in-range LFO arguments never panic
    assert_eq!(panics_in_range_lfo, 0);
}
