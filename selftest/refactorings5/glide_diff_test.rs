//! Differential test for the glide processor (src/glide_processor.rs) and the helpers of src/utils.rs.
//!
//! Integration test using only the public API of `synth_utils`.  It drives the glide processor (and, to reach the
//! crate-private helpers of `utils.rs`, the LFO and the ADSR, which interpolate with `linear_interp` and size their
//! tables with `ilog_2`) with long pseudo-random call sequences and folds the bit pattern of every observable output
//! into an FNV-1a hash.  The hashes are printed and compared against the values obtained from the unmodified crate.
//!
//! Run with: copy to `tests/diff_test.rs`, then `cargo test --offline --test diff_test -- --nocapture`
//! (and the same with `--release`).

use std::panic::{catch_unwind, AssertUnwindSafe};

use synth_utils::adsr::{Adsr, Input};
use synth_utils::glide_processor::GlideProcessor;
use synth_utils::lfo::{Lfo, Waveshape};

// ---------------------------------------------------------------------------------------------------------------------
// tiny deterministic helpers
// ---------------------------------------------------------------------------------------------------------------------

struct Lcg(u64);

impl Lcg {
    fn next_u32(&mut self) -> u32 {
        self.0 = self
            .0
            .wrapping_mul(6364136223846793005)
            .wrapping_add(1442695040888963407);
        (self.0 >> 32) as u32
    }

    /// uniform in [0, 1)
    fn unit(&mut self) -> f32 {
        (self.next_u32() >> 8) as f32 / 16_777_216.0
    }

    fn below(&mut self, n: u32) -> u32 {
        self.next_u32() % n
    }
}

struct Fnv(u64);

impl Fnv {
    fn new() -> Self {
        Fnv(0xcbf2_9ce4_8422_2325)
    }

    fn byte(&mut self, b: u8) {
        self.0 ^= b as u64;
        self.0 = self.0.wrapping_mul(0x0000_0100_0000_01b3);
    }

    fn u32(&mut self, v: u32) {
        for b in v.to_le_bytes() {
            self.byte(b);
        }
    }

    fn f32(&mut self, v: f32) {
        self.u32(v.to_bits());
    }
}

const SAMPLE_RATES: [f32; 10] = [
    100.0, 441.0, 1_000.0, 8_000.0, 44_100.0, 48_000.0, 96_000.0, 192_000.0, 0.5, 3.0e9,
];

/// glide times that are legal according to the documentation, with the edges over-represented
fn legal_time(rng: &mut Lcg) -> f32 {
    match rng.below(16) {
        0 => 0.0,
        1 => 10.0,
        2 => 0.05,
        3 => 0.049_999,
        4 => 0.050_001,
        5 => 1.0e-6,
        6 => f32::MIN_POSITIVE,
        7 => 1.0e-45, // subnormal, 1/t overflows to +inf
        8..=11 => rng.unit() * 10.0,
        12 => rng.unit() * 0.2,
        _ => rng.unit() * rng.unit() * 2.0,
    }
}

/// any f32 at all, including the ones the documentation excludes
fn wild_f32(rng: &mut Lcg) -> f32 {
    match rng.below(16) {
        0 => f32::NAN,
        1 => f32::INFINITY,
        2 => f32::NEG_INFINITY,
        3 => -0.0,
        4 => f32::MAX,
        5 => f32::MIN,
        6 => -1.0,
        7 => -rng.unit() * 20.0,
        8 => 1.0e30 * rng.unit(),
        9 => f32::from_bits(rng.next_u32()),
        _ => legal_time(rng),
    }
}

fn signal(rng: &mut Lcg) -> f32 {
    match rng.below(32) {
        0 => 0.0,
        1 => -0.0,
        2 => 1.0,
        3 => -1.0,
        4 => 10.0,
        5 => -10.0,
        6 => 1.0e-40,
        7 => 1.0e20,
        8 => -1.0e20,
        _ => rng.unit() * 20.0 - 10.0,
    }
}

// ---------------------------------------------------------------------------------------------------------------------
// glide processor
// ---------------------------------------------------------------------------------------------------------------------

/// finite inputs, documented glide times: the regime of C13 / C14 / C17
fn glide_legal(seed: u64) -> u64 {
    let mut rng = Lcg(seed);
    let mut h = Fnv::new();

    for &sr in SAMPLE_RATES.iter() {
        let mut gp = GlideProcessor::new(sr);
        // output before any set_time call
        for _ in 0..16 {
            h.f32(gp.process(signal(&mut rng)));
        }

        let mut target = signal(&mut rng);
        let mut t = 0.0_f32;
        for step in 0..40_000_u32 {
            match rng.below(64) {
                0 => {
                    t = legal_time(&mut rng);
                    gp.set_time(t);
                }
                1 => {
                    // a request near the time that is in effect: exercises the 0.05 s dead band from both sides
                    let nudge = (rng.unit() - 0.5) * 0.2;
                    gp.set_time(t + nudge);
                }
                2 => {
                    // the very same time again
                    gp.set_time(t);
                }
                3 | 4 => target = signal(&mut rng),
                _ => {}
            }
            // mostly a held input, sometimes a noisy one
            let x = if step % 1024 < 64 {
                signal(&mut rng)
            } else {
                target
            };
            h.f32(gp.process(x));
        }
    }
    h.0
}

/// anything goes: NaN / inf / negative / huge times and inputs, processor re-created regularly because a NaN in the
/// filter state is sticky
fn glide_wild(seed: u64) -> u64 {
    let mut rng = Lcg(seed);
    let mut h = Fnv::new();

    for round in 0..600_u32 {
        let sr = SAMPLE_RATES[(round as usize) % SAMPLE_RATES.len()];
        let mut gp = GlideProcessor::new(sr);
        let poison = round % 3 == 0;
        for _ in 0..400 {
            match rng.below(8) {
                0 => gp.set_time(wild_f32(&mut rng)),
                1 => gp.set_time(legal_time(&mut rng)),
                _ => {}
            }
            let x = if poison && rng.below(97) == 0 {
                wild_f32(&mut rng)
            } else {
                signal(&mut rng)
            };
            h.f32(gp.process(x));
        }
    }
    h.0
}

/// step responses for a grid of times and sample rates (the C14 scenario), every sample hashed
fn glide_steps() -> u64 {
    let mut h = Fnv::new();
    let times = [
        0.0_f32, 1.0e-4, 0.001, 0.01, 0.02, 0.05, 0.1, 0.25, 0.5, 1.0, 2.0, 5.0, 9.96, 10.0, 10.04, 10.06, 100.0,
    ];
    for &sr in SAMPLE_RATES.iter() {
        for &t in times.iter() {
            let mut gp = GlideProcessor::new(sr);
            gp.set_time(t);
            let n = ((t * sr) as usize).clamp(16, 30_000);
            for _ in 0..n {
                h.f32(gp.process(1.0));
            }
            // mid-glide change, then back down
            gp.set_time(t * 0.5);
            for _ in 0..n / 2 {
                h.f32(gp.process(-3.5));
            }
        }
    }
    h.0
}

/// constructor and set_time with arguments that make the crate panic today must keep panicking, and those that do
/// not must keep not panicking; the state left behind must be the same as well
fn glide_panics() -> u64 {
    let mut h = Fnv::new();
    let rates = [
        0.0_f32,
        -0.0,
        -1.0,
        f32::NAN,
        f32::INFINITY,
        f32::NEG_INFINITY,
        1.0e-45,
        3.0e-45,
        4.0e-45,
        6.0e-45,
        f32::MIN_POSITIVE,
        0.1,
        0.3,
        0.4,
        0.41,
        f32::MAX,
        100.0,
    ];
    let times = [
        0.0_f32,
        -0.0,
        -1.0,
        f32::NAN,
        f32::INFINITY,
        f32::NEG_INFINITY,
        1.0e-45,
        f32::MAX,
        f32::MIN,
        -1.0e-45,
        1.0,
        -0.96,
        -1.04,
        -1.06,
    ];
    for &sr in rates.iter() {
        let made = catch_unwind(|| GlideProcessor::new(sr));
        match made {
            Err(_) => h.byte(0xEE),
            Ok(mut gp) => {
                h.byte(0x01);
                for &t in times.iter() {
                    let r = catch_unwind(AssertUnwindSafe(|| gp.set_time(t)));
                    h.byte(if r.is_ok() { 0x02 } else { 0xEF });
                    for _ in 0..8 {
                        let r = catch_unwind(AssertUnwindSafe(|| gp.process(1.0)));
                        match r {
                            Ok(v) => h.f32(v),
                            Err(_) => h.byte(0xED),
                        }
                    }
                    // the same request again: is it swallowed by the cache or not
                    let r = catch_unwind(AssertUnwindSafe(|| gp.set_time(t)));
                    h.byte(if r.is_ok() { 0x03 } else { 0xEC });
                    if let Ok(v) = catch_unwind(AssertUnwindSafe(|| gp.process(0.25))) {
                        h.f32(v);
                    }
                }
            }
        }
    }
    h.0
}

// ---------------------------------------------------------------------------------------------------------------------
// users of utils.rs: linear_interp (LFO sine, ADSR curves) and ilog_2 (table index width of both)
// ---------------------------------------------------------------------------------------------------------------------

fn lfo_run(seed: u64) -> u64 {
    let mut rng = Lcg(seed);
    let mut h = Fnv::new();
    let shapes = [
        Waveshape::Sine,
        Waveshape::Triangle,
        Waveshape::UpSaw,
        Waveshape::DownSaw,
        Waveshape::Square,
    ];
    for &sr in [100.0_f32, 1_000.0, 48_000.0, 192_000.0].iter() {
        let mut lfo = Lfo::new(sr);
        for _ in 0..30_000_u32 {
            match rng.below(256) {
                0 => lfo.set_frequency(rng.unit() * sr),
                1 => lfo.set_frequency(rng.unit() * 20.0),
                2 => lfo.set_frequency(0.0),
                3 => lfo.reset(),
                4 => lfo.set_phase(rng.unit() * 8.0 - 4.0),
                5 => lfo.set_phase(rng.unit()),
                _ => {}
            }
            lfo.tick();
            for &s in shapes.iter() {
                h.f32(lfo.get(s));
            }
        }
    }
    h.0
}

fn adsr_run(seed: u64) -> u64 {
    let mut rng = Lcg(seed);
    let mut h = Fnv::new();
    for &sr in [100.0_f32, 1_000.0, 48_000.0].iter() {
        let mut env = Adsr::new(sr);
        for _ in 0..60_000_u32 {
            match rng.below(512) {
                0..=3 => env.gate_on(),
                4..=7 => env.gate_off(),
                8 => env.set_input(Input::Attack((rng.unit() * 0.2).into())),
                9 => env.set_input(Input::Decay((rng.unit() * 0.2).into())),
                10 => env.set_input(Input::Sustain(rng.unit().into())),
                11 => env.set_input(Input::Release((rng.unit() * 0.2).into())),
                12 => env.set_input(Input::Attack(wild_f32(&mut rng).into())),
                13 => env.set_input(Input::Sustain(wild_f32(&mut rng).into())),
                _ => {}
            }
            env.tick();
            h.f32(env.value());
        }
    }
    h.0
}

// ---------------------------------------------------------------------------------------------------------------------
// the test
// ---------------------------------------------------------------------------------------------------------------------

/// Hashes of the unmodified crate (commit 23a7de7), identical in debug and release builds.
const EXPECTED: [(&str, u64); 9] = [
    ("glide_legal/1", 0x9457_5157_8c01_46a3),
    ("glide_legal/2", 0x909b_6130_c4e5_8c2f),
    ("glide_wild/3", 0x5cca_60c4_2213_4c56),
    ("glide_wild/4", 0x949e_8e8a_9319_aa97),
    ("glide_steps", 0x278f_9ec4_d361_d985),
    ("glide_panics", 0x7bba_64d2_a1a2_3c1d),
    ("lfo/5", 0x5677_1e2a_6015_3f21),
    ("adsr/6", 0xc58f_e14e_2a52_def7),
    ("combined", 0xcf39_2704_926f_1d41),
];

#[test]
fn differential_hashes() {
    // the panics provoked on purpose would otherwise flood the output
    std::panic::set_hook(Box::new(|_| {}));

    let mut got: Vec<(&str, u64)> = vec![
        ("glide_legal/1", glide_legal(0x0123_4567_89AB_CDEF)),
        ("glide_legal/2", glide_legal(42)),
        ("glide_wild/3", glide_wild(0xDEAD_BEEF)),
        ("glide_wild/4", glide_wild(7)),
        ("glide_steps", glide_steps()),
        ("glide_panics", glide_panics()),
        ("lfo/5", lfo_run(5)),
        ("adsr/6", adsr_run(6)),
    ];
    let mut all = Fnv::new();
    for (_, v) in got.iter() {
        all.u32(*v as u32);
        all.u32((*v >> 32) as u32);
    }
    got.push(("combined", all.0));

    let _ = std::panic::take_hook();

    for (name, v) in got.iter() {
        println!("HASH {name:<14} {v:016x}");
    }

    for ((name, v), (ename, ev)) in got.iter().zip(EXPECTED.iter()) {
        assert_eq!(name, ename);
        assert_eq!(v, ev, "hash of {name} differs from the reference crate");
    }
}
