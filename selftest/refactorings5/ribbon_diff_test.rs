//! Differential test for `synth_utils::ribbon_controller`.
//!
//! Drives the ribbon controller through long pseudo-random call sequences (fixed-seed LCG) using only the public API
//! and folds every observable output into an FNV-1a hash. The hash must be identical on the clean crate and with any
//! behaviour-preserving change applied (compare separately for debug and for release builds; the two profiles differ
//! from one another only in the scenarios that deliberately provoke an arithmetic overflow).
//!
//! Usage: copy to `tests/diff_test.rs` and run
//! `cargo test --offline --test diff_test -- --nocapture` (and again with `--release`).

use std::hint::black_box;
use std::panic::{catch_unwind, AssertUnwindSafe};
use synth_utils::ribbon_controller::{sample_rate_to_capacity, RibbonController};

// ---------------------------------------------------------------------------------------------------------------------
// hashing and random numbers
// ---------------------------------------------------------------------------------------------------------------------

struct Fnv(u64);

impl Fnv {
    fn new() -> Self {
        Fnv(0xcbf2_9ce4_8422_2325)
    }
    fn byte(&mut self, b: u8) {
        self.0 ^= b as u64;
        self.0 = self.0.wrapping_mul(0x0000_0100_0000_01b3);
    }
    fn u32(&mut self, v: u32) {
        for b in v.to_le_bytes() {
            self.byte(b);
        }
    }
    fn u64(&mut self, v: u64) {
        for b in v.to_le_bytes() {
            self.byte(b);
        }
    }
    fn bool(&mut self, v: bool) {
        self.byte(if v { 0xA5 } else { 0x5A });
    }
    /// f32 by bit pattern (so +0.0 and -0.0 differ); NaNs are canonicalised because the sign/payload of a NaN produced
    /// by an arithmetic operation is explicitly unspecified in Rust and is not an observable the crate documents.
    fn f32(&mut self, v: f32) {
        if v.is_nan() {
            self.u32(0x7fc0_0000);
        } else {
            self.u32(v.to_bits());
        }
    }
}

struct Lcg(u64);

impl Lcg {
    fn next(&mut self) -> u32 {
        self.0 = self
            .0
            .wrapping_mul(6364136223846793005)
            .wrapping_add(1442695040888963407);
        (self.0 >> 32) as u32
    }
    fn below(&mut self, n: u32) -> u32 {
        self.next() % n
    }
    /// uniform-ish in [0, 1)
    fn unit(&mut self) -> f32 {
        (self.next() >> 8) as f32 / 16_777_216.0
    }
}

const EDGE_SAMPLES: [f32; 16] = [
    0.0,
    -0.0,
    1.0,
    -1.0,
    0.5,
    f32::MIN_POSITIVE,
    1.0e-45, // subnormal
    f32::EPSILON,
    0.999_999_94,
    1.0e30,
    -1.0e30,
    f32::MAX,
    f32::MIN,
    f32::NAN,
    f32::INFINITY,
    f32::NEG_INFINITY,
];

// ---------------------------------------------------------------------------------------------------------------------
// one long random session on one controller
// ---------------------------------------------------------------------------------------------------------------------

/// Observe everything that can be observed without mutating.
fn observe<const N: usize>(h: &mut Fnv, rib: &RibbonController<N>) {
    h.f32(rib.value());
    h.bool(rib.finger_is_pressing());
}

/// `with_edges`: whether non-finite / absurd samples are mixed in (they poison the average with NaN/inf, which is
/// itself a behaviour worth comparing, but we also want sessions where the average stays meaningful).
fn session<const N: usize>(
    h: &mut Fnv,
    seed: u64,
    ctor: [f32; 4],
    boundary_guess: f32,
    steps: usize,
    with_edges: bool,
) {
    let mut rng = Lcg(seed);
    let mut rib = RibbonController::<N>::new(ctor[0], ctor[1], ctor[2], ctor[3]);

    h.u64(seed);
    h.u32(N as u32);
    observe(h, &rib);
    // the edge flags must start low; reading them is also part of the observable behaviour
    h.bool(rib.finger_just_pressed());
    h.bool(rib.finger_just_released());

    let span = (2 * N + 64) as u32;
    let mut mode = 0u32;
    let mut remaining = 0u32;
    let mut base = 0.25f32;

    for _ in 0..steps {
        if remaining == 0 {
            mode = rng.below(8);
            remaining = match mode {
                // long steady press, long enough to be reported most of the time
                0 | 1 => 1 + rng.below(span),
                // lift
                2 => 1 + rng.below(8),
                // short tap, usually too short to register
                3 => 1 + rng.below((N as u32 / 2).max(2)),
                // chatter around the boundary
                4 => 1 + rng.below(span / 2),
                // press with a slow ramp
                5 => 1 + rng.below(span),
                // single glitch
                6 => 1,
                // uniformly random samples in [0, 1)
                _ => 1 + rng.below(32),
            };
            base = rng.unit() * boundary_guess;
        }
        remaining -= 1;

        let mut sample = match mode {
            0 => base,
            1 => (base + (rng.unit() - 0.5) * 0.01).max(0.0),
            2 => 1.0,
            3 => base,
            4 => boundary_guess + (rng.unit() - 0.5) * 1.0e-3,
            5 => {
                base = (base + 1.0e-4).min(boundary_guess * 0.999);
                base
            }
            6 => {
                if rng.below(2) == 0 {
                    1.0
                } else {
                    0.0
                }
            }
            _ => rng.unit(),
        };
        if with_edges && rng.below(97) == 0 {
            sample = EDGE_SAMPLES[rng.below(EDGE_SAMPLES.len() as u32) as usize];
        }
        // exact boundary-ish values now and then
        if rng.below(211) == 0 {
            sample = boundary_guess;
        }

        rib.poll(sample);
        observe(h, &rib);

        // read the self-clearing edge flags only now and then, in varying order, so that their latching across
        // several polls is exercised as well
        match rng.below(6) {
            0 => {
                h.bool(rib.finger_just_pressed());
            }
            1 => {
                h.bool(rib.finger_just_released());
            }
            2 => {
                h.bool(rib.finger_just_pressed());
                h.bool(rib.finger_just_released());
                h.bool(rib.finger_just_pressed());
            }
            3 => {
                h.bool(rib.finger_just_released());
                h.bool(rib.finger_just_pressed());
                h.bool(rib.finger_just_released());
            }
            _ => {}
        }
    }
    // drain
    h.bool(rib.finger_just_pressed());
    h.bool(rib.finger_just_released());
    observe(h, &rib);
}

/// A fully deterministic textbook session: press, hold, wiggle, lift, repeat, reading every flag after every poll.
fn scripted<const N: usize>(h: &mut Fnv, sample_rate: f32) {
    let mut rib = RibbonController::<N>::new(sample_rate, 20.0e3, 820.0, 1.0e6);
    let n = N as u32 + (sample_rate as u32) / 1000 + 8;
    let levels = [0.0f32, 0.1, 0.42, 0.7, 0.9, 0.95, 0.96, 0.97];
    for (i, &lvl) in levels.iter().enumerate() {
        for k in 0..(n + i as u32 * 7) {
            // last few samples of the press shoot upwards like a lifting finger
            let s = if k + 3 > n { (lvl + 0.02).min(0.955) } else { lvl };
            rib.poll(s);
            observe(h, &rib);
            h.bool(rib.finger_just_pressed());
            h.bool(rib.finger_just_released());
        }
        // a glitch of i out-of-range samples (i == 0: none)
        for _ in 0..i {
            rib.poll(1.0);
            observe(h, &rib);
            h.bool(rib.finger_just_released());
            h.bool(rib.finger_just_pressed());
        }
        // not-quite-long-enough press
        for _ in 0..(n - 9) {
            rib.poll(0.3);
            observe(h, &rib);
        }
        rib.poll(0.99);
        observe(h, &rib);
        h.bool(rib.finger_just_pressed());
        h.bool(rib.finger_just_released());
    }
}

// ---------------------------------------------------------------------------------------------------------------------
// scenarios that are *expected* to overflow: the outcome (panic in debug, wrapped result in release) must not change
// ---------------------------------------------------------------------------------------------------------------------

fn guarded(h: &mut Fnv, tag: u32, f: impl FnOnce(&mut Fnv)) {
    h.u32(tag);
    let mut local = Fnv::new();
    let r = catch_unwind(AssertUnwindSafe(|| f(&mut local)));
    // whatever was observed before a panic counts too
    h.u64(local.0);
    h.bool(r.is_ok());
}

fn overflow_scenarios(h: &mut Fnv) {
    // buffer far too small for the sample rate: `capacity - num_to_discard_at_end` underflows once the buffer fills
    guarded(h, 1, |h| {
        let mut rib = RibbonController::<4>::new(black_box(48_000.0), 20.0e3, 820.0, 1.0e6);
        for i in 0..400 {
            rib.poll(0.1 + (i % 7) as f32 * 0.01);
            observe(h, &rib);
            h.bool(rib.finger_just_pressed());
        }
    });
    // capacity exactly equal to the discard count: average over zero samples
    guarded(h, 2, |h| {
        let mut rib = RibbonController::<96>::new(black_box(48_000.0), 20.0e3, 820.0, 1.0e6);
        for i in 0..400 {
            rib.poll(0.1 + (i % 7) as f32 * 0.01);
            observe(h, &rib);
            h.bool(rib.finger_just_pressed());
        }
    });
    // sample rates whose product with the settling times does not fit in u32
    for (k, sr) in [f32::INFINITY, 4.0e9, 3.0e6, 2_147_484.0, 4_294_968.0]
        .into_iter()
        .enumerate()
    {
        guarded(h, 10 + k as u32, |h| {
            let mut rib = RibbonController::<64>::new(black_box(sr), 20.0e3, 820.0, 1.0e6);
            for _ in 0..300 {
                rib.poll(0.25);
                observe(h, &rib);
            }
            h.bool(rib.finger_just_pressed());
        });
    }
    // the capacity helper evaluated at run time with arguments beyond the documented range
    for (k, sr) in [286_331u32, 286_332, 1_000_000, 2_147_483, 2_147_484, u32::MAX]
        .into_iter()
        .enumerate()
    {
        guarded(h, 30 + k as u32, |h| {
            h.u64(sample_rate_to_capacity(black_box(sr)) as u64);
        });
    }
}

// ---------------------------------------------------------------------------------------------------------------------
// the test
// ---------------------------------------------------------------------------------------------------------------------

const CAP_100: usize = sample_rate_to_capacity(100);
const CAP_1K: usize = sample_rate_to_capacity(1_000);
const CAP_10K: usize = sample_rate_to_capacity(10_000);
const CAP_48K: usize = sample_rate_to_capacity(48_000);
const CAP_192K: usize = sample_rate_to_capacity(192_000);

#[test]
fn ribbon_differential_hash() {
    let mut h = Fnv::new();

    // the capacity helper over its whole overflow-free domain (coarse) and the documented range (fine)
    for sr in 0..=2_000u32 {
        h.u64(sample_rate_to_capacity(black_box(sr)) as u64);
    }
    let mut sr = 0u32;
    while sr <= 286_331 {
        h.u64(sample_rate_to_capacity(black_box(sr)) as u64);
        sr += 97;
    }
    h.u64(CAP_100 as u64);
    h.u64(CAP_1K as u64);
    h.u64(CAP_10K as u64);
    h.u64(CAP_48K as u64);
    h.u64(CAP_192K as u64);

    // textbook sessions
    scripted::<CAP_100>(&mut h, 100.0);
    scripted::<CAP_1K>(&mut h, 1_000.0);
    scripted::<CAP_10K>(&mut h, 10_000.0);
    scripted::<CAP_48K>(&mut h, 48_000.0);
    scripted::<CAP_192K>(&mut h, 192_000.0);

    // random sessions, in-range samples only
    let std_b = 1.0 - 820.0 / (820.0 + 20.0e3);
    for seed in 1..=6u64 {
        let s = seed.wrapping_mul(0x9E37_79B9_7F4A_7C15);
        session::<CAP_100>(&mut h, s ^ 1, [100.0, 20.0e3, 820.0, 1.0e6], std_b, 20_000, false);
        session::<CAP_1K>(&mut h, s ^ 2, [1_000.0, 20.0e3, 820.0, 1.0e6], std_b, 40_000, false);
        session::<CAP_10K>(&mut h, s ^ 3, [10_000.0, 20.0e3, 820.0, 1.0e6], std_b, 120_000, false);
        session::<CAP_48K>(&mut h, s ^ 4, [48_000.0, 10.0e3, 470.0, 220.0e3], 1.0 - 470.0 / 10_470.0, 250_000, false);
        session::<CAP_192K>(&mut h, s ^ 5, [192_000.0, 20.0e3, 1.0e3, 470.0e3], 1.0 - 1.0e3 / 21.0e3, 400_000, false);
    }

    // random sessions with NaN / inf / negative / huge samples mixed in
    for seed in 11..=14u64 {
        let s = seed.wrapping_mul(0xD6E8_FEB8_6659_FD93);
        session::<CAP_100>(&mut h, s ^ 1, [100.0, 20.0e3, 820.0, 1.0e6], std_b, 20_000, true);
        session::<CAP_1K>(&mut h, s ^ 2, [1_000.0, 20.0e3, 820.0, 1.0e6], std_b, 40_000, true);
        session::<CAP_10K>(&mut h, s ^ 3, [10_000.0, 20.0e3, 820.0, 1.0e6], std_b, 120_000, true);
        session::<CAP_48K>(&mut h, s ^ 4, [48_000.0, 20.0e3, 820.0, 1.0e6], std_b, 150_000, true);
    }

    // mismatched but overflow-free configurations: buffer larger / smaller than the helper would give, fractional and
    // odd sample rates, sample rates that convert to 0
    session::<7>(&mut h, 101, [1_000.0, 20.0e3, 820.0, 1.0e6], std_b, 20_000, true);
    session::<3>(&mut h, 102, [1_000.0, 20.0e3, 820.0, 1.0e6], std_b, 20_000, false);
    session::<1>(&mut h, 103, [0.0, 20.0e3, 820.0, 1.0e6], std_b, 5_000, true);
    session::<1>(&mut h, 104, [999.9, 20.0e3, 820.0, 1.0e6], std_b, 5_000, false);
    session::<2>(&mut h, 105, [-48_000.0, 20.0e3, 820.0, 1.0e6], std_b, 5_000, true);
    session::<5>(&mut h, 106, [f32::NAN, 20.0e3, 820.0, 1.0e6], std_b, 5_000, true);
    session::<500>(&mut h, 107, [44_100.5, 20.0e3, 820.0, 1.0e6], std_b, 60_000, false);
    session::<4000>(&mut h, 108, [1_999.99, 20.0e3, 820.0, 1.0e6], std_b, 60_000, true);
    session::<64>(&mut h, 109, [2_147_483.0, 20.0e3, 820.0, 1.0e6], std_b, 20_000, false);

    // odd resistor values: zero, negative, NaN, infinite (boundary and error constant become 1, NaN, inf, ...)
    let odd: [[f32; 3]; 12] = [
        [20.0e3, 0.0, 1.0e6],
        [0.0, 820.0, 1.0e6],
        [0.0, 0.0, 1.0e6],
        [20.0e3, 820.0, 0.0],
        [20.0e3, 820.0, -1.0e6],
        [-20.0e3, 820.0, 1.0e6],
        [20.0e3, -820.0, 1.0e6],
        [f32::NAN, 820.0, 1.0e6],
        [20.0e3, f32::INFINITY, 1.0e6],
        [f32::INFINITY, 820.0, f32::INFINITY],
        [20.0e3, 820.0, f32::NAN],
        [1.0e38, 3.0e38, 1.0e-38],
    ];
    for (i, r) in odd.iter().enumerate() {
        session::<CAP_1K>(&mut h, 200 + i as u64, [1_000.0, r[0], r[1], r[2]], 0.9, 12_000, i % 2 == 0);
    }

    // overflow scenarios last, with the panic messages silenced
    let prev = std::panic::take_hook();
    std::panic::set_hook(Box::new(|_| {}));
    overflow_scenarios(&mut h);
    std::panic::set_hook(prev);

    println!(
        "RIBBON_DIFF_HASH[{}] = {:016x}",
        if cfg!(debug_assertions) { "debug" } else { "release" },
        h.0
    );
}
