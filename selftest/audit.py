#!/usr/bin/env python3
"""audit.py <checks_matrix.json> <oracle_matrix.json> : cross-property audit (development tool).

Compares, per stored change and per property, what the static check of that property said (selftest/matrix.py) with what
the dynamic oracle of that property said (selftest/oracle_matrix.py):

  check fires, oracle fails   -> agreed violation
  check silent, oracle passes -> agreed non-violation
  check FIRES, oracle PASSES  -> candidate false alarm of the check (or a blind spot of the oracle): triage by hand
  check SILENT, oracle FAILS  -> candidate miss of the check (only interesting when it is the change's own property; a
                                 change written against another property is not required to be found by this one)
"""
import collections
import json
import re
import sys

MD = '--md' in sys.argv
args = [a for a in sys.argv[1:] if a != '--md']
chk = json.load(open(args[0]))
orc = {}
for f in args[1:]:
    orc.update(json.load(open(f)))


def name(k):
    m = re.search(r'seeded/(C\d\d_\d+)/', k) or re.search(r'defects/(D\d)\.diff', k)
    return m.group(1) if m else k


C = {name(k): v for k, v in chk.items() if 'error' not in v}
O = {name(k): v for k, v in orc.items() if 'error' not in v}
props = ['C%02d' % i for i in range(1, 21)]
tab = collections.Counter()
fa = collections.defaultdict(list)
miss = collections.defaultdict(list)
for n in sorted(set(C) & set(O), key=lambda s: [int(x) if x.isdigit() else x for x in re.split(r'(\d+)', s)]):
    own = n.split('_')[0] if n.startswith('C') else None
    for p in props:
        fired = bool(C[n].get(p, {}).get('exit'))
        o = O[n].get(p)
        if o in (None, 'build-error'):
            continue
        bad = o in ('fail', 'timeout')
        tab[(fired, bad)] += 1
        if fired and not bad:
            fa[p].append((n, C[n][p]['first'][:150]))
        if bad and not fired:
            miss[p].append((n, O[n].get(p + ':tests', [])[:3]))
if MD:
    print('# Cross-property audit (rendered by selftest/audit.py --md; see DESIGN.md 10.4)\n')
    print('Static checks (selftest/matrix.py) against the dynamic oracles (selftest/oracle_matrix.py), per stored change and per property '
          'anchored in the files the change touches.\n')
    print('* agreed violations: %d\n* agreed non-violations: %d\n* check fires, oracle passes: %d\n* check silent, oracle fails: %d\n'
          % (tab[(True, True)], tab[(False, False)], tab[(True, False)], tab[(False, True)]))
    print('An oracle is a lower bound on violations, so the third group is a reading list, not a list of false alarms. Category: '
          '`own` = the change was written against this very property and its demonstration fails (the oracle does not try that history); '
          '`fail-closed` = the analysis could not follow restructured code or lost an anchor and says so; '
          '`rule` = an obligation of this property is not discharged on the changed code.\n')
    print('| check | change | category | first violation reported |\n|---|---|---|---|')
    for p in props:
        for n, f in fa[p]:
            cat = 'own' if n.startswith(p) else ('fail-closed' if re.search(r'\[(ANALYSIS|FLOOR|R-SUMMARY|CONTROL)\]|stuck|analysis failed|anchor|accumulators found|iteration domain|internal error', f) else 'rule')
            print('| %s | %s | %s | %s |' % (p, n, cat, f.replace('violation:', '').strip().replace('|', '/')))
    print('\n## check silent, oracle fails (changes written against another property)\n')
    for p in props:
        if miss[p]:
            print('* %s: %s' % (p, ' '.join('%s%s' % (n, ' (own)' if n.startswith(p) else '') for n, _ in miss[p])))
    sys.exit(0)
print('agree violation %d | agree clean %d | check fires, oracle passes %d | check silent, oracle fails %d'
      % (tab[(True, True)], tab[(False, False)], tab[(True, False)], tab[(False, True)]))
print('\n== check fires, oracle passes (candidate false alarms), by property of the check')
for p in props:
    if fa[p]:
        print('%s (%d)' % (p, len(fa[p])))
        for n, f in fa[p]:
            print('   %-8s %s%s' % (n, '(own) ' if n.startswith(p) else '', f))
print('\n== check silent, oracle fails')
for p in props:
    if miss[p]:
        print('%s (%d): %s' % (p, len(miss[p]), ' '.join('%s%s' % (n, '*' if n.startswith(p) else '') for n, _ in miss[p])))
