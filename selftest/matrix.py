#!/usr/bin/env python3
"""matrix.py <out.json> <patch>... : run every check against a scratch copy of /repo with each patch applied.
Development tool: records which checks report which known-bad change (and that 'none.diff' = clean copy is silent)."""
import sys, os, json, subprocess, tempfile, shutil
from concurrent.futures import ThreadPoolExecutor
VERIF = os.path.dirname(os.path.dirname(os.path.abspath(__file__)))
PROPS = os.environ.get('VERIF_MATRIX_PROPS', '').split() or ['C%02d' % i for i in range(1, 21)]

MODULE_PROPS = {
    'src/adsr.rs': 'C01 C02 C03 C17 C20', 'src/phase_accumulator.rs': 'C01 C02 C03 C10 C11 C12 C17',
    'src/utils.rs': 'C01 C02 C03 C10 C11 C12 C13 C14 C17', 'src/lookup_tables.rs': 'C01 C03 C10 C12 C17',
    'src/lfo.rs': 'C10 C11 C12 C17', 'src/mono_midi_receiver.rs': 'C04 C05 C06 C17 C18 C20',
    'src/quantizer.rs': 'C07 C08 C09 C17 C19 C20', 'src/ribbon_controller.rs': 'C15 C16 C17',
    'src/glide_processor.rs': 'C13 C14 C17',
}


def props_for(patch):
    """with VERIF_MATRIX_BY_MODULE=1: only the properties anchored in the files the patch touches (a change to the
    quantizer cannot move a MIDI property); otherwise all"""
    if patch == 'CLEAN' or not os.environ.get('VERIF_MATRIX_BY_MODULE'):
        return PROPS
    sel = set()
    for l in open(patch):
        if l.startswith('+++ '):
            f = l[4:].strip().split('\t')[0]
            f = f[2:] if f[:2] in ('a/', 'b/') else f
            if f not in MODULE_PROPS:
                return PROPS
            sel |= set(MODULE_PROPS[f].split())
    return [p for p in PROPS if p in sel]


def one(patch):
    tmp = tempfile.mkdtemp(prefix='matrix-')
    try:
        for item in ('src', 'Cargo.toml', 'Cargo.lock', 'README.md'):
            s = os.path.join('/repo', item)
            (shutil.copytree if os.path.isdir(s) else shutil.copy)(s, os.path.join(tmp, item))
        if patch != 'CLEAN':
            r = subprocess.run(['patch', '-p1', '-s', '--no-backup-if-mismatch', '-i', patch], cwd=tmp, stdout=subprocess.PIPE, stderr=subprocess.STDOUT, text=True)
            if r.returncode != 0:
                return patch, {'error': 'patch does not apply: ' + r.stdout[-200:]}
        ev = os.path.join(tmp, 'ev')
        env = dict(os.environ, VERIF_SELFTEST_REPO=tmp, VERIF_SELFTEST_EVIDENCE=ev)
        out = {}
        for p in props_for(patch):
            r = subprocess.run([os.path.join(VERIF, 'check'), p], cwd=VERIF, env=env, stdout=subprocess.PIPE, stderr=subprocess.STDOUT, text=True)
            first = ''
            for line in r.stdout.splitlines():
                if 'violation:' in line:
                    first = line.strip()[:260]
                    break
            out[p] = {'exit': r.returncode, 'first': first}
        return patch, out
    finally:
        shutil.rmtree(tmp, ignore_errors=True)

if __name__ == '__main__':
    outp = sys.argv[1]
    patches = sys.argv[2:]
    res = {}
    with ThreadPoolExecutor(max_workers=int(os.environ.get('VERIF_MATRIX_JOBS', '6'))) as ex:
        for patch, out in ex.map(one, patches):
            res[patch] = out
            print(patch, {k: v['exit'] for k, v in out.items() if isinstance(v, dict) and v.get('exit')} if 'error' not in out else out, flush=True)
    json.dump(res, open(outp, 'w'), indent=1)
