#!/bin/bash
# run_mutant.sh <patch.diff> <Cxx> [<Cyy> ...] : apply the patch to /repo, run the checks, undo the patch.
# Development tool (not a registered check).  Prints one line per check: <patch> <prop> exit=<code>
set -u
P="$(realpath "$1")"; shift
cd /repo
if ! git diff --quiet; then echo "run_mutant: /repo is dirty, refusing" >&2; exit 2; fi
git apply "$P" || { echo "run_mutant: patch does not apply: $P" >&2; exit 2; }
trap 'git -C /repo checkout -- . ' EXIT
cd /verif
for c in "$@"; do
  out=$(./check "$c" 2>&1); code=$?
  echo "$(basename $(dirname $P))/$(basename $P) $c exit=$code"
  if [ "${VERBOSE:-0}" = "1" ] || [ $code -ne 1 ]; then echo "$out" | head -${LINES_MAX:-12} | sed 's/^/    /'; else echo "$out" | grep -m3 "violation:" | cut -c1-300 | sed 's/^/    /'; fi
done
