#!/usr/bin/env python3
"""render_detection.py <matrix.json> > DETECTION.md : which checks report which stored change (from a selftest/matrix.py run)"""
import json
import os
import re
import sys

m = json.load(open(sys.argv[1]))
print('# Detection matrix (rendered by selftest/render_detection.py from %s)\n' % os.path.basename(sys.argv[1]))
print('Each change was applied to a scratch copy of /repo and all 20 checks were run. `own` = the property the change was written against.\n')
print('| change | what it does (first line of the author\'s note) | first violation reported by the own check | all checks reporting it |')
print('|---|---|---|---|')
n = own_ok = 0
for key in sorted(m, key=lambda k: [int(x) if x.isdigit() else x for x in re.split(r'(\d+)', k)]):
    v = m[key]
    mm = re.search(r'seeded/(C\d\d)_(\d+)/', key) or re.search(r'defects/(D\d)\.diff', key)
    if not mm or 'error' in v:
        continue
    name = mm.group(0).strip('/').split('/')[-1].replace('.diff', '') if 'defects' in key else '%s_%s' % (mm.group(1), mm.group(2))
    own = mm.group(1) if name.startswith('C') else None
    note = ''
    np_ = os.path.join(os.path.dirname(key), 'notes.md')
    if os.path.exists(np_):
        lines = [l.strip() for l in open(np_).read().splitlines() if l.strip()]
        note = ' — '.join(lines[:2])[:230].replace('|', '/')
    fired = [p for p in sorted(v) if v[p].get('exit')]
    first = ''
    if own and v.get(own, {}).get('exit'):
        first = v[own]['first'].replace('violation:', '').strip()[:160].replace('|', '/')
    if own:
        n += 1
        own_ok += 1 if own in fired else 0
    print('| %s | %s | %s | %s |' % (name, note, first, ', '.join(fired)))
print('\n%d of %d stored seeded changes are reported by the check of their own property.' % (own_ok, n))
