#!/bin/bash
# verify_seeded.sh <worker_id> <id_k> [<id_k> ...]
# For each seeded mutant (source: /tmp/seed/<id>/out/patch_k.diff + demo_k.rs) confirm in a scratch worktree:
#   (a) patch applies, crate compiles, the unedited test-suite passes (62 unit + 4 doc tests)
#   (b) the demonstration FAILS with the patch and PASSES without it
# Writes /tmp/seedv/result_<id>_<k>.txt ; the worktree and its build output are removed at the end.
set -u
W="$1"; shift
WT=${OUTDIR:-/tmp/seedv}/wt$W
mkdir -p ${OUTDIR:-/tmp/seedv}
git -C /repo worktree add -q --detach "$WT" HEAD 2>/dev/null || true
cp /repo/Cargo.lock "$WT"/ 2>/dev/null
export CARGO_NET_OFFLINE=true
for item in "$@"; do
  id="${item%_*}"; k="${item#*_}"
  P=${SEEDDIR:-/tmp/seed}/$id/out/patch_$k.diff; D=${SEEDDIR:-/tmp/seed}/$id/out/demo_$k.rs
  R=${OUTDIR:-/tmp/seedv}/result_${id}_$k.txt
  cd "$WT"; git checkout -q -- . ; rm -rf tests
  { echo "mutant $id #$k";
    if ! git apply "$P"; then echo "APPLY_FAILED"; continue; fi
    out=$(cargo test --offline 2>&1); 
    echo "$out" | grep -E "^test result" | sed 's/^/  suite(with patch): /'
    suite_ok=$(echo "$out" | grep -c "test result: ok. 62 passed")
    doc_ok=$(echo "$out" | grep -c "test result: ok. 4 passed")
    mkdir -p tests; cp "$D" tests/demo.rs
    out=$(cargo test --offline --test demo 2>&1); with_fail=$?
    echo "$out" | grep -E "^test result" | sed 's/^/  demo(with patch): /'
    git checkout -q -- . 
    out=$(cargo test --offline --test demo 2>&1); without=$?
    echo "$out" | grep -E "^test result" | sed 's/^/  demo(without patch): /'
    rm -rf tests
    if [ "$suite_ok" = "1" ] && [ "$doc_ok" = "1" ] && [ $with_fail -ne 0 ] && [ $without -eq 0 ]; then echo "VERDICT: CONFIRMED"; else echo "VERDICT: REJECTED suite_ok=$suite_ok doc_ok=$doc_ok demo_with=$with_fail demo_without=$without"; fi
  } > "$R" 2>&1
done
cd /; git -C /repo worktree remove --force "$WT"; rm -rf "$WT"
