//! Differential test for the LFO module (src/lfo.rs, src/phase_accumulator.rs, src/utils.rs).
//!
//! Uses only the public API of `synth_utils`. Drives `Lfo` (and, because they share the private
//! `PhaseAccumulator` / `utils` code, also `Adsr` and `GlideProcessor`) with long pseudo-random
//! call sequences and folds every observable output (f32 bit patterns, `Debug` text, `PartialEq`
//! results, panics) into an FNV-1a hash. The hashes are printed as `HASH <name> = <hex>`; run with
//!
//!   cargo test --offline --test diff_test -- --nocapture
//!   cargo test --offline --release --test diff_test -- --nocapture
//!
//! and compare the lines between the clean crate and the crate with a change applied.
//!
//! Streams `lfo_in_range`, `adsr` and `glide` never panic and must also agree between debug and
//! release builds. Stream `lfo_wild` uses out-of-range frequencies for which `tick` overflows (a
//! panic in a debug build, wrapping in a release build); the panic / no-panic outcome is hashed
//! too, so that hash legitimately differs between debug and release but must not differ between
//! the clean and the changed crate.

use std::fmt::Write as _;
use std::panic::{catch_unwind, AssertUnwindSafe};

use synth_utils::adsr::{Adsr, Input};
use synth_utils::glide_processor::GlideProcessor;
use synth_utils::lfo::{Lfo, Waveshape};

// ---------------------------------------------------------------------------------------------
// helpers

struct Fnv(u64);

impl Fnv {
    fn new() -> Self {
        Fnv(0xcbf2_9ce4_8422_2325)
    }
    fn byte(&mut self, b: u8) {
        self.0 ^= b as u64;
        self.0 = self.0.wrapping_mul(0x0000_0100_0000_01b3);
    }
    fn u32(&mut self, v: u32) {
        for b in v.to_le_bytes() {
            self.byte(b);
        }
    }
    fn f32(&mut self, v: f32) {
        self.u32(v.to_bits());
    }
    fn bool(&mut self, v: bool) {
        self.byte(v as u8 + 1);
    }
    fn str(&mut self, s: &str) {
        self.u32(s.len() as u32);
        for b in s.bytes() {
            self.byte(b);
        }
    }
}

/// 64-bit LCG (Knuth MMIX constants), upper bits used
struct Lcg(u64);

impl Lcg {
    fn next_u32(&mut self) -> u32 {
        self.0 = self
            .0
            .wrapping_mul(6364136223846793005)
            .wrapping_add(1442695040888963407);
        (self.0 >> 32) as u32
    }
    /// uniform in `[0, n)`
    fn below(&mut self, n: u32) -> u32 {
        ((self.next_u32() as u64 * n as u64) >> 32) as u32
    }
    /// uniform in `[0.0, 1.0)` with 24 bits
    fn unit(&mut self) -> f32 {
        (self.next_u32() >> 8) as f32 / 16_777_216.0_f32
    }
    fn pick(&mut self, xs: &[f32]) -> f32 {
        xs[self.below(xs.len() as u32) as usize]
    }
}

const SHAPES: [Waveshape; 5] = [
    Waveshape::Sine,
    Waveshape::Triangle,
    Waveshape::UpSaw,
    Waveshape::DownSaw,
    Waveshape::Square,
];

const SAMPLE_RATES: [f32; 8] = [
    100.0, 1_000.0, 8_000.0, 12_345.678, 44_100.0, 48_000.0, 96_000.0, 192_000.0,
];

const PHASE_EDGES: [f32; 30] = [
    0.0,
    -0.0,
    0.25,
    -0.25,
    0.5,
    -0.5,
    0.75,
    -0.75,
    1.0,
    -1.0,
    0.999_999_94,
    -0.999_999_94,
    0.999_023_4, // just inside the last sine table cell
    0.999_9,
    1.0e-10,
    -1.0e-10,
    f32::MIN_POSITIVE,
    1.0e-45, // subnormal
    2.5,
    -2.5,
    12_345.678,
    -12_345.678,
    8_388_608.5,
    1.0e10,
    -1.0e10,
    f32::MAX,
    f32::MIN,
    f32::NAN,
    f32::INFINITY,
    f32::NEG_INFINITY,
];

fn hash_lfo_outputs(h: &mut Fnv, lfo: &Lfo, order: u32) {
    // read the shapes in a varying order, twice, so that "reading one never disturbs another"
    let order = order % 5;
    for k in 0..5 {
        let ws = SHAPES[((k + order) % 5) as usize];
        h.f32(lfo.get(ws));
    }
    for k in (0..5).rev() {
        let ws = SHAPES[((k + 2 * order) % 5) as usize];
        h.f32(lfo.get(ws));
    }
}

fn hash_debug<T: core::fmt::Debug>(h: &mut Fnv, buf: &mut String, v: &T, pretty: bool) {
    buf.clear();
    if pretty {
        write!(buf, "{:#?}", v).unwrap();
    } else {
        write!(buf, "{:?}", v).unwrap();
    }
    h.str(buf);
}

// ---------------------------------------------------------------------------------------------
// LFO, documented argument ranges plus everything else that cannot overflow the accumulator

fn lfo_in_range_stream(seed: u64, n_ops: u32, h: &mut Fnv) {
    let mut rng = Lcg(seed);
    let mut buf = String::new();

    let sr = SAMPLE_RATES[rng.below(SAMPLE_RATES.len() as u32) as usize];
    let mut lfo = Lfo::new(sr);
    let mut other = Lfo::new(sr);
    h.f32(sr);
    hash_lfo_outputs(h, &lfo, 0);
    hash_debug(h, &mut buf, &lfo, false);
    hash_debug(h, &mut buf, &lfo, true);
    h.bool(lfo == other);

    // frequencies for which the accumulator cannot overflow: increment <= 200 * 2^24 < 2^32 - 2^24
    let freq_edges = [
        0.0,
        -0.0,
        sr,
        sr * 0.5,
        sr * 0.25,
        sr / 3.0,
        sr * 0.999_999_94,
        sr * 1.5,
        sr * 200.0,
        sr / 16_777_216.0,         // exactly one counter step
        sr / 16_777_216.0 * 0.999, // rounds down to zero
        sr / 16_777_216.0 * 1.5,
        1.0e-3,
        0.1,
        1.0,
        20.0,
        f32::MIN_POSITIVE,
        -1.0,
        -1.0e30,
        f32::NEG_INFINITY,
        f32::NAN, // `as u32` of NaN is 0
    ];

    for i in 0..n_ops {
        let op = rng.below(100);
        match op {
            0..=69 => {
                // a burst of ticks
                let burst = 1 + rng.below(8);
                for _ in 0..burst {
                    lfo.tick();
                    hash_lfo_outputs(h, &lfo, i);
                }
            }
            70..=79 => {
                let f = if rng.below(3) == 0 {
                    rng.pick(&freq_edges)
                } else {
                    match rng.below(4) {
                        0 => rng.unit() * sr,            // whole documented range
                        1 => rng.unit() * 20.0,          // typical LFO rates
                        2 => rng.unit() * sr * 1.0e-5,   // very slow, few counter steps per tick
                        _ => rng.unit() * rng.unit() * sr * 0.01,
                    }
                };
                lfo.set_frequency(f);
                h.f32(f);
            }
            80..=87 => {
                let p = if rng.below(2) == 0 {
                    rng.pick(&PHASE_EDGES)
                } else {
                    match rng.below(4) {
                        0 => rng.unit(),
                        1 => -rng.unit(),
                        2 => (rng.unit() - 0.5) * 2000.0,
                        _ => f32::from_bits(rng.next_u32()), // any bit pattern
                    }
                };
                lfo.set_phase(p);
                h.f32(p);
            }
            88..=90 => lfo.reset(),
            91..=93 => {
                // snapshot: Clone / Copy / PartialEq
                other = lfo;
                h.bool(lfo == other);
            }
            94..=95 => {
                other.tick();
                h.bool(lfo == other);
                h.bool(lfo != other);
                hash_lfo_outputs(h, &other, i);
            }
            96..=97 => hash_debug(h, &mut buf, &lfo, false),
            98 => hash_debug(h, &mut buf, &lfo, true),
            _ => {
                #[allow(clippy::clone_on_copy)]
                let c = lfo.clone();
                h.bool(c == lfo);
                hash_lfo_outputs(h, &c, i);
            }
        }
        hash_lfo_outputs(h, &lfo, i);
    }
    hash_debug(h, &mut buf, &lfo, false);
}

// ---------------------------------------------------------------------------------------------
// LFO, deterministic sweeps: every sine table cell, the wrap, the triangle / square corners

fn lfo_sweep_stream(h: &mut Fnv) {
    // 1024 * 8 + some steps of 2^11 counts: visits every table cell 8 times and wraps
    let mut lfo = Lfo::new(8_192.0);
    lfo.set_frequency(1.0);
    for i in 0..(8_192 + 64) {
        hash_lfo_outputs(h, &lfo, i);
        lfo.tick();
    }
    // an odd step that is not a divisor of the cycle, many wraps
    let mut lfo = Lfo::new(48_000.0);
    lfo.set_frequency(1_234.567);
    for i in 0..100_000 {
        lfo.tick();
        hash_lfo_outputs(h, &lfo, i);
    }
    // phases around every corner, set directly
    let mut lfo = Lfo::new(1_000.0);
    for q in 0..=8 {
        for d in -40..=40 {
            let p = q as f32 / 8.0 + d as f32 / 16_777_216.0;
            lfo.set_phase(p);
            h.f32(p);
            hash_lfo_outputs(h, &lfo, q as u32);
            lfo.set_frequency(0.000_06); // one counter step per tick
            lfo.tick();
            hash_lfo_outputs(h, &lfo, d as u32);
        }
    }
    // every sample rate with freq == sample rate and freq == 0
    for sr in SAMPLE_RATES {
        let mut lfo = Lfo::new(sr);
        for f in [sr, 0.0, sr * 0.5, 1.0] {
            lfo.set_frequency(f);
            for i in 0..300 {
                lfo.tick();
                hash_lfo_outputs(h, &lfo, i);
            }
        }
    }
}

// ---------------------------------------------------------------------------------------------
// LFO, arguments outside the documented ranges: overflow panics (debug) are part of the hash

fn lfo_wild_stream(seed: u64, n_ops: u32, h: &mut Fnv) {
    let mut rng = Lcg(seed);
    let mut buf = String::new();

    let wild_rates = [
        0.0,
        -0.0,
        -1.0,
        1.0e-30,
        1.0e30,
        f32::NAN,
        f32::INFINITY,
        f32::NEG_INFINITY,
        f32::MIN_POSITIVE,
        f32::MAX,
        0.5,
        100.0,
        48_000.0,
    ];
    let wild_freqs = [
        f32::INFINITY,
        f32::NEG_INFINITY,
        f32::NAN,
        f32::MAX,
        f32::MIN,
        1.0e30,
        -1.0e30,
        1.0e9,
        0.0,
        1.0,
        48_000.0,
        48_000.0 * 255.0,
        48_000.0 * 256.0,
        48_000.0 * 257.0,
    ];

    let sr = rng.pick(&wild_rates);
    let mut lfo = Lfo::new(sr);
    h.f32(sr);

    for i in 0..n_ops {
        let op = rng.below(100);
        let r = catch_unwind(AssertUnwindSafe(|| match op {
            0..=59 => lfo.tick(),
            60..=74 => {
                let f = if rng.below(2) == 0 {
                    rng.pick(&wild_freqs)
                } else {
                    f32::from_bits(rng.next_u32())
                };
                lfo.set_frequency(f)
            }
            75..=89 => {
                let p = if rng.below(2) == 0 {
                    rng.pick(&PHASE_EDGES)
                } else {
                    f32::from_bits(rng.next_u32())
                };
                lfo.set_phase(p)
            }
            _ => lfo.reset(),
        }));
        h.bool(r.is_ok());
        let r = catch_unwind(AssertUnwindSafe(|| {
            let mut hh = Fnv::new();
            hash_lfo_outputs(&mut hh, &lfo, i);
            hh.0
        }));
        match r {
            Ok(v) => {
                h.u32(v as u32);
                h.u32((v >> 32) as u32);
            }
            Err(_) => h.byte(0xEE),
        }
        if i % 16 == 0 {
            hash_debug(h, &mut buf, &lfo, false);
        }
    }
}

// ---------------------------------------------------------------------------------------------
// ADSR (shares PhaseAccumulator, linear_interp and ilog_2 with the LFO)

fn adsr_stream(seed: u64, n_ops: u32, h: &mut Fnv) {
    let mut rng = Lcg(seed);
    let mut buf = String::new();

    let sr = SAMPLE_RATES[rng.below(SAMPLE_RATES.len() as u32) as usize];
    let mut adsr = Adsr::new(sr);
    h.f32(sr);
    h.f32(adsr.value());
    hash_debug(h, &mut buf, &adsr, false);

    let edges = [
        0.0,
        // no -0.0 here: `(-0.0f32).max(0.0)` in adsr.rs (not part of this module) may yield either zero,
        // and debug and release builds of the *unchanged* crate pick different ones
        -1.0,
        0.000_5,
        0.001,
        0.001_000_1,
        0.01,
        0.5,
        1.0,
        19.999,
        20.0,
        20.001,
        1.0e10,
        -1.0e10,
        f32::MAX,
        f32::MIN,
        f32::MIN_POSITIVE,
        f32::NAN,
        f32::INFINITY,
        f32::NEG_INFINITY,
    ];

    for _ in 0..n_ops {
        let op = rng.below(100);
        match op {
            0..=79 => {
                let burst = 1 + rng.below(16);
                for _ in 0..burst {
                    adsr.tick();
                    h.f32(adsr.value());
                }
            }
            80..=84 => adsr.gate_on(),
            85..=89 => adsr.gate_off(),
            90..=97 => {
                let v = if rng.below(3) == 0 {
                    rng.pick(&edges)
                } else {
                    match rng.below(3) {
                        0 => rng.unit(),
                        1 => rng.unit() * 0.02,
                        _ => rng.unit() * rng.unit() * 2.0,
                    }
                };
                h.f32(v);
                let input = match rng.below(4) {
                    0 => Input::Attack(v.into()),
                    1 => Input::Decay(v.into()),
                    2 => Input::Sustain(v.into()),
                    _ => Input::Release(v.into()),
                };
                adsr.set_input(input);
            }
            98 => hash_debug(h, &mut buf, &adsr, false),
            _ => hash_debug(h, &mut buf, &adsr, true),
        }
        h.f32(adsr.value());
    }
    hash_debug(h, &mut buf, &adsr, false);
}

// ---------------------------------------------------------------------------------------------
// Glide processor (shares is_almost / fabs with the LFO module's utils.rs)

fn glide_stream(seed: u64, n_ops: u32, h: &mut Fnv) {
    let mut rng = Lcg(seed);
    let sr = SAMPLE_RATES[rng.below(SAMPLE_RATES.len() as u32) as usize];
    let mut gp = GlideProcessor::new(sr);
    h.f32(sr);

    let times = [
        0.0,
        -0.0,
        0.001,
        0.049,
        0.05,
        0.051,
        0.1,
        1.0,
        1.049_9,
        1.05,
        1.050_1,
        9.95,
        10.0,
        10.05,
        100.0,
        1.0e-6,
        f32::NAN,
        f32::INFINITY,
    ];
    let mut target = 0.0_f32;
    let mut t = 0.0_f32;
    for _ in 0..n_ops {
        match rng.below(100) {
            0..=89 => (),
            90..=94 => {
                // set_time skips the update iff |t - cached_t| <= 0.05: probe both sides of it
                t = match rng.below(3) {
                    0 => rng.pick(&times),
                    1 => t + (rng.unit() - 0.5) * 0.2,
                    _ => rng.unit() * 10.0,
                };
                gp.set_time(t);
                h.f32(t);
            }
            _ => {
                target = match rng.below(4) {
                    0 => 0.0,
                    1 => rng.unit() * 10.0,
                    2 => -rng.unit() * 10.0,
                    _ => rng.unit(),
                };
            }
        }
        h.f32(gp.process(target));
    }
}

// ---------------------------------------------------------------------------------------------

#[test]
fn differential_hashes() {
    // panics are expected (and hashed) in the wild stream; keep the output readable
    std::panic::set_hook(Box::new(|_| {}));

    let mut h = Fnv::new();
    for seed in 0..24u64 {
        lfo_in_range_stream(0x1234_5678_9abc_def0 ^ seed.wrapping_mul(0x9e37_79b9_7f4a_7c15), 20_000, &mut h);
    }
    println!("HASH lfo_in_range = {:016x}", h.0);

    let mut h = Fnv::new();
    lfo_sweep_stream(&mut h);
    println!("HASH lfo_sweep    = {:016x}", h.0);

    let mut h = Fnv::new();
    for seed in 0..40u64 {
        lfo_wild_stream(0x0fed_cba9_8765_4321 ^ seed.wrapping_mul(0x9e37_79b9_7f4a_7c15), 5_000, &mut h);
    }
    println!("HASH lfo_wild     = {:016x} (debug and release differ by design)", h.0);

    let mut h = Fnv::new();
    for seed in 0..16u64 {
        adsr_stream(0x5555_aaaa_3333_cccc ^ seed.wrapping_mul(0x9e37_79b9_7f4a_7c15), 20_000, &mut h);
    }
    println!("HASH adsr         = {:016x}", h.0);

    let mut h = Fnv::new();
    for seed in 0..8u64 {
        glide_stream(0x0123_4567_89ab_cdef ^ seed.wrapping_mul(0x9e37_79b9_7f4a_7c15), 50_000, &mut h);
    }
    println!("HASH glide        = {:016x}", h.0);

    let _ = std::panic::take_hook();
}
