//! Differential test for `synth_utils::ribbon_controller`.
//!
//! Copy to `tests/diff_test.rs` of the crate and run
//! `cargo test --offline --test diff_test -- --nocapture` (and the same with `--release`).
//! It drives the public API with long LCG-generated call sequences (fixed seeds) and prints FNV-1a hashes of every
//! observable output (including "this call panicked"). The hashes of a refactored crate must equal those of the
//! original crate built with the same profile.

use std::panic::{catch_unwind, AssertUnwindSafe};
use synth_utils::ribbon_controller::{sample_rate_to_capacity, RibbonController};

struct Lcg(u64);

impl Lcg {
    fn next(&mut self) -> u32 {
        self.0 = self
            .0
            .wrapping_mul(6364136223846793005)
            .wrapping_add(1442695040888963407);
        (self.0 >> 32) as u32
    }
    fn below(&mut self, n: u32) -> u32 {
        self.next() % n
    }
    fn unit(&mut self) -> f32 {
        (self.next() >> 8) as f32 / (1u32 << 24) as f32
    }
}

struct Fnv(u64);

impl Fnv {
    fn new() -> Self {
        Fnv(0xcbf29ce484222325)
    }
    fn byte(&mut self, b: u8) {
        self.0 ^= b as u64;
        self.0 = self.0.wrapping_mul(0x100000001b3);
    }
    fn u32(&mut self, v: u32) {
        for b in v.to_le_bytes() {
            self.byte(b);
        }
    }
    fn u64(&mut self, v: u64) {
        for b in v.to_le_bytes() {
            self.byte(b);
        }
    }
}

const EDGE_SAMPLES: [f32; 20] = [
    0.0,
    -0.0,
    -1.0,
    -1.0e-30,
    1.0e30,
    -1.0e30,
    f32::NAN,
    f32::INFINITY,
    f32::NEG_INFINITY,
    f32::MIN_POSITIVE,
    1.0e-45,
    f32::MAX,
    f32::MIN,
    1.0,
    0.999_999_94,
    0.960_614_8,  // about 1 - 820/20820
    0.960_614_74, // one ulp-ish below
    0.960_614_86, // one ulp-ish above
    0.5,
    0.25,
];

/// Generator of ribbon-like sample streams: presses of random length around a wandering position, pauses of random
/// length, isolated glitches and edge values.
struct Stream {
    rng: Lcg,
    pressing: bool,
    remaining: u32,
    base: f32,
    scale: u32,
}

impl Stream {
    fn new(seed: u64, scale: u32) -> Self {
        Stream {
            rng: Lcg(seed),
            pressing: false,
            remaining: 3,
            base: 0.5,
            scale: scale.max(4),
        }
    }

    fn next(&mut self) -> f32 {
        if self.remaining == 0 {
            self.pressing = !self.pressing;
            let kind = self.rng.below(8);
            self.remaining = match (self.pressing, kind) {
                (true, 0) => 1 + self.rng.below(4),             // tap
                (true, 1) => 1 + self.rng.below(self.scale),    // short press
                (true, _) => 1 + self.rng.below(4 * self.scale), // long press
                (false, 0..=3) => 1,                            // single glitch
                (false, _) => 1 + self.rng.below(self.scale / 2 + 1),
            };
            if self.pressing {
                self.base = self.rng.unit() * 0.97;
            }
        }
        self.remaining -= 1;

        // edge values become rarer for long buffers so that presses can still complete
        let r = self.rng.below(400 + 8 * self.scale);
        if r == 0 {
            return EDGE_SAMPLES[self.rng.below(EDGE_SAMPLES.len() as u32) as usize];
        }
        if self.pressing {
            // slow drift plus noise
            self.base += (self.rng.unit() - 0.5) * 0.002;
            if self.base < 0.0 {
                self.base = 0.0;
            }
            if self.base > 0.97 {
                self.base = 0.97;
            }
            let v = self.base + (self.rng.unit() - 0.5) * 0.01;
            if r == 1 {
                0.0
            } else if v < 0.0 {
                0.0
            } else {
                v
            }
        } else {
            match r % 4 {
                0 => 1.0,
                1 => 0.97 + self.rng.unit() * 0.03,
                2 => 0.999,
                _ => 0.9606 + self.rng.unit() * 0.0001,
            }
        }
    }
}

fn observe<const N: usize>(h: &mut Fnv, rng: &mut Lcg, rib: &mut RibbonController<N>) {
    h.u32(rib.value().to_bits());
    h.byte(rib.finger_is_pressing() as u8);
    match rng.below(6) {
        0 => h.byte(rib.finger_just_pressed() as u8),
        1 => h.byte(rib.finger_just_released() as u8),
        2 => {
            h.byte(rib.finger_just_pressed() as u8);
            h.byte(rib.finger_just_released() as u8);
        }
        3 => {
            h.byte(rib.finger_just_released() as u8);
            h.byte(rib.finger_just_pressed() as u8);
            h.byte(rib.finger_just_pressed() as u8);
            h.byte(rib.finger_just_released() as u8);
        }
        _ => {}
    }
    h.u32(rib.value().to_bits());
    h.byte(rib.finger_is_pressing() as u8);
}

/// Drives one controller; every call is wrapped in `catch_unwind` so that "panics here" is an observable as well.
fn drive<const N: usize>(
    h: &mut Fnv,
    seed: u64,
    steps: u32,
    sr: f32,
    softpot: f32,
    dropper: f32,
    pullup: f32,
) {
    h.u64(N as u64);
    let made = catch_unwind(|| RibbonController::<N>::new(sr, softpot, dropper, pullup));
    let mut rib = match made {
        Ok(r) => {
            h.byte(1);
            r
        }
        Err(_) => {
            h.byte(0xEE);
            return;
        }
    };
    let mut obs_rng = Lcg(seed ^ 0x9E3779B97F4A7C15);
    let mut stream = Stream::new(seed, N as u32);
    observe(h, &mut obs_rng, &mut rib);
    let mut presses = 0u32;
    let mut panics = 0u32;
    for _ in 0..steps {
        let s = stream.next();
        let was = rib.finger_is_pressing();
        let ok = catch_unwind(AssertUnwindSafe(|| rib.poll(s))).is_ok();
        h.byte(ok as u8);
        if !ok {
            panics += 1;
        }
        if !was && rib.finger_is_pressing() {
            presses += 1;
        }
        observe(h, &mut obs_rng, &mut rib);
    }
    h.u32(presses);
    h.u32(panics);
    println!(
        "    N={N} sr={sr} sp={softpot} dr={dropper} pu={pullup} steps={steps}: presses={presses} panics={panics}"
    );
}

/// Deterministic, hand-made sequences: constant presses of exactly the critical lengths, separated by one glitch.
fn drive_exact<const N: usize>(h: &mut Fnv, sr: f32) {
    let mut rib = RibbonController::<N>::new(sr, 20E3, 820.0, 1E6);
    let ignore = (sr as u32 / 1000) as usize;
    let need = ignore + N - (ignore > 0) as usize;
    for (i, len) in [need - 1, need, need + 1, 1, 2, need / 2, need * 3, 0, need]
        .into_iter()
        .enumerate()
    {
        for j in 0..len {
            let v = 0.1 + 0.08 * i as f32 + 0.0001 * (j % 50) as f32;
            rib.poll(v);
            h.u32(rib.value().to_bits());
            h.byte(rib.finger_is_pressing() as u8);
        }
        h.byte(rib.finger_just_pressed() as u8);
        h.byte(rib.finger_just_pressed() as u8);
        h.byte(rib.finger_just_released() as u8);
        rib.poll(1.0);
        h.u32(rib.value().to_bits());
        h.byte(rib.finger_is_pressing() as u8);
        h.byte(rib.finger_just_released() as u8);
        h.byte(rib.finger_just_released() as u8);
        h.byte(rib.finger_just_pressed() as u8);
    }
}

fn section(total: &mut Fnv, name: &str, f: impl FnOnce(&mut Fnv)) {
    println!("  section {name}");
    let mut h = Fnv::new();
    f(&mut h);
    println!("HASH {name} {:016x}", h.0);
    total.u64(h.0);
}

const C100: usize = sample_rate_to_capacity(100);
const C1K: usize = sample_rate_to_capacity(1_000);
const C8K: usize = sample_rate_to_capacity(8_000);
const C10K: usize = sample_rate_to_capacity(10_000);
const C44K: usize = sample_rate_to_capacity(44_100);
const C48K: usize = sample_rate_to_capacity(48_000);
const C192K: usize = sample_rate_to_capacity(192_000);

#[test]
fn ribbon_differential() {
    // the expected panics (integer overflow in debug builds for out-of-range arguments) should not flood the output
    std::panic::set_hook(Box::new(|_| {}));

    let mut total = Fnv::new();

    section(&mut total, "capacity_helper", |h| {
        let mut rng = Lcg(1);
        let mut inputs: Vec<u32> = vec![
            0, 1, 99, 100, 101, 499, 500, 501, 999, 1_000, 8_000, 10_000, 44_100, 48_000, 96_000,
            192_000, 286_331, 286_332, 300_000, 2_147_483, 2_147_484, 4_294_967, 4_294_968,
            u32::MAX,
        ];
        for _ in 0..5_000 {
            inputs.push(rng.below(300_000));
            inputs.push(rng.next() >> rng.below(32));
        }
        for sr in inputs {
            match catch_unwind(|| sample_rate_to_capacity(sr)) {
                Ok(c) => h.u64(c as u64),
                Err(_) => h.u64(0xEEEE_EEEE_EEEE_EEEE),
            }
        }
        h.u64(C100 as u64);
        h.u64(C1K as u64);
        h.u64(C8K as u64);
        h.u64(C10K as u64);
        h.u64(C44K as u64);
        h.u64(C48K as u64);
        h.u64(C192K as u64);
    });

    section(&mut total, "exact_lengths", |h| {
        drive_exact::<C100>(h, 100.0);
        drive_exact::<C1K>(h, 1_000.0);
        drive_exact::<C8K>(h, 8_000.0);
        drive_exact::<C10K>(h, 10_000.0);
        drive_exact::<C48K>(h, 48_000.0);
    });

    section(&mut total, "well_sized", |h| {
        drive::<C100>(h, 11, 60_000, 100.0, 10E3, 470.0, 1E6);
        drive::<C100>(h, 12, 60_000, 100.0, 20E3, 820.0, 1E6);
        drive::<C1K>(h, 13, 120_000, 1_000.0, 20E3, 820.0, 1E6);
        drive::<C1K>(h, 14, 120_000, 1_000.0, 10E3, 1_000.0, 220E3);
        drive::<C8K>(h, 15, 150_000, 8_000.0, 20E3, 820.0, 1E6);
        drive::<C10K>(h, 16, 200_000, 10_000.0, 20E3, 820.0, 1E6);
        drive::<C10K>(h, 17, 200_000, 10_000.0, 10E3, 330.0, 470E3);
        drive::<C10K>(h, 18, 200_000, 10_000.7, 20E3, 820.0, 1E6);
        drive::<C44K>(h, 19, 150_000, 44_100.0, 20E3, 820.0, 1E6);
        drive::<C48K>(h, 20, 150_000, 48_000.0, 20E3, 820.0, 1E6);
        drive::<C192K>(h, 21, 120_000, 192_000.0, 20E3, 820.0, 1E6);
    });

    section(&mut total, "mis_sized", |h| {
        // too small: `capacity - num_to_discard_at_end` underflows (panics in debug, wraps in release)
        drive::<1>(h, 31, 20_000, 10_000.0, 20E3, 820.0, 1E6);
        drive::<5>(h, 32, 20_000, 10_000.0, 20E3, 820.0, 1E6);
        drive::<19>(h, 33, 20_000, 10_000.0, 20E3, 820.0, 1E6);
        // exactly zero samples to average
        drive::<20>(h, 34, 20_000, 10_000.0, 20E3, 820.0, 1E6);
        drive::<21>(h, 35, 20_000, 10_000.0, 20E3, 820.0, 1E6);
        drive::<22>(h, 36, 20_000, 10_000.0, 20E3, 820.0, 1E6);
        // too large
        drive::<170>(h, 37, 60_000, 10_000.0, 20E3, 820.0, 1E6);
        drive::<172>(h, 38, 60_000, 10_000.0, 20E3, 820.0, 1E6);
        drive::<1000>(h, 39, 100_000, 10_000.0, 20E3, 820.0, 1E6);
        drive::<C10K>(h, 40, 60_000, 48_000.0, 20E3, 820.0, 1E6);
        drive::<C48K>(h, 41, 60_000, 10_000.0, 20E3, 820.0, 1E6);
        drive::<1>(h, 42, 20_000, 100.0, 20E3, 820.0, 1E6);
        drive::<1>(h, 43, 20_000, 499.0, 20E3, 820.0, 1E6);
        drive::<2>(h, 44, 20_000, 500.0, 20E3, 820.0, 1E6);
        drive::<3>(h, 45, 20_000, 1_000.0, 20E3, 820.0, 1E6);
    });

    section(&mut total, "odd_sample_rates", |h| {
        for (i, sr) in [
            0.0_f32,
            -0.0,
            -5.0,
            0.4,
            99.9,
            f32::NAN,
            f32::INFINITY,
            f32::NEG_INFINITY,
            2_147_483.0,
            2_147_484.0,
            3.0e6,
            4_294_967.0,
            4_294_968.0,
            5.0e6,
            1.0e10,
            f32::MAX,
        ]
        .into_iter()
        .enumerate()
        {
            drive::<8>(h, 50 + i as u64, 5_000, sr, 20E3, 820.0, 1E6);
            drive::<C10K>(h, 70 + i as u64, 5_000, sr, 20E3, 820.0, 1E6);
        }
    });

    section(&mut total, "odd_resistors", |h| {
        let vals = [
            0.0_f32,
            -0.0,
            -820.0,
            820.0,
            20E3,
            1E6,
            1.0e-40,
            1.0e38,
            f32::NAN,
            f32::INFINITY,
            f32::NEG_INFINITY,
        ];
        let mut seed = 100;
        for &sp in &vals {
            for &dr in &vals {
                for &pu in &[1E6_f32, 0.0, -1E5, f32::NAN, f32::INFINITY, 1.0e-40] {
                    seed += 1;
                    drive::<C1K>(h, seed, 1_500, 1_000.0, sp, dr, pu);
                }
            }
        }
    });

    println!("HASH TOTAL {:016x}", total.0);
}
