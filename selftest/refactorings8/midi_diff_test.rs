//! Differential test for `synth_utils::mono_midi_receiver`.
//!
//! Usage: copy to `<crate>/tests/diff_test.rs`, then
//!   cargo test --offline --test diff_test -- --nocapture
//!   cargo test --offline --release --test diff_test -- --nocapture
//! and compare the printed `DIFFHASH` lines between the clean crate and the crate with a change applied.
//!
//! Only the public API is used. Every observable output is folded into an FNV-1a 64 hash after every call.
//! The module has no f32 inputs, so the edge values exercised are on the byte / channel side: channel arguments
//! 0, 1, 15, 16, 200, 255; data bytes 0, 1, 63, 64, 126, 127; status bytes of every kind on every channel, system common,
//! system exclusive and real-time bytes injected anywhere; more than 32 notes held at once (buffer overflow path).

use synth_utils::mono_midi_receiver::{MonoMidiReceiver, NotePriority, RetriggerMode};

struct Lcg(u64);

impl Lcg {
    fn next(&mut self) -> u32 {
        // Knuth MMIX LCG, upper bits are returned
        self.0 = self
            .0
            .wrapping_mul(6364136223846793005)
            .wrapping_add(1442695040888963407);
        (self.0 >> 32) as u32
    }
    fn below(&mut self, n: u32) -> u32 {
        self.next() % n
    }
    fn byte(&mut self) -> u8 {
        (self.next() >> 8) as u8
    }
}

struct Fnv(u64, u64); // (hash, number of `true` bools seen: a coverage sanity figure)

impl Fnv {
    fn new() -> Self {
        Fnv(0xcbf29ce484222325, 0)
    }
    fn u8(&mut self, b: u8) {
        self.0 ^= b as u64;
        self.0 = self.0.wrapping_mul(0x100000001b3);
    }
    fn u32(&mut self, v: u32) {
        for b in v.to_le_bytes() {
            self.u8(b);
        }
    }
    fn f32(&mut self, v: f32) {
        self.u32(v.to_bits());
    }
    fn bool(&mut self, v: bool) {
        self.1 += v as u64;
        self.u8(v as u8 + 2);
    }
}

/// hash everything that can be observed without changing the state
fn observe(h: &mut Fnv, mr: &MonoMidiReceiver) {
    h.u8(mr.note_num());
    h.f32(mr.pitch_bend());
    h.f32(mr.velocity());
    h.f32(mr.mod_wheel());
    h.f32(mr.volume());
    h.f32(mr.vcf_cutoff());
    h.f32(mr.vcf_resonance());
    h.f32(mr.portamento_time());
    h.bool(mr.portamento_enabled());
    h.bool(mr.sustain_enabled());
    h.bool(mr.gate());
}

const EDGE_DATA: [u8; 8] = [0, 1, 63, 64, 65, 126, 127, 2];
const CCS: [u8; 16] = [
    0x01, 0x07, 0x47, 0x4A, 0x40, 0x41, 0x05, 0x79, 0x7B, 0x00, 0x02, 0x06, 0x7A, 0x7C, 0x7F, 0x78,
];
const SYS: [u8; 12] = [
    0xF0, 0xF1, 0xF2, 0xF3, 0xF4, 0xF5, 0xF6, 0xF7, 0xF8, 0xFA, 0xFE, 0xFF,
];

fn feed(h: &mut Fnv, mr: &mut MonoMidiReceiver, b: u8) {
    mr.parse(b);
    observe(h, mr);
}

fn data_byte(rng: &mut Lcg) -> u8 {
    if rng.below(4) == 0 {
        EDGE_DATA[rng.below(8) as usize]
    } else {
        rng.byte() & 0x7F
    }
}

fn note_byte(rng: &mut Lcg, style: u32) -> u8 {
    match style {
        0 => 60 + rng.below(4) as u8,   // tiny set: lots of on/off pairs and duplicates
        1 => 30 + rng.below(48) as u8,  // medium set: exceeds the 32 note buffer
        _ => data_byte(rng),            // everything incl. 0 and 127
    }
}

fn run(seed: u64, channel_arg: u8, steps: u32) -> u64 {
    let mut rng = Lcg(seed);
    let mut h = Fnv::new();
    let mut mr = MonoMidiReceiver::new(channel_arg);
    observe(&mut h, &mr);
    // edges are clear on a fresh receiver
    h.bool(mr.rising_gate());
    h.bool(mr.falling_gate());

    let listened = channel_arg.min(15);
    let style = (seed % 3) as u32;

    for _ in 0..steps {
        // mostly the listened channel, sometimes another one
        let ch = if rng.below(8) == 0 {
            rng.below(16) as u8
        } else {
            listened
        };
        match rng.below(32) {
            // complete note-on with explicit status
            0..=5 => {
                feed(&mut h, &mut mr, 0x90 | ch);
                let n = note_byte(&mut rng, style);
                feed(&mut h, &mut mr, n);
                let v = if rng.below(6) == 0 { 0 } else { data_byte(&mut rng) };
                feed(&mut h, &mut mr, v);
            }
            // complete note-off
            6..=9 => {
                feed(&mut h, &mut mr, 0x80 | ch);
                let n = note_byte(&mut rng, style);
                feed(&mut h, &mut mr, n);
                let v = data_byte(&mut rng);
                feed(&mut h, &mut mr, v);
            }
            // running status pair of data bytes (whatever the current status is)
            10..=13 => {
                let n = note_byte(&mut rng, style);
                feed(&mut h, &mut mr, n);
                let v = if rng.below(4) == 0 { 0 } else { data_byte(&mut rng) };
                feed(&mut h, &mut mr, v);
            }
            // control change, known and unknown controllers
            14..=17 => {
                feed(&mut h, &mut mr, 0xB0 | ch);
                let cc = if rng.below(8) == 0 {
                    data_byte(&mut rng)
                } else {
                    CCS[rng.below(16) as usize]
                };
                feed(&mut h, &mut mr, cc);
                let v = data_byte(&mut rng);
                feed(&mut h, &mut mr, v);
            }
            // pitch bend
            18..=19 => {
                feed(&mut h, &mut mr, 0xE0 | ch);
                let (lsb, msb) = match rng.below(6) {
                    0 => (0, 0),
                    1 => (0, 64),
                    2 => (127, 127),
                    3 => (1, 64),
                    _ => (data_byte(&mut rng), data_byte(&mut rng)),
                };
                feed(&mut h, &mut mr, lsb);
                feed(&mut h, &mut mr, msb);
            }
            // other channel-voice messages: key pressure, program change, channel pressure
            20 => {
                let st = [0xA0u8, 0xC0, 0xD0][rng.below(3) as usize];
                feed(&mut h, &mut mr, st | ch);
                for _ in 0..rng.below(3) {
                    let d = data_byte(&mut rng);
                    feed(&mut h, &mut mr, d);
                }
            }
            // system bytes: common, sysex, real-time, possibly in the middle of a message
            21..=22 => {
                let b = SYS[rng.below(12) as usize];
                feed(&mut h, &mut mr, b);
            }
            // a partial message followed by a real-time byte and the rest
            23 => {
                feed(&mut h, &mut mr, 0x90 | ch);
                let n = note_byte(&mut rng, style);
                feed(&mut h, &mut mr, n);
                feed(&mut h, &mut mr, 0xF8);
                let v = data_byte(&mut rng);
                feed(&mut h, &mut mr, v);
            }
            // totally random bytes
            24..=25 => {
                for _ in 0..(1 + rng.below(5)) {
                    let b = rng.byte();
                    feed(&mut h, &mut mr, b);
                }
            }
            // a burst of note-ons: overflows the held-note buffer now and then
            26 => {
                feed(&mut h, &mut mr, 0x90 | listened);
                for _ in 0..rng.below(40) {
                    let n = data_byte(&mut rng);
                    feed(&mut h, &mut mr, n);
                    let v = 1 + (rng.byte() % 127);
                    feed(&mut h, &mut mr, v);
                }
            }
            // read the self clearing edges (they are part of the call history)
            27..=28 => {
                let r = mr.rising_gate();
                h.bool(r);
                observe(&mut h, &mr);
                if rng.below(2) == 0 {
                    let r2 = mr.rising_gate();
                    h.bool(r2);
                }
            }
            29 => {
                let f = mr.falling_gate();
                h.bool(f);
                observe(&mut h, &mr);
                if rng.below(2) == 0 {
                    let f2 = mr.falling_gate();
                    h.bool(f2);
                }
            }
            // mode changes
            30 => {
                mr.set_retrigger_mode(if rng.below(2) == 0 {
                    RetriggerMode::AllowRetrigger
                } else {
                    RetriggerMode::NoRetrigger
                });
                observe(&mut h, &mr);
            }
            _ => {
                mr.set_note_priority(match rng.below(3) {
                    0 => NotePriority::Last,
                    1 => NotePriority::High,
                    _ => NotePriority::Low,
                });
                observe(&mut h, &mr);
            }
        }
        // every now and then: all notes off / all controllers off / release everything in the tiny set
        match rng.below(400) {
            0 => {
                feed(&mut h, &mut mr, 0xB0 | listened);
                feed(&mut h, &mut mr, 0x7B);
                feed(&mut h, &mut mr, 0);
            }
            1 => {
                feed(&mut h, &mut mr, 0xB0 | listened);
                feed(&mut h, &mut mr, 0x79);
                feed(&mut h, &mut mr, 0);
            }
            2 => {
                feed(&mut h, &mut mr, 0x80 | listened);
                for n in 0..128u8 {
                    feed(&mut h, &mut mr, n);
                    feed(&mut h, &mut mr, 0);
                }
            }
            _ => (),
        }
    }
    let r = mr.rising_gate();
    h.bool(r);
    let f = mr.falling_gate();
    h.bool(f);
    observe(&mut h, &mr);
    println!("   (seed {} saw {} true bools)", seed, h.1);
    h.0
}

/// exhaustive small sweeps: every controller number with every value, every pitch bend MSB/LSB edge,
/// every velocity, every channel argument
fn sweep() -> u64 {
    let mut h = Fnv::new();
    for channel_arg in [0u8, 1, 7, 14, 15, 16, 17, 127, 128, 200, 255] {
        let mut mr = MonoMidiReceiver::new(channel_arg);
        // which channel does it listen to?
        for ch in 0..16u8 {
            feed(&mut h, &mut mr, 0x90 | ch);
            feed(&mut h, &mut mr, 10 + ch);
            feed(&mut h, &mut mr, 100);
            let r = mr.rising_gate();
            h.bool(r);
            feed(&mut h, &mut mr, 0x80 | ch);
            feed(&mut h, &mut mr, 10 + ch);
            feed(&mut h, &mut mr, 0);
            let f = mr.falling_gate();
            h.bool(f);
        }
        let lc = channel_arg.min(15);
        // all controllers, all values (running status)
        feed(&mut h, &mut mr, 0xB0 | lc);
        for cc in 0..128u8 {
            for v in 0..128u8 {
                if cc == 0x7B && v % 16 == 0 {
                    // hold a note so that all-notes-off has something to do
                    feed(&mut h, &mut mr, 0x90 | lc);
                    feed(&mut h, &mut mr, v);
                    feed(&mut h, &mut mr, 1);
                    feed(&mut h, &mut mr, 0xB0 | lc);
                }
                feed(&mut h, &mut mr, cc);
                feed(&mut h, &mut mr, v);
                if cc == 0x7B {
                    let r = mr.rising_gate();
                    h.bool(r);
                    let f = mr.falling_gate();
                    h.bool(f);
                }
            }
        }
        // all velocities
        feed(&mut h, &mut mr, 0x90 | lc);
        for v in 0..128u8 {
            feed(&mut h, &mut mr, 64);
            feed(&mut h, &mut mr, v);
            let r = mr.rising_gate();
            h.bool(r);
            let f = mr.falling_gate();
            h.bool(f);
        }
        // pitch bend: all MSBs with a few LSBs, all LSBs with a few MSBs
        feed(&mut h, &mut mr, 0xE0 | lc);
        for msb in 0..128u8 {
            for lsb in [0u8, 1, 63, 64, 126, 127] {
                feed(&mut h, &mut mr, lsb);
                feed(&mut h, &mut mr, msb);
            }
        }
        for lsb in 0..128u8 {
            for msb in [0u8, 63, 64, 65, 127] {
                feed(&mut h, &mut mr, lsb);
                feed(&mut h, &mut mr, msb);
            }
        }
        // priorities with a fixed chord, released in different orders, both retrigger modes
        for retrig in 0..2 {
            for prio in 0..3 {
                mr.set_retrigger_mode(if retrig == 0 {
                    RetriggerMode::NoRetrigger
                } else {
                    RetriggerMode::AllowRetrigger
                });
                mr.set_note_priority(match prio {
                    0 => NotePriority::Last,
                    1 => NotePriority::High,
                    _ => NotePriority::Low,
                });
                let chord = [60u8, 72, 48, 65, 0, 127, 65];
                feed(&mut h, &mut mr, 0x90 | lc);
                for n in chord {
                    feed(&mut h, &mut mr, n);
                    feed(&mut h, &mut mr, 90);
                    let r = mr.rising_gate();
                    h.bool(r);
                }
                for n in [127u8, 0, 60, 65, 48, 72, 72] {
                    feed(&mut h, &mut mr, n);
                    feed(&mut h, &mut mr, 0);
                    let r = mr.rising_gate();
                    h.bool(r);
                    let f = mr.falling_gate();
                    h.bool(f);
                }
            }
        }
        // 40 distinct notes: more than the buffer holds, then release them all
        feed(&mut h, &mut mr, 0x90 | lc);
        for n in 0..40u8 {
            feed(&mut h, &mut mr, 20 + n);
            feed(&mut h, &mut mr, 1 + n);
        }
        for n in 0..40u8 {
            feed(&mut h, &mut mr, 20 + n);
            feed(&mut h, &mut mr, 0);
            let f = mr.falling_gate();
            h.bool(f);
        }
    }
    h.0
}

#[test]
fn differential_hashes() {
    let mut total = Fnv::new();
    let s = sweep();
    println!("DIFFHASH sweep {:016x}", s);
    for b in s.to_le_bytes() {
        total.u8(b);
    }
    let channel_args = [0u8, 1, 15, 16, 200, 255, 9, 3];
    for (i, seed) in [1u64, 2, 3, 42, 1234567, 0xDEADBEEF, 0xFFFF_FFFF_FFFF_FFFF, 0, 77, 2026]
        .iter()
        .enumerate()
    {
        let ch = channel_args[i % channel_args.len()];
        let r = run(*seed, ch, 60_000);
        println!("DIFFHASH seed {:>20} ch {:>3} {:016x}", seed, ch, r);
        for b in r.to_le_bytes() {
            total.u8(b);
        }
    }
    println!("DIFFHASH total {:016x}", total.0);
}
