//! Differential test for src/glide_processor.rs and src/utils.rs.
//!
//! Copy to `tests/diff_test.rs` of the crate and run
//! `cargo test --offline --test diff_test -- --nocapture` (and the same with `--release`).
//!
//! Uses only the public API of `synth_utils`. Drives the glide processor (and, because `utils.rs` is also used by the
//! ADSR and the LFO, briefly those two) with long LCG-generated call sequences and hashes every observable output
//! with FNV-1a. Two hashes are printed: `raw` hashes the exact bit pattern of every f32, `canon` maps every NaN to
//! the canonical quiet NaN first (NaN payloads are not specified by Rust, they happen to be stable here anyway).

use std::panic::{catch_unwind, AssertUnwindSafe};
use synth_utils::adsr::{self, Adsr};
use synth_utils::glide_processor::GlideProcessor;
use synth_utils::lfo::{Lfo, Waveshape};

struct Lcg(u64);

impl Lcg {
    fn next_u32(&mut self) -> u32 {
        self.0 = self
            .0
            .wrapping_mul(6364136223846793005)
            .wrapping_add(1442695040888963407);
        (self.0 >> 32) as u32
    }
    /// uniform in [0, 1)
    fn unit(&mut self) -> f32 {
        (self.next_u32() >> 8) as f32 / 16_777_216.0_f32
    }
    fn below(&mut self, n: u32) -> u32 {
        self.next_u32() % n
    }
}

struct Hash {
    raw: u64,
    canon: u64,
    n: u64,
}

impl Hash {
    fn new() -> Self {
        Self {
            raw: 0xcbf29ce484222325,
            canon: 0xcbf29ce484222325,
            n: 0,
        }
    }
    fn feed(h: &mut u64, w: u32) {
        for b in w.to_le_bytes() {
            *h ^= b as u64;
            *h = h.wrapping_mul(0x100000001b3);
        }
    }
    fn u32(&mut self, w: u32) {
        Self::feed(&mut self.raw, w);
        Self::feed(&mut self.canon, w);
        self.n += 1;
    }
    fn f32(&mut self, v: f32) {
        Self::feed(&mut self.raw, v.to_bits());
        Self::feed(&mut self.canon, if v.is_nan() { 0x7fc0_0000 } else { v.to_bits() });
        self.n += 1;
    }
}

const EDGE_TIMES: [f32; 34] = [
    0.0,
    -0.0,
    -1.0,
    -1.0e30,
    1.0e-45,
    1.0e-38,
    1.0e-30,
    1.0e-6,
    1.0e-4,
    0.001,
    0.004,
    0.01,
    0.049,
    0.05,
    0.051,
    0.0999,
    0.1,
    0.1001,
    0.5,
    1.0,
    2.0,
    5.0,
    9.96,
    10.0,
    10.04,
    10.06,
    11.0,
    100.0,
    1.0e30,
    f32::MAX,
    f32::MIN,
    f32::INFINITY,
    f32::NEG_INFINITY,
    f32::NAN,
];

const EDGE_INPUTS: [f32; 16] = [
    0.0,
    -0.0,
    1.0,
    -1.0,
    10.0,
    -10.0,
    1.0e-45,
    -1.0e-40,
    1.0e-20,
    1.0e30,
    -1.0e30,
    f32::MAX,
    f32::MIN,
    f32::INFINITY,
    f32::NEG_INFINITY,
    f32::NAN,
];

/// picks a glide time, `wild` allows values outside the documented `[0, 10]`
fn pick_time(rng: &mut Lcg, sr: f32, last_t: f32, wild: bool) -> f32 {
    let t = match rng.below(10) {
        0 | 1 => 10.0 * rng.unit(),
        2 => rng.unit() * rng.unit() * 0.2,
        // around the time currently in effect, to exercise the 0.05 s dead band
        3 | 4 => last_t + (rng.unit() - 0.5) * 0.2,
        // around the times where the cutoff reaches sample_rate/4, and exactly there
        5 => 4.0 / sr,
        6 => (4.0 / sr) * (0.5 + rng.unit()),
        7 => 2.0 * rng.unit() / sr,
        8 => 0.0,
        _ => EDGE_TIMES[rng.below(EDGE_TIMES.len() as u32) as usize],
    };
    if wild || (t >= 0.0 && t <= 10.0) {
        t
    } else {
        10.0 * rng.unit()
    }
}

fn pick_input(rng: &mut Lcg, held: f32, wild: bool) -> f32 {
    let v = match rng.below(8) {
        0 | 1 | 2 => held,
        3 | 4 => 20.0 * rng.unit() - 10.0,
        5 => rng.unit(),
        6 => f32::from_bits(rng.next_u32()),
        _ => EDGE_INPUTS[rng.below(EDGE_INPUTS.len() as u32) as usize],
    };
    if wild || (v.is_finite() && v.abs() <= 1.0e30) {
        v
    } else {
        held
    }
}

fn glide_episode(h: &mut Hash, sr: f32, seed: u64, ops: u32, wild: bool) {
    let mut rng = Lcg(seed);
    let made = catch_unwind(|| GlideProcessor::new(sr));
    let mut gp = match made {
        Ok(gp) => {
            h.u32(1);
            gp
        }
        Err(_) => {
            // the constructor panicked (sample rate not > 0), that fact is the observable output
            h.u32(0xdead);
            return;
        }
    };
    let mut last_t = 0.0_f32;
    let mut held = 0.0_f32;
    let mut i = 0;
    while i < ops {
        match rng.below(16) {
            0 => {
                let t = pick_time(&mut rng, sr, last_t, wild);
                let r = catch_unwind(AssertUnwindSafe(|| gp.set_time(t)));
                h.u32(if r.is_ok() { 2 } else { 0xdead });
                if t.is_finite() {
                    last_t = t;
                }
            }
            1 => {
                held = pick_input(&mut rng, held, wild);
            }
            2 => {
                // a burst with a held input, as in a real glide
                let n = rng.below(200);
                for _ in 0..n {
                    h.f32(gp.process(held));
                }
                i += n;
            }
            _ => {
                let v = pick_input(&mut rng, held, wild);
                h.f32(gp.process(v));
            }
        }
        i += 1;
    }
}

/// deterministic step responses for every edge time, straight from the property statements C13 / C14
fn glide_steps(h: &mut Hash, sr: f32) {
    for &t in EDGE_TIMES.iter() {
        let mut gp = GlideProcessor::new(sr);
        gp.set_time(t);
        h.f32(gp.process(0.0));
        for _ in 0..300 {
            h.f32(gp.process(1.0));
        }
        // change in mid glide, then back to zero
        gp.set_time(t + 0.04);
        gp.set_time(t + 0.06);
        for _ in 0..300 {
            h.f32(gp.process(-3.5));
        }
        gp.set_time(0.0);
        for _ in 0..10 {
            h.f32(gp.process(2.0));
        }
    }
}

fn adsr_lfo_episode(h: &mut Hash, sr: f32, seed: u64, ops: u32) {
    let mut rng = Lcg(seed);
    let mut env = Adsr::new(sr);
    let mut lfo = Lfo::new(sr);
    let shapes = [
        Waveshape::Sine,
        Waveshape::Triangle,
        Waveshape::UpSaw,
        Waveshape::DownSaw,
        Waveshape::Square,
    ];
    for _ in 0..ops {
        match rng.below(64) {
            0 => env.gate_on(),
            1 => env.gate_off(),
            2 => env.set_input(adsr::Input::Attack((rng.unit() * 0.05).into())),
            3 => env.set_input(adsr::Input::Decay((rng.unit() * 0.05).into())),
            4 => env.set_input(adsr::Input::Sustain(rng.unit().into())),
            5 => env.set_input(adsr::Input::Release((rng.unit() * 0.05).into())),
            6 => env.set_input(adsr::Input::Attack(
                EDGE_TIMES[rng.below(EDGE_TIMES.len() as u32) as usize].into(),
            )),
            7 => env.set_input(adsr::Input::Sustain(
                EDGE_INPUTS[rng.below(EDGE_INPUTS.len() as u32) as usize].into(),
            )),
            8 => lfo.set_frequency(rng.unit() * rng.unit() * sr),
            9 => lfo.set_phase(rng.unit() * 4.0 - 2.0),
            10 => lfo.reset(),
            _ => {}
        }
        env.tick();
        lfo.tick();
        h.f32(env.value());
        for s in shapes.iter() {
            h.f32(lfo.get(*s));
        }
    }
}

#[test]
fn differential_hash() {
    // keep the expected constructor panics quiet
    std::panic::set_hook(Box::new(|_| {}));

    // documented range [100 Hz, 192 kHz] first, then everything else a caller could pass
    let rates_in_range: [f32; 10] = [
        100.0, 123.456, 1_000.0, 8_000.5, 22_050.0, 44_100.0, 48_000.0, 96_000.0, 176_400.0, 192_000.0,
    ];
    let rates_wild: [f32; 14] = [
        0.0,
        -0.0,
        -1.0,
        f32::NAN,
        f32::NEG_INFINITY,
        1.0e-45,
        4.0e-45,
        1.0e-38,
        1.0e-3,
        0.39,
        1.0,
        1.0e30,
        f32::MAX,
        f32::INFINITY,
    ];

    let mut total = Hash::new();

    let mut h = Hash::new();
    for (i, &sr) in rates_in_range.iter().enumerate() {
        for s in 0..4u64 {
            glide_episode(&mut h, sr, 0x1234_5678 + 977 * s + 31 * i as u64, 30_000, false);
        }
    }
    println!("HASH glide_in_range  raw={:016x} canon={:016x} n={}", h.raw, h.canon, h.n);
    total.u32(h.canon as u32);
    total.u32((h.canon >> 32) as u32);

    let mut h = Hash::new();
    for &sr in rates_in_range.iter() {
        glide_steps(&mut h, sr);
    }
    println!("HASH glide_steps     raw={:016x} canon={:016x} n={}", h.raw, h.canon, h.n);
    total.u32(h.canon as u32);
    total.u32((h.canon >> 32) as u32);

    let mut h = Hash::new();
    for (i, &sr) in rates_in_range.iter().chain(rates_wild.iter()).enumerate() {
        for s in 0..3u64 {
            // short episodes: once a NaN or an infinity went in, the filter state stays NaN
            for e in 0..40u64 {
                glide_episode(&mut h, sr, 0xfeed_0000 + 7919 * s + 131 * i as u64 + 17 * e, 400, true);
            }
        }
    }
    println!("HASH glide_wild      raw={:016x} canon={:016x} n={}", h.raw, h.canon, h.n);
    total.u32(h.canon as u32);
    total.u32((h.canon >> 32) as u32);

    let mut h = Hash::new();
    for (i, &sr) in [100.0_f32, 1_000.0, 48_000.0, 192_000.0].iter().enumerate() {
        adsr_lfo_episode(&mut h, sr, 0xabcd_ef01 + i as u64, 50_000);
    }
    println!("HASH adsr_lfo(utils) raw={:016x} canon={:016x} n={}", h.raw, h.canon, h.n);
    total.u32(h.canon as u32);
    total.u32((h.canon >> 32) as u32);

    // the total is built from the canon hashes: the raw NaN bit patterns of the wild section already differ between a
    // debug and a release build of the unmodified crate (sign / payload of NaNs is unspecified)
    println!("HASH TOTAL           canon={:016x}", total.canon);
}
