//! Differential test for `synth_utils::quantizer` (public API only).
//!
//! Copy to `tests/diff_test.rs` of the crate and run
//! `cargo test --offline --test diff_test -- --nocapture` (and the same with `--release`).
//! Every observable output of long pseudo-random call sequences is folded into an FNV-1a hash per seed;
//! the hashes of the clean crate are pinned below, so the test fails if a change alters any output bit.

use synth_utils::quantizer::{
    Conversion, Note, Quantizer, HALF_SEMITONE_WIDTH, NUM_NOTES_PER_OCTAVE, SEMITONE_WIDTH,
};

/// Hashes obtained on the clean crate: (seed, debug build, release build).
///
/// The clean crate itself is build-dependent for one input: `convert(-0.0)` on a quantizer whose hysteresis window does
/// not contain 0 V reports the fraction `-0.0` in a debug build and `+0.0` in a release build, because the sign of
/// `(-0.0_f32).max(0.0)` is unspecified. The sequences below contain `-0.0`, so each build has its own reference.
const EXPECTED: [(u64, u64, u64); 4] = [
    (1, 0x8ad9e5266632c0e0, 0xc58101674737b560),
    (0xDEAD_BEEF, 0x99dd4539aeac0114, 0x5ef89876f6ea7814),
    (0x1234_5678_9ABC_DEF0, 0x726d0c17b4cf5412, 0x6b12d696e2f19b12),
    (u64::MAX, 0x631c0d2d30579426, 0x0973557f5c37db26),
];
/// the sweep contains no negative zero and is identical in both builds
const EXPECTED_SWEEP: u64 = 0xe31291990f50d4b5;
const EXPECTED_CONSTS: u64 = 0x8917a74f1a3a83e8;

struct Lcg(u64);

impl Lcg {
    fn next(&mut self) -> u32 {
        self.0 = self
            .0
            .wrapping_mul(6364136223846793005)
            .wrapping_add(1442695040888963407);
        (self.0 >> 32) as u32
    }
    fn below(&mut self, n: u32) -> u32 {
        self.next() % n
    }
    /// uniform in [0, 1)
    fn unit(&mut self) -> f32 {
        (self.next() >> 8) as f32 / (1u32 << 24) as f32
    }
}

struct Fnv(u64);

impl Fnv {
    fn new() -> Self {
        Fnv(0xcbf2_9ce4_8422_2325)
    }
    fn byte(&mut self, b: u8) {
        self.0 ^= b as u64;
        self.0 = self.0.wrapping_mul(0x0000_0100_0000_01b3);
    }
    fn u32(&mut self, v: u32) {
        for b in v.to_le_bytes() {
            self.byte(b);
        }
    }
    fn f32(&mut self, v: f32) {
        self.u32(v.to_bits());
    }
    fn conversion(&mut self, c: Conversion) {
        self.byte(c.note_num);
        self.f32(c.stairstep);
        self.f32(c.fraction);
    }
    fn scale(&mut self, q: &Quantizer) {
        let mut bits = 0u32;
        for n in 0..=12u8 {
            // 12 exercises the clamp of Note::new / From<u8>
            bits |= (q.is_allowed(Note::new(n)) as u32) << n;
        }
        self.u32(bits);
    }
}

const EDGE_VALUES: [f32; 40] = [
    0.0,
    -0.0,
    1.0,
    -1.0,
    10.0,
    9.999_999,
    10.000_001,
    11.0,
    -1.0e-6,
    1.0e-6,
    1.0e-7,
    f32::MIN_POSITIVE,
    -f32::MIN_POSITIVE,
    1.0e-45, // subnormal
    f32::EPSILON,
    f32::MAX,
    f32::MIN,
    1.0e9,
    -1.0e9,
    4294.967_3,
    4295.0,
    1.0e20,
    -1.0e20,
    f32::INFINITY,
    f32::NEG_INFINITY,
    f32::NAN,
    -f32::NAN,
    0.5,
    5.0,
    9.916_666,
    9.916_667,
    9.958_333,
    0.083_333,
    0.083_334,
    0.041_666,
    0.041_667,
    SEMITONE_WIDTH,
    HALF_SEMITONE_WIDTH,
    NUM_NOTES_PER_OCTAVE,
    1.0 / 3.0,
];

fn random_note(rng: &mut Lcg) -> Note {
    match rng.below(4) {
        0 => Note::new(rng.below(12) as u8),
        1 => Note::from(rng.below(12) as u8),
        2 => Note::new(rng.next() as u8), // any u8, mostly clamped to 11
        _ => [
            Note::C,
            Note::CSHARP,
            Note::D,
            Note::DSHARP,
            Note::E,
            Note::F,
            Note::FSHARP,
            Note::G,
            Note::GSHARP,
            Note::A,
            Note::ASHARP,
            Note::B,
        ][rng.below(12) as usize],
    }
}

fn random_input(rng: &mut Lcg, last: f32) -> f32 {
    match rng.below(16) {
        // edge values
        0 => EDGE_VALUES[rng.below(EDGE_VALUES.len() as u32) as usize],
        // exactly on a semitone boundary, computed in several ways
        1 => rng.below(125) as f32 / 12.0,
        2 => rng.below(125) as f32 * SEMITONE_WIDTH,
        // close to a semitone boundary (inside / outside the hysteresis window)
        3 | 4 => {
            let b = rng.below(125) as f32 / 12.0;
            let d = (rng.unit() - 0.5) * 0.25 * SEMITONE_WIDTH;
            b + d
        }
        // a few ulps around a boundary
        5 => {
            let b = rng.below(125) as f32 / 12.0;
            let k = rng.below(9) as i32 - 4;
            f32::from_bits((b.to_bits() as i32 + k).max(0) as u32)
        }
        // small noise around the previous input (exercises the hysteresis path)
        6 | 7 | 8 => {
            let d = (rng.unit() - 0.5) * 0.05;
            last + d
        }
        // the previous input again (input stays put while the scale may change)
        9 => last,
        // moderately out of range
        10 => rng.unit() * 14.0 - 2.0,
        // arbitrary bit pattern (huge, tiny, NaN, inf, negative ...)
        11 => f32::from_bits(rng.next()),
        // in range
        _ => rng.unit() * 10.0,
    }
}

fn run_sequence(seed: u64, steps: u32) -> u64 {
    let mut rng = Lcg(seed);
    let mut h = Fnv::new();
    let mut q = Quantizer::new();
    let mut last = 0.0_f32;
    h.scale(&q);

    for _ in 0..steps {
        match rng.below(32) {
            // allow a random slice (possibly empty, possibly with duplicates)
            0 | 1 => {
                let len = rng.below(5) as usize;
                let mut notes = [Note::C; 4];
                for n in notes.iter_mut() {
                    *n = random_note(&mut rng);
                }
                q.allow(&notes[..len.min(4)]);
                h.scale(&q);
            }
            // forbid a random slice (possibly empty, possibly with duplicates)
            2 | 3 | 4 => {
                let len = rng.below(7) as usize;
                let mut notes = [Note::C; 6];
                for n in notes.iter_mut() {
                    *n = random_note(&mut rng);
                }
                q.forbid(&notes[..len.min(6)]);
                h.scale(&q);
            }
            // try to forbid everything, in a random rotation: the last one must survive
            5 => {
                let r = rng.below(12) as u8;
                let mut notes = [Note::C; 12];
                for (i, n) in notes.iter_mut().enumerate() {
                    *n = Note::new((i as u8 + r) % 12);
                }
                q.forbid(&notes);
                h.scale(&q);
            }
            // forbid everything except a few
            6 => {
                let keep = rng.next() & 0xfff;
                let mut notes = [Note::C; 12];
                let mut len = 0;
                for i in 0..12u8 {
                    if (keep >> i) & 1 == 0 {
                        notes[len] = Note::new(i);
                        len += 1;
                    }
                }
                q.forbid(&notes[..len]);
                h.scale(&q);
            }
            // allow everything
            7 => {
                let mut notes = [Note::C; 12];
                for (i, n) in notes.iter_mut().enumerate() {
                    *n = Note::from(i as u8);
                }
                q.allow(&notes);
                h.scale(&q);
            }
            // start over with a fresh quantizer (no history)
            8 => {
                if rng.below(4) == 0 {
                    q = Quantizer::new();
                    h.scale(&q);
                }
            }
            // single is_allowed query, u8 round trip of the note
            9 => {
                let n = random_note(&mut rng);
                h.byte(u8::from(n));
                h.byte(q.is_allowed(n) as u8);
            }
            // conversions
            _ => {
                let v = random_input(&mut rng, last);
                if v.is_finite() {
                    last = v.max(-1.0).min(11.0);
                }
                h.conversion(q.convert(v));
            }
        }
    }
    h.0
}

/// fine monotone sweep over [-0.5, 10.5] V up and down, with the chromatic scale and a sparse scale
fn run_sweep() -> u64 {
    let mut h = Fnv::new();
    let scales: [&[Note]; 4] = [
        &[],
        &[Note::CSHARP, Note::DSHARP, Note::FSHARP, Note::GSHARP, Note::ASHARP],
        &[
            Note::C,
            Note::CSHARP,
            Note::D,
            Note::E,
            Note::F,
            Note::FSHARP,
            Note::G,
            Note::GSHARP,
            Note::A,
            Note::ASHARP,
            Note::B,
        ],
        &[
            Note::CSHARP,
            Note::D,
            Note::DSHARP,
            Note::E,
            Note::F,
            Note::FSHARP,
            Note::G,
            Note::GSHARP,
            Note::A,
            Note::ASHARP,
            Note::B,
            Note::C,
        ],
    ];
    for forbidden in scales {
        let mut q = Quantizer::new();
        q.forbid(forbidden);
        h.scale(&q);
        const N: u32 = 110_000;
        for i in 0..=N {
            let v = -0.5 + 11.0 * (i as f32 / N as f32);
            h.conversion(q.convert(v));
        }
        for i in (0..=N).rev() {
            let v = -0.5 + 11.0 * (i as f32 / N as f32);
            h.conversion(q.convert(v));
        }
        // history-free conversions
        for i in 0..=N / 10 {
            let v = -0.5 + 11.0 * (i as f32 / (N / 10) as f32);
            let mut fresh = Quantizer::new();
            fresh.forbid(forbidden);
            h.conversion(fresh.convert(v));
        }
    }
    h.0
}

#[test]
fn quantizer_differential_hashes() {
    // the initial record and the public constants are observable too
    let mut h = Fnv::new();
    h.conversion(Conversion::new());
    h.f32(NUM_NOTES_PER_OCTAVE);
    h.f32(SEMITONE_WIDTH);
    h.f32(HALF_SEMITONE_WIDTH);
    println!("HASH quantizer consts          = {:016x}", h.0);

    let mut ok = h.0 == EXPECTED_CONSTS;
    for (seed, debug, release) in EXPECTED {
        let expected = if cfg!(debug_assertions) { debug } else { release };
        let got = run_sequence(seed, 400_000);
        println!("HASH quantizer seed {:016x} = {:016x}", seed, got);
        ok &= got == expected;
    }
    let got = run_sweep();
    println!("HASH quantizer sweep           = {:016x}", got);
    ok &= got == EXPECTED_SWEEP;
    assert!(ok, "hashes differ from the clean crate");
}
