//! Differential test for src/adsr.rs and src/phase_accumulator.rs (the latter is also reached through `lfo::Lfo`).
//!
//! Copy to `tests/diff_test.rs` and run
//!     cargo test --offline --test diff_test -- --nocapture
//!     cargo test --offline --release --test diff_test -- --nocapture
//! Every observable output (f32 bit patterns, `Debug` text, `PartialEq` results, panic / no panic of the
//! out-of-contract constructions) is folded into one FNV-1a hash per section; the hashes are printed and must be
//! identical before and after a behaviour-preserving change.  Only the public API of `synth_utils` is used.

use std::fmt::Write as _;
use std::panic::{catch_unwind, AssertUnwindSafe};
use synth_utils::adsr::{self, Adsr, Input, SustainLevel, TimePeriod};
use synth_utils::lfo::{Lfo, Waveshape};

// ---------------------------------------------------------------------------------------------------------------------

struct Fnv(u64);

impl Fnv {
    fn new() -> Self {
        Fnv(0xcbf2_9ce4_8422_2325)
    }
    fn byte(&mut self, b: u8) {
        self.0 ^= b as u64;
        self.0 = self.0.wrapping_mul(0x0000_0100_0000_01b3);
    }
    fn bytes(&mut self, bs: &[u8]) {
        for &b in bs {
            self.byte(b);
        }
    }
    fn u32(&mut self, v: u32) {
        self.bytes(&v.to_le_bytes());
    }
    fn f32(&mut self, v: f32) {
        self.u32(v.to_bits());
    }
    fn bool(&mut self, v: bool) {
        self.byte(v as u8);
    }
    fn debug<T: core::fmt::Debug>(&mut self, buf: &mut String, v: &T) {
        buf.clear();
        write!(buf, "{:?}", v).unwrap();
        self.bytes(buf.as_bytes());
        self.byte(0xff);
    }
    fn debug_pretty<T: core::fmt::Debug>(&mut self, buf: &mut String, v: &T) {
        buf.clear();
        write!(buf, "{:#?}", v).unwrap();
        self.bytes(buf.as_bytes());
        self.byte(0xfe);
    }
}

struct Lcg(u64);

impl Lcg {
    fn next(&mut self) -> u32 {
        self.0 = self
            .0
            .wrapping_mul(6364136223846793005)
            .wrapping_add(1442695040888963407);
        (self.0 >> 32) as u32
    }
    /// uniform-ish in `[0, n)`
    fn below(&mut self, n: u32) -> u32 {
        ((self.next() as u64 * n as u64) >> 32) as u32
    }
    /// uniform-ish in `[0, 1)`
    fn unit(&mut self) -> f32 {
        (self.next() >> 8) as f32 / 16_777_216.0_f32
    }
}

const EDGE_F32: [f32; 28] = [
    0.0,
    -0.0,
    1.0,
    -1.0,
    0.5,
    0.25,
    0.75,
    0.001,
    0.000_999_9,
    0.001_000_1,
    0.002,
    0.01,
    0.1,
    19.999,
    20.0,
    20.000_002,
    1.0e-30,
    -1.0e-30,
    1.0e30,
    -1.0e30,
    f32::MAX,
    f32::MIN,
    f32::MIN_POSITIVE,
    f32::EPSILON,
    f32::INFINITY,
    f32::NEG_INFINITY,
    f32::NAN,
    1.000_000_1,
];

/// a parameter value: an edge value, a value in a musically sensible range, or an arbitrary bit pattern
fn param(rng: &mut Lcg, lo: f32, hi: f32) -> f32 {
    match rng.below(8) {
        0 => EDGE_F32[rng.below(EDGE_F32.len() as u32) as usize],
        1 => f32::from_bits(rng.next()),
        2 => -(lo + (hi - lo) * rng.unit()),
        _ => lo + (hi - lo) * rng.unit(),
    }
}

/// `-0.0` is replaced by `+0.0`: `SustainLevel::from` computes `f32::max(-0.0, 0.0)`, whose sign the standard library
/// leaves unspecified (it differs between the debug and release build of the *unchanged* crate), so it must not leak
/// into the long call sequences.  Section 1 still feeds `-0.0` to the conversion directly.
fn pos_zero(v: f32) -> f32 {
    if v == 0.0 {
        0.0
    } else {
        v
    }
}

// ---------------------------------------------------------------------------------------------------------------------
// section 1: conversions of f32 into TimePeriod / SustainLevel and back, Debug and PartialEq of the input types

fn section_conversions() -> u64 {
    let mut h = Fnv::new();
    let mut buf = String::new();
    let mut rng = Lcg(0x1234_5678_9abc_def0);

    h.f32(adsr::MIN_TIME_PERIOD_SEC);
    h.f32(adsr::MAX_TIME_PERIOD_SEC);

    let mut one = |h: &mut Fnv, v: f32| {
        let t: TimePeriod = v.into();
        let s: SustainLevel = v.into();
        h.f32(f32::from(t));
        h.f32(f32::from(s));
        h.debug(&mut buf, &t);
        h.debug(&mut buf, &s);
        let ins = [
            Input::Attack(t),
            Input::Decay(t),
            Input::Sustain(s),
            Input::Release(t),
        ];
        for (i, a) in ins.iter().enumerate() {
            h.debug(&mut buf, a);
            for (j, b) in ins.iter().enumerate() {
                h.bool(a == b);
                assert_eq!(a == b, i == j);
            }
        }
        h.bool(t == TimePeriod::from(0.5));
        h.bool(s == SustainLevel::from(0.5));
    };

    for &v in EDGE_F32.iter() {
        one(&mut h, v);
    }
    for _ in 0..20_000 {
        let v = f32::from_bits(rng.next());
        one(&mut h, v);
    }
    for _ in 0..20_000 {
        let v = rng.unit() * 25.0 - 2.0;
        one(&mut h, v);
    }
    h.0
}

// ---------------------------------------------------------------------------------------------------------------------
// section 2: ADSR driven by long pseudo-random call sequences

const SAMPLE_RATES: [f32; 8] = [
    100.0, 1_000.0, 8_000.0, 44_100.0, 48_000.0, 96_000.0, 192_000.0, 12_345.678,
];

fn adsr_random_run(h: &mut Fnv, seed: u64, sample_rate: f32, n_ops: usize, slow: bool) {
    let mut rng = Lcg(seed);
    let mut buf = String::new();
    let mut e = Adsr::new(sample_rate);
    h.f32(e.value());
    h.debug(&mut buf, &e);
    h.debug_pretty(&mut buf, &e);

    // upper end of the "sensible" time range: short phases complete often, long ones exercise the interpolation
    let t_hi = if slow { 20.0 } else { 0.05 };

    for i in 0..n_ops {
        match rng.below(64) {
            0 => e.gate_on(),
            1 => e.gate_off(),
            2 => {
                // a burst of gate events without ticks in between
                for _ in 0..rng.below(4) {
                    if rng.below(2) == 0 {
                        e.gate_on()
                    } else {
                        e.gate_off()
                    }
                    h.f32(e.value());
                }
            }
            3 => e.set_input(Input::Attack(param(&mut rng, 0.0005, t_hi).into())),
            4 => e.set_input(Input::Decay(param(&mut rng, 0.0005, t_hi).into())),
            5 => e.set_input(Input::Release(param(&mut rng, 0.0005, t_hi).into())),
            6 => e.set_input(Input::Sustain(pos_zero(param(&mut rng, -0.1, 1.1)).into())),
            7 => {
                // copies behave like the original
                let mut c = e;
                c.tick();
                h.f32(c.value());
                let mut d = e.clone();
                d.gate_on();
                d.tick();
                h.f32(d.value());
                d.gate_off();
                d.tick();
                h.f32(d.value());
            }
            _ => e.tick(),
        }
        h.f32(e.value());
        if i % 7 == 0 {
            h.debug(&mut buf, &e);
        }
        if i % 1009 == 0 {
            h.debug_pretty(&mut buf, &e);
        }
    }
    h.debug(&mut buf, &e);
}

fn section_adsr_random() -> u64 {
    let mut h = Fnv::new();
    let mut seed = 0x0dd_ba11_u64;
    for &sr in SAMPLE_RATES.iter() {
        for slow in [false, true] {
            for _ in 0..3 {
                seed = seed.wrapping_mul(0x9e37_79b9_7f4a_7c15).wrapping_add(0x7f4a_7c15);
                adsr_random_run(&mut h, seed, sr, 40_000, slow);
            }
        }
    }
    h.0
}

// ---------------------------------------------------------------------------------------------------------------------
// section 3: complete envelopes, every tick hashed, including the slowest possible phases

fn full_envelope(h: &mut Fnv, sr: f32, a: f32, d: f32, s: f32, r: f32, hold: usize, retrig_at: Option<usize>) {
    let mut buf = String::new();
    let mut e = Adsr::new(sr);
    e.set_input(Input::Attack(a.into()));
    e.set_input(Input::Decay(d.into()));
    e.set_input(Input::Sustain(s.into()));
    e.set_input(Input::Release(r.into()));
    let clamp = |t: f32| f32::from(TimePeriod::from(t));
    let n_attack_decay = ((clamp(a) + clamp(d)) * sr) as usize + hold + 8;
    let n_release = (clamp(r) * sr) as usize + hold + 8;

    e.gate_on();
    for i in 0..n_attack_decay {
        e.tick();
        h.f32(e.value());
        if i % 4096 == 0 {
            h.debug(&mut buf, &e);
        }
        if Some(i) == retrig_at {
            e.gate_off();
            h.f32(e.value());
            e.tick();
            h.f32(e.value());
            e.gate_on();
            h.f32(e.value());
        }
    }
    h.debug(&mut buf, &e);
    e.gate_off();
    for i in 0..n_release {
        e.tick();
        h.f32(e.value());
        if i % 4096 == 0 {
            h.debug(&mut buf, &e);
        }
    }
    h.debug(&mut buf, &e);
}

fn section_adsr_full() -> u64 {
    let mut h = Fnv::new();
    // defaults: everything as fast as possible
    for &sr in SAMPLE_RATES.iter() {
        full_envelope(&mut h, sr, 0.0, 0.0, 2.0, 0.0, 4, None);
        full_envelope(&mut h, sr, 0.1, 0.1, 0.5, 0.1, 4, None);
        full_envelope(&mut h, sr, 0.15, 0.3, 0.5, 0.3, 16, Some(37));
        full_envelope(&mut h, sr, 0.013, 0.7, 0.0, 0.21, 16, Some(1));
        full_envelope(&mut h, sr, f32::NAN, f32::INFINITY, f32::NAN, f32::NEG_INFINITY, 3, Some(0));
    }
    // slowest phases at the extreme sample rates
    full_envelope(&mut h, 100.0, 20.0, 20.0, 0.25, 20.0, 4, Some(999));
    full_envelope(&mut h, 192_000.0, 20.0, 1.0e9, 0.625, f32::MAX, 4, Some(1_000_003));
    full_envelope(&mut h, 48_000.0, 3.3, 7.7, 0.999_999_9, 11.1, 4, None);
    h.0
}

// ---------------------------------------------------------------------------------------------------------------------
// section 4: the phase accumulator as seen through the LFO (set_frequency / set_phase / ramp / index / fraction)

const SHAPES: [Waveshape; 5] = [
    Waveshape::Sine,
    Waveshape::Triangle,
    Waveshape::UpSaw,
    Waveshape::DownSaw,
    Waveshape::Square,
];

fn lfo_random_run(h: &mut Fnv, seed: u64, sr: f32, n_ops: usize) {
    let mut rng = Lcg(seed);
    let mut buf = String::new();
    let mut l = Lfo::new(sr);
    let mut shadow = Lfo::new(sr);
    h.debug(&mut buf, &l);
    h.debug_pretty(&mut buf, &l);
    for i in 0..n_ops {
        match rng.below(32) {
            0 => {
                // frequencies in [0, sr], sometimes up to 4 sr, sometimes negative / NaN (both make the increment 0)
                let f = match rng.below(8) {
                    0 => 0.0,
                    1 => sr,
                    2 => -rng.unit() * sr,
                    3 => f32::NAN,
                    4 => rng.unit() * sr * 4.0,
                    5 => f32::MIN_POSITIVE,
                    6 => rng.unit() * rng.unit() * rng.unit() * 20.0,
                    _ => rng.unit() * sr,
                };
                l.set_frequency(f);
            }
            1 => {
                let p = match rng.below(6) {
                    0 => EDGE_F32[rng.below(EDGE_F32.len() as u32) as usize],
                    1 => f32::from_bits(rng.next()),
                    2 => -rng.unit() * 10.0,
                    3 => rng.unit() * 1.0e6,
                    _ => rng.unit(),
                };
                l.set_phase(p);
            }
            2 => l.reset(),
            3 => shadow = l,
            _ => l.tick(),
        }
        for &ws in SHAPES.iter() {
            h.f32(l.get(ws));
        }
        h.bool(l == shadow);
        h.bool(l != l.clone());
        if i % 5 == 0 {
            h.debug(&mut buf, &l);
        }
        if i % 1013 == 0 {
            h.debug_pretty(&mut buf, &l);
        }
    }
}

fn section_lfo() -> u64 {
    let mut h = Fnv::new();
    let mut seed = 0xfeed_f00d_u64;
    for &sr in SAMPLE_RATES.iter() {
        for _ in 0..3 {
            seed = seed.wrapping_mul(0x9e37_79b9_7f4a_7c15).wrapping_add(0x1234_5);
            lfo_random_run(&mut h, seed, sr, 60_000);
        }
    }
    // a very slow LFO: the sine must move between table entries (fraction bits)
    let mut l = Lfo::new(48_000.0);
    l.set_frequency(0.37);
    for _ in 0..300_000 {
        l.tick();
        for &ws in SHAPES.iter() {
            h.f32(l.get(ws));
        }
    }
    h.0
}

// ---------------------------------------------------------------------------------------------------------------------
// section 5: constructions outside the documented sample-rate range: the outcome (values or panic) must not change
// either.  (Panics are caught; the hash of this section legitimately differs between debug and release builds.)

fn section_out_of_contract() -> u64 {
    let mut h = Fnv::new();
    let prev_hook = std::panic::take_hook();
    std::panic::set_hook(Box::new(|_| {}));
    let rates = [
        0.0_f32,
        -0.0,
        -1.0,
        1.0,
        0.5,
        99.0,
        1.0e-20,
        1.0e20,
        f32::NAN,
        f32::INFINITY,
        f32::NEG_INFINITY,
        f32::MAX,
        f32::MIN_POSITIVE,
    ];
    for &sr in rates.iter() {
        // ADSR
        let r = catch_unwind(AssertUnwindSafe(|| {
            let mut hh = Fnv::new();
            let mut buf = String::new();
            let mut e = Adsr::new(sr);
            hh.debug(&mut buf, &e);
            e.set_input(Input::Attack(0.002.into()));
            e.set_input(Input::Sustain(0.5.into()));
            e.gate_on();
            for _ in 0..40 {
                e.tick();
                hh.f32(e.value());
                hh.debug(&mut buf, &e);
            }
            e.gate_off();
            for _ in 0..40 {
                e.tick();
                hh.f32(e.value());
            }
            hh.debug(&mut buf, &e);
            hh.0
        }));
        match r {
            Ok(v) => {
                h.byte(1);
                h.bytes(&v.to_le_bytes());
            }
            Err(_) => h.byte(0),
        }
        // LFO
        for &f in [1.0_f32, 1.0e9, f32::INFINITY, f32::MAX].iter() {
            let r = catch_unwind(AssertUnwindSafe(|| {
                let mut hh = Fnv::new();
                let mut buf = String::new();
                let mut l = Lfo::new(sr);
                l.set_frequency(f);
                hh.debug(&mut buf, &l);
                for _ in 0..40 {
                    l.tick();
                    for &ws in SHAPES.iter() {
                        hh.f32(l.get(ws));
                    }
                    hh.debug(&mut buf, &l);
                }
                hh.0
            }));
            match r {
                Ok(v) => {
                    h.byte(1);
                    h.bytes(&v.to_le_bytes());
                }
                Err(_) => h.byte(0),
            }
        }
    }
    std::panic::set_hook(prev_hook);
    h.0
}

// ---------------------------------------------------------------------------------------------------------------------

#[test]
fn differential_hashes() {
    let profile = if cfg!(debug_assertions) { "debug" } else { "release" };
    let c = section_conversions();
    let a = section_adsr_random();
    let f = section_adsr_full();
    let l = section_lfo();
    let o = section_out_of_contract();
    let mut all = Fnv::new();
    for v in [c, a, f, l, o] {
        all.bytes(&v.to_le_bytes());
    }
    println!("DIFFHASH[{profile}] conversions     = {c:016x}");
    println!("DIFFHASH[{profile}] adsr_random     = {a:016x}");
    println!("DIFFHASH[{profile}] adsr_full       = {f:016x}");
    println!("DIFFHASH[{profile}] lfo             = {l:016x}");
    println!("DIFFHASH[{profile}] out_of_contract = {o:016x}");
    println!("DIFFHASH[{profile}] TOTAL           = {:016x}", all.0);
}
