//! Differential test for `synth_utils::quantizer`.
//!
//! Copy to `tests/diff_test.rs` of the crate and run
//! `cargo test --offline --test diff_test -- --nocapture`.
//! It drives the public API of the quantizer with long deterministic pseudo-random call sequences and exhaustive
//! sweeps, folds the bit pattern of every observable output into 64-bit FNV-1a hashes and prints them. The hashes of
//! two builds of the crate are equal iff every observed output was bit-identical (up to hash collisions).

use synth_utils::quantizer::{
    Conversion, Note, Quantizer, HALF_SEMITONE_WIDTH, NUM_NOTES_PER_OCTAVE, SEMITONE_WIDTH,
};

struct Fnv(u64);

impl Fnv {
    fn new() -> Self {
        Fnv(0xcbf2_9ce4_8422_2325)
    }
    fn byte(&mut self, b: u8) {
        self.0 ^= b as u64;
        self.0 = self.0.wrapping_mul(0x0000_0100_0000_01b3);
    }
    fn u32(&mut self, v: u32) {
        for b in v.to_le_bytes() {
            self.byte(b);
        }
    }
    fn conv(&mut self, c: &Conversion) {
        self.byte(c.note_num);
        self.u32(c.stairstep.to_bits());
        self.u32(c.fraction.to_bits());
    }
    fn scale(&mut self, q: &Quantizer) {
        let mut m = 0u32;
        for n in 0..12u8 {
            if q.is_allowed(Note::new(n)) {
                m |= 1 << n;
            }
        }
        // also query through the clamping constructors
        for n in [12u8, 13, 100, 255] {
            if q.is_allowed(n.into()) {
                m |= 1 << 16;
            }
        }
        self.u32(m);
    }
}

struct Lcg(u64);

impl Lcg {
    fn next(&mut self) -> u32 {
        self.0 = self
            .0
            .wrapping_mul(6364136223846793005)
            .wrapping_add(1442695040888963407);
        (self.0 >> 32) as u32
    }
    fn below(&mut self, n: u32) -> u32 {
        self.next() % n
    }
    fn unit(&mut self) -> f32 {
        (self.next() >> 8) as f32 / (1u32 << 24) as f32
    }
}

const EDGES: [f32; 40] = [
    0.0,
    -0.0,
    f32::MIN_POSITIVE,
    -f32::MIN_POSITIVE,
    1.0e-45,
    -1.0e-45,
    1.0e-7,
    -1.0e-7,
    -1.0,
    -0.001,
    -10.0,
    -1.0e30,
    f32::MIN,
    f32::MAX,
    1.0e30,
    4294.9673,
    4295.0,
    4300.0,
    1.0e6,
    10.0,
    10.000001,
    9.999999,
    9.99,
    9.9166,
    9.916667,
    9.92,
    10.008,
    10.0084,
    10.1,
    11.0,
    0.5,
    1.0,
    0.083333,
    0.0833333358,
    0.08334,
    0.041666,
    f32::NAN,
    -f32::NAN,
    f32::INFINITY,
    f32::NEG_INFINITY,
];

fn quantizer_with_mask(mask: u16) -> Quantizer {
    assert!(mask & 0x0fff != 0);
    let mut q = Quantizer::new();
    let mut forbidden = [Note::C; 12];
    let mut k = 0;
    for n in 0..12u8 {
        if mask >> n & 1 == 0 {
            forbidden[k] = Note::new(n);
            k += 1;
        }
    }
    q.forbid(&forbidden[..k]);
    q
}

fn random_notes(rng: &mut Lcg, buf: &mut [Note; 16]) -> usize {
    let len = match rng.below(8) {
        0 => 0,
        1 => 1,
        2 => 12 + rng.below(5) as usize,
        _ => rng.below(8) as usize,
    };
    for slot in buf.iter_mut().take(len) {
        *slot = match rng.below(4) {
            0 => Note::new(rng.below(256) as u8), // exercises the clamp to 11
            1 => (rng.below(14) as u8).into(),
            _ => Note::new(rng.below(12) as u8),
        };
    }
    len
}

fn random_voltage(rng: &mut Lcg, last: f32) -> f32 {
    match rng.below(16) {
        0 => EDGES[rng.below(EDGES.len() as u32) as usize],
        1 => f32::from_bits(rng.next()),
        // exactly on, and a few ulps / microvolts around, a semitone boundary
        2 | 3 => {
            let k = rng.below(124) as f32;
            let b = k / 12.0;
            match rng.below(6) {
                0 => b,
                1 => f32::from_bits(b.to_bits().wrapping_add(rng.below(4))),
                2 => f32::from_bits(b.to_bits().saturating_sub(rng.below(4))),
                3 => b + (rng.unit() - 0.5) * 4.0e-5,
                4 => b + (rng.unit() - 0.5) * 0.02,
                _ => (k + 0.5) / 12.0 + (rng.unit() - 0.5) * 4.0e-5,
            }
        }
        // noise around the last input: exercises the hysteresis window
        4..=9 => {
            let l = if last.is_finite() { last } else { 5.0 };
            l + (rng.unit() - 0.5) * SEMITONE_WIDTH * [0.05, 0.2, 1.0, 2.5][rng.below(4) as usize]
        }
        // slow ramps
        10 | 11 => {
            let l = if last.is_finite() { last } else { 5.0 };
            l + 0.003 * if rng.below(2) == 0 { 1.0 } else { -1.0 }
        }
        12 => rng.unit() * 12.0 - 1.0,
        _ => rng.unit() * 10.0,
    }
}

/// long random call histories
fn random_histories(h: &mut Fnv) {
    for seed in [1u64, 2, 3, 0xdead_beef, 0x1234_5678_9abc_def0, 42, 7777, u64::MAX] {
        let mut rng = Lcg(seed);
        let mut q = Quantizer::new();
        let mut last = 0.0f32;
        let mut buf = [Note::C; 16];
        for _ in 0..150_000 {
            match rng.below(32) {
                0 => {
                    let len = random_notes(&mut rng, &mut buf);
                    q.allow(&buf[..len]);
                    h.scale(&q);
                }
                1 | 2 => {
                    let len = random_notes(&mut rng, &mut buf);
                    q.forbid(&buf[..len]);
                    h.scale(&q);
                }
                3 => {
                    if rng.below(16) == 0 {
                        q = Quantizer::new();
                    } else {
                        q.allow(&[Note::new(rng.below(12) as u8)]);
                    }
                    h.scale(&q);
                }
                4 => {
                    q.forbid(&[Note::new(rng.below(12) as u8)]);
                    h.scale(&q);
                }
                _ => {
                    let v = random_voltage(&mut rng, last);
                    last = v;
                    let c = q.convert(v);
                    h.conv(&c);
                }
            }
        }
    }
}

/// every scale, fresh quantizer (no history), a dense voltage grid
fn exhaustive_scales(h: &mut Fnv) {
    for mask in 1u16..4096 {
        // a fresh quantizer per input: history free
        for i in 0..=250u32 {
            let v = i as f32 * (10.0 / 250.0) + (mask as f32) * 1.0e-5;
            let mut q = quantizer_with_mask(mask);
            h.conv(&q.convert(v));
        }
        // one quantizer, rising then falling sweep: with history
        let mut q = quantizer_with_mask(mask);
        h.scale(&q);
        for i in 0..=300u32 {
            h.conv(&q.convert(i as f32 * (10.4 / 300.0) - 0.2));
        }
        for i in (0..=300u32).rev() {
            h.conv(&q.convert(i as f32 * (10.4 / 300.0) - 0.2));
        }
    }
}

/// chromatic scale, very fine sweep, with and without history, plus all edge values on every one-note and
/// two-note scale
fn fine_sweeps(h: &mut Fnv) {
    let mut q = Quantizer::new();
    for i in 0..=1_300_000u32 {
        let v = i as f32 * 1.0e-5 - 1.0;
        h.conv(&q.convert(v));
        if i % 7 == 0 {
            h.conv(&Quantizer::new().convert(v));
        }
    }
    for a in 0..12u16 {
        for b in 0..12u16 {
            let mask = 1 << a | 1 << b;
            for e in EDGES {
                h.conv(&quantizer_with_mask(mask).convert(e));
            }
            let mut q = quantizer_with_mask(mask);
            for e in EDGES {
                h.conv(&q.convert(e));
                h.conv(&q.convert(e));
            }
            // scale changed while the input stays put
            let mut q = quantizer_with_mask(mask);
            for i in 0..=120u32 {
                let v = i as f32 / 12.0 + 0.01;
                h.conv(&q.convert(v));
                q.forbid(&[Note::new(a as u8)]);
                h.conv(&q.convert(v));
                q.allow(&[Note::new(a as u8)]);
                q.forbid(&[Note::new(b as u8)]);
                h.conv(&q.convert(v));
                q.allow(&[Note::new(b as u8)]);
            }
        }
    }
}

fn misc(h: &mut Fnv) {
    h.conv(&Conversion::new());
    let c = Conversion::new();
    let d = c; // Copy
    h.conv(&d);
    h.u32(NUM_NOTES_PER_OCTAVE.to_bits());
    h.u32(SEMITONE_WIDTH.to_bits());
    h.u32(HALF_SEMITONE_WIDTH.to_bits());
    for n in 0..=255u8 {
        let note = Note::new(n);
        let via_from: Note = n.into();
        h.byte(u8::from(note));
        h.byte(u8::from(via_from));
        h.byte((note == via_from) as u8);
        h.byte((note == Note::B) as u8);
    }
    for (i, n) in [
        Note::C,
        Note::CSHARP,
        Note::D,
        Note::DSHARP,
        Note::E,
        Note::F,
        Note::FSHARP,
        Note::G,
        Note::GSHARP,
        Note::A,
        Note::ASHARP,
        Note::B,
    ]
    .iter()
    .enumerate()
    {
        assert_eq!(u8::from(*n) as usize, i);
        h.byte((*n).into());
    }
    // forbid everything in several orders, empty slices
    let mut q = Quantizer::new();
    q.forbid(&[]);
    q.allow(&[]);
    h.scale(&q);
    for start in 0..12u8 {
        let mut all = [Note::C; 12];
        for (k, slot) in all.iter_mut().enumerate() {
            *slot = Note::new((start + k as u8 * 5) % 12);
        }
        let mut q = Quantizer::new();
        q.forbid(&all);
        h.scale(&q);
        h.conv(&q.convert(0.5));
        q.forbid(&all[..7]);
        h.scale(&q);
        q.forbid(&[]);
        h.scale(&q);
        h.conv(&q.convert(9.99));
    }
}

#[test]
fn quantizer_differential_hash() {
    let mut h1 = Fnv::new();
    random_histories(&mut h1);
    let mut h2 = Fnv::new();
    exhaustive_scales(&mut h2);
    let mut h3 = Fnv::new();
    fine_sweeps(&mut h3);
    let mut h4 = Fnv::new();
    misc(&mut h4);
    let mut all = Fnv::new();
    for x in [h1.0, h2.0, h3.0, h4.0] {
        all.u32(x as u32);
        all.u32((x >> 32) as u32);
    }
    println!("QUANTIZER_DIFF random_histories = {:016x}", h1.0);
    println!("QUANTIZER_DIFF exhaustive_scales = {:016x}", h2.0);
    println!("QUANTIZER_DIFF fine_sweeps       = {:016x}", h3.0);
    println!("QUANTIZER_DIFF misc              = {:016x}", h4.0);
    println!("QUANTIZER_DIFF TOTAL             = {:016x}", all.0);
}
