//! Differential test for the LFO module (src/lfo.rs, src/phase_accumulator.rs, src/utils.rs).
//!
//! Uses only the public API of `synth_utils`.  The phase accumulator and the utils are private
//! modules, so they are driven through their public users: `lfo::Lfo`, `adsr::Adsr` (phase
//! accumulator, `linear_interp`, `ilog_2`) and `glide_processor::GlideProcessor` (`is_almost`,
//! `fabs`).
//!
//! Every observable output is folded into 64-bit FNV-1a hashes which are printed:
//!
//!   VALUE_HASH  - bit patterns of every returned f32, every `==` result on `Lfo`, and a marker
//!                 for every call that panicked (out-of-range arguments, overflow checks)
//!   DEBUG_HASH  - the `{:?}` rendering of `Lfo` / `Adsr` / `Waveshape`.  This one legitimately
//!                 depends on the names of private fields; to compare across a pure rename set
//!                 `DIFF_TEST_DEBUG_RENAMES="new_name=old_name,other_new=other_old"` and the
//!                 listed identifiers are mapped back before hashing.
//!
//!   IN_RANGE_HASH - the part of VALUE_HASH that uses in-range arguments only (must never panic)
//!   EXHAUSTIVE_HASH - (`--ignored` test) all five waveshapes at every one of the 2^24 phase states
//!
//! Run (copy to `tests/diff_test.rs` first), debug = overflow checks and debug assertions on:
//!   cargo test --offline --test diff_test -- --nocapture
//!   cargo test --offline --release --test diff_test -- --nocapture
//!   cargo test --offline [--release] --test diff_test -- --ignored --nocapture

use std::panic::{catch_unwind, AssertUnwindSafe};
use std::sync::atomic::{AtomicU32, Ordering};
use std::sync::OnceLock;
use synth_utils::adsr::{self, Adsr};
use synth_utils::glide_processor::GlideProcessor;
use synth_utils::lfo::{Lfo, Waveshape};

// ---------------------------------------------------------------------------------------------
// tiny helpers: LCG and FNV-1a
// ---------------------------------------------------------------------------------------------

struct Lcg(u64);

impl Lcg {
    fn next_u32(&mut self) -> u32 {
        self.0 = self
            .0
            .wrapping_mul(6364136223846793005)
            .wrapping_add(1442695040888963407);
        (self.0 >> 32) as u32
    }
    /// uniform in [0, 1)
    fn unit(&mut self) -> f32 {
        (self.next_u32() >> 8) as f32 / 16_777_216.0
    }
    fn below(&mut self, n: u32) -> u32 {
        self.next_u32() % n
    }
    fn pick(&mut self, xs: &[f32]) -> f32 {
        xs[self.below(xs.len() as u32) as usize]
    }
}

struct Fnv(u64);

impl Fnv {
    fn new() -> Self {
        Fnv(0xcbf29ce484222325)
    }
    fn byte(&mut self, b: u8) {
        self.0 ^= b as u64;
        self.0 = self.0.wrapping_mul(0x100000001b3);
    }
    fn u32(&mut self, v: u32) {
        for b in v.to_le_bytes() {
            self.byte(b);
        }
    }
    fn f32(&mut self, v: f32) {
        self.u32(v.to_bits());
    }
    fn str(&mut self, s: &str) {
        for b in s.bytes() {
            self.byte(b);
        }
        self.byte(0xff);
    }
}

static PANICS: AtomicU32 = AtomicU32::new(0);
/// `{:?}` text with the renames from `DIFF_TEST_DEBUG_RENAMES` undone
fn dbg_text<T: std::fmt::Debug>(v: &T) -> String {
    static RENAMES: OnceLock<Vec<(String, String)>> = OnceLock::new();
    let renames = RENAMES.get_or_init(|| {
        std::env::var("DIFF_TEST_DEBUG_RENAMES")
            .unwrap_or_default()
            .split(',')
            .filter_map(|kv| kv.split_once('='))
            .map(|(new, old)| (format!("{}:", new.trim()), format!("{}:", old.trim())))
            .collect()
    });
    let mut text = format!("{:?}", v);
    for (new, old) in renames {
        text = text.replace(new.as_str(), old.as_str());
    }
    text
}

const PANIC_MARK: u32 = 0xdead_beef;
const OK_MARK: u32 = 0x0000_600d;

/// run `f`, hash whether it panicked
fn guarded<F: FnOnce()>(h: &mut Fnv, f: F) -> bool {
    let ok = catch_unwind(AssertUnwindSafe(f)).is_ok();
    if !ok {
        PANICS.fetch_add(1, Ordering::Relaxed);
    }
    h.u32(if ok { OK_MARK } else { PANIC_MARK });
    ok
}

const SHAPES: [Waveshape; 5] = [
    Waveshape::Sine,
    Waveshape::Triangle,
    Waveshape::UpSaw,
    Waveshape::DownSaw,
    Waveshape::Square,
];

const EDGE_F32: [f32; 28] = [
    0.0,
    -0.0,
    1.0,
    -1.0,
    0.5,
    -0.5,
    0.25,
    0.75,
    0.999_999_94,
    1.000_000_1,
    -0.999_999_94,
    1.0e-10,
    -1.0e-10,
    f32::MIN_POSITIVE,
    1.0e-45, // subnormal
    3.0,
    -2.0,
    123_456.79,
    -123_456.79,
    16_777_216.0,
    4_294_967_296.0,
    1.0e30,
    -1.0e30,
    f32::MAX,
    f32::MIN,
    f32::NAN,
    f32::INFINITY,
    f32::NEG_INFINITY,
];

const SAMPLE_RATES: [f32; 8] = [
    100.0, 441.0, 1_000.0, 8_000.0, 44_100.0, 48_000.0, 96_000.0, 192_000.0,
];

fn observe_lfo(h: &mut Fnv, d: &mut Fnv, lfo: &Lfo) {
    for ws in SHAPES {
        let mut out = 0u32;
        if guarded(h, || out = lfo.get(ws).to_bits()) {
            h.u32(out);
        }
    }
    d.str(&dbg_text(lfo));
}

// ---------------------------------------------------------------------------------------------
// LFO
// ---------------------------------------------------------------------------------------------

fn drive_lfo(h: &mut Fnv, d: &mut Fnv, seed: u64, wild: bool) {
    let mut rng = Lcg(seed);
    for &sr in SAMPLE_RATES.iter() {
        let mut lfo = Lfo::new(sr);
        let mut snapshot = lfo;
        observe_lfo(h, d, &lfo);

        for step in 0..6_000u32 {
            match rng.below(16) {
                // plain ticks dominate
                0..=7 => {
                    let n = 1 + rng.below(4);
                    for _ in 0..n {
                        guarded(h, || lfo.tick());
                    }
                }
                8 | 9 => {
                    // in-range frequency [0, sr]
                    let f = match rng.below(6) {
                        0 => 0.0,
                        1 => sr,
                        2 => sr * 0.5,
                        3 => rng.unit() * 20.0,
                        4 => sr / 16_777_216.0 * (rng.below(5) as f32),
                        _ => rng.unit() * sr,
                    };
                    guarded(h, || lfo.set_frequency(f));
                }
                10 => {
                    // edge / out of range frequency
                    let f = if wild {
                        rng.pick(&EDGE_F32)
                    } else {
                        rng.pick(&[0.0, -0.0, 1.0, 0.5, 1.0e-10, 3.0])
                    };
                    guarded(h, || lfo.set_frequency(f));
                }
                11 => {
                    let p = rng.pick(&EDGE_F32);
                    guarded(h, || lfo.set_phase(p));
                }
                12 => {
                    let p = (rng.unit() - 0.5) * 8.0;
                    guarded(h, || lfo.set_phase(p));
                }
                13 => {
                    // exact binary fractions land exactly on table / segment boundaries
                    let p = rng.below(4096) as f32 / 1024.0 - 2.0;
                    guarded(h, || lfo.set_phase(p));
                }
                14 => {
                    guarded(h, || lfo.reset());
                }
                _ => {
                    // PartialEq / Clone / Copy
                    let copy = lfo;
                    #[allow(clippy::clone_on_copy)]
                    let cloned = lfo.clone();
                    h.u32((copy == lfo) as u32);
                    h.u32((cloned == lfo) as u32);
                    h.u32((snapshot == lfo) as u32);
                    h.u32((snapshot != lfo) as u32);
                    if step % 3 == 0 {
                        snapshot = lfo;
                    }
                }
            }
            observe_lfo(h, d, &lfo);
        }
    }
}

/// very slow and exactly-dividing frequencies over full cycles, including the wrap
fn sweep_lfo(h: &mut Fnv, d: &mut Fnv) {
    for &(sr, f, n) in [
        (1_000.0_f32, 1.0_f32, 2_100u32),
        (1_024.0, 1.0, 2_100),
        (100.0, 100.0, 50),
        (100.0, 50.0, 50),
        (100.0, 25.0, 50),
        (192_000.0, 0.011_444_092, 3_000), // increment of exactly one count
        (192_000.0, 0.02, 3_000),
        (48_000.0, 17.3, 9_000),
        (44_100.0, 440.0, 9_000),
        (8_000.0, 3_999.0, 9_000),
    ]
    .iter()
    {
        let mut lfo = Lfo::new(sr);
        lfo.set_frequency(f);
        for start in [0.0_f32, 0.249_9, 0.499_99, 0.749_9, 0.999_9, -0.3, 7.25] {
            lfo.set_phase(start);
            for _ in 0..n {
                observe_lfo(h, d, &lfo);
                guarded(h, || lfo.tick());
            }
        }
    }
    // every table index and the last counts before the wrap
    let mut lfo = Lfo::new(16_384.0);
    lfo.set_frequency(1.0); // 1024 counts per tick -> 16 ticks per table entry
    for _ in 0..40_000 {
        lfo.tick();
        observe_lfo(h, d, &lfo);
    }
}

// ---------------------------------------------------------------------------------------------
// ADSR (shares the phase accumulator, linear_interp and ilog_2)
// ---------------------------------------------------------------------------------------------

fn drive_adsr(h: &mut Fnv, d: &mut Fnv, seed: u64) {
    let mut rng = Lcg(seed);
    for &sr in SAMPLE_RATES.iter() {
        let mut env = Adsr::new(sr);
        for step in 0..8_000u32 {
            match rng.below(32) {
                0 => {
                    guarded(h, || env.gate_on());
                }
                1 => {
                    guarded(h, || env.gate_off());
                }
                2 => {
                    let v = if rng.below(2) == 0 {
                        rng.pick(&EDGE_F32)
                    } else {
                        rng.unit() * 0.05
                    };
                    let input = match rng.below(4) {
                        0 => adsr::Input::Attack(v.into()),
                        1 => adsr::Input::Decay(v.into()),
                        2 => adsr::Input::Sustain(if rng.below(2) == 0 {
                            v.into()
                        } else {
                            rng.unit().into()
                        }),
                        _ => adsr::Input::Release(v.into()),
                    };
                    guarded(h, || env.set_input(input));
                }
                _ => {
                    guarded(h, || env.tick());
                }
            }
            h.f32(env.value());
            if step % 16 == 0 {
                d.str(&dbg_text(&env));
            }
        }
    }
    // conversions
    for &v in EDGE_F32.iter() {
        let t: adsr::TimePeriod = v.into();
        let s: adsr::SustainLevel = v.into();
        h.f32(t.into());
        h.f32(s.into());
    }
}

// ---------------------------------------------------------------------------------------------
// Glide (uses is_almost / fabs)
// ---------------------------------------------------------------------------------------------

fn drive_glide(h: &mut Fnv, seed: u64) {
    let mut rng = Lcg(seed);
    for &sr in SAMPLE_RATES.iter() {
        let mut g = GlideProcessor::new(sr);
        let mut target = 0.0_f32;
        for _ in 0..4_000u32 {
            match rng.below(16) {
                0 => {
                    let t = match rng.below(4) {
                        0 => rng.pick(&EDGE_F32),
                        1 => rng.unit() * 10.0,
                        // values right around the 0.05 "is_almost" window of the previous setting
                        2 => rng.unit() * 0.2,
                        _ => rng.unit(),
                    };
                    guarded(h, || g.set_time(t));
                }
                1 => target = rng.unit() * 10.0 - 5.0,
                _ => {}
            }
            let mut out = 0u32;
            if guarded(h, || out = g.process(target).to_bits()) {
                h.u32(out);
            }
        }
    }
}

#[test]
fn differential_hash() {
    // keep the expected panics (overflow checks on out-of-range arguments) quiet
    std::panic::set_hook(Box::new(|_| {}));

    let mut h = Fnv::new();
    let mut d = Fnv::new();

    // in-range arguments only (plus arbitrary phases): nothing may panic here
    let mut in_range = Fnv::new();
    for seed in [1u64, 0x5eed_0002, 0xdead_beef_cafe] {
        drive_lfo(&mut in_range, &mut d, seed, false);
    }
    sweep_lfo(&mut in_range, &mut d);
    let in_range_panics = PANICS.load(Ordering::Relaxed);
    h.u32((in_range.0 >> 32) as u32);
    h.u32(in_range.0 as u32);

    // wild arguments: NaN, infinities, negative and huge frequencies
    for seed in [7u64, 0x1234_5678_9abc_def0] {
        drive_lfo(&mut h, &mut d, seed, true);
    }
    for seed in [11u64, 0x0bad_c0de] {
        drive_adsr(&mut h, &mut d, seed);
    }
    for seed in [13u64, 0xfeed_f00d] {
        drive_glide(&mut h, seed);
    }
    for ws in SHAPES {
        d.str(&dbg_text(&ws));
        h.u32((ws == Waveshape::Sine) as u32);
        #[allow(clippy::clone_on_copy)]
        let c = ws.clone();
        h.u32((c == ws) as u32);
    }

    let _ = std::panic::take_hook();

    println!(
        "PANICS        = {} in range, {} total",
        in_range_panics,
        PANICS.load(Ordering::Relaxed)
    );
    assert_eq!(in_range_panics, 0, "an in-range LFO call panicked");
    println!("IN_RANGE_HASH = {:016x}", in_range.0);
    println!("VALUE_HASH    = {:016x}", h.0);
    println!("DEBUG_HASH    = {:016x}", d.0);
}

/// Visits every one of the 2^24 accumulator states of the LFO exactly once (increment of one count per
/// tick) and hashes all five waveshapes at each.  Slow in debug builds, hence ignored by default:
///   cargo test --offline --release --test diff_test -- --ignored --nocapture
#[test]
#[ignore]
fn exhaustive_phase_sweep() {
    let mut h = Fnv::new();
    let mut lfo = Lfo::new(16_777_216.0);
    lfo.set_frequency(1.0);
    for _ in 0..(1u32 << 24) + 3 {
        for ws in SHAPES {
            h.f32(lfo.get(ws));
        }
        lfo.tick();
    }
    h.u32((lfo == Lfo::new(16_777_216.0)) as u32);
    println!("EXHAUSTIVE_HASH = {:016x}", h.0);
}
