//! Differential test for the ADSR module (src/adsr.rs, src/phase_accumulator.rs).
//!
//! Copy to `tests/diff_test.rs` of the crate and run
//! `cargo test --offline --test diff_test -- --nocapture` (and again with `--release`).
//! It drives the public API of `synth_utils::adsr` (and of `synth_utils::lfo`, the other
//! client of the shared private phase accumulator) with long pseudo-random call sequences
//! and prints 64-bit FNV-1a hashes of the bit patterns of every observable output.
//! Two builds of the crate behave identically on these sequences iff all printed lines match.
//!
//! Only the public API is used; `Debug` output is deliberately not hashed (private field
//! names are not part of the behaviour).

use std::panic::{catch_unwind, AssertUnwindSafe};
use synth_utils::adsr::{self, Adsr, Input, SustainLevel, TimePeriod};
use synth_utils::lfo::{Lfo, Waveshape};

// ---------------------------------------------------------------------------------------
// helpers
// ---------------------------------------------------------------------------------------

struct Fnv(u64);

impl Fnv {
    fn new() -> Self {
        Fnv(0xcbf2_9ce4_8422_2325)
    }
    fn byte(&mut self, b: u8) {
        self.0 ^= b as u64;
        self.0 = self.0.wrapping_mul(0x0000_0100_0000_01b3);
    }
    fn u32(&mut self, v: u32) {
        for b in v.to_le_bytes() {
            self.byte(b);
        }
    }
    fn u64(&mut self, v: u64) {
        for b in v.to_le_bytes() {
            self.byte(b);
        }
    }
    fn f32(&mut self, v: f32) {
        self.u32(v.to_bits());
    }
    fn bool(&mut self, v: bool) {
        self.byte(v as u8);
    }
}

struct Lcg(u64);

impl Lcg {
    fn next(&mut self) -> u32 {
        self.0 = self
            .0
            .wrapping_mul(6364136223846793005)
            .wrapping_add(1442695040888963407);
        (self.0 >> 32) as u32
    }
    /// uniform in [0, n)
    fn below(&mut self, n: u32) -> u32 {
        ((self.next() as u64 * n as u64) >> 32) as u32
    }
    /// uniform in [0, 1)
    fn unit(&mut self) -> f32 {
        (self.next() >> 8) as f32 / 16_777_216.0_f32
    }
}

const EDGE_F32: [f32; 30] = [
    0.0,
    -0.0,
    1.0,
    -1.0,
    0.5,
    0.001,
    0.000_999_9,
    0.001_000_1,
    20.0,
    19.999_998,
    20.000_002,
    1.0e-9,
    1.0e-30,
    1.0e9,
    1.0e30,
    -1.0e30,
    f32::MAX,
    f32::MIN,
    f32::MIN_POSITIVE,
    -f32::MIN_POSITIVE,
    1.0e-45, // subnormal
    f32::EPSILON,
    0.999_999_94,
    1.000_000_1,
    f32::NAN,
    -f32::NAN,
    f32::INFINITY,
    f32::NEG_INFINITY,
    0.75,
    3.0,
];

/// A pseudo-random f32 for use as a time or level: a mixture of edge values, raw bit patterns,
/// log-uniform short times and uniform values around the legal ranges.
fn random_param(rng: &mut Lcg) -> f32 {
    match rng.below(16) {
        0 | 1 => EDGE_F32[rng.below(EDGE_F32.len() as u32) as usize],
        2 => f32::from_bits(rng.next()), // anything at all, incl. NaN payloads, subnormals
        3 => rng.unit() * 25.0 - 2.0,
        4 | 5 | 6 => rng.unit() * 1.2 - 0.1,
        7 => rng.unit() * 0.002,
        _ => {
            // log-uniform in [0.0005, ~0.26] s: short enough that phases complete
            let e = rng.unit() * 9.0;
            0.0005 * (2.0_f32).powf(e)
        }
    }
}

fn random_input(rng: &mut Lcg) -> Input {
    let v = random_param(rng);
    match rng.below(4) {
        0 => Input::Attack(v.into()),
        1 => Input::Decay(v.into()),
        2 => Input::Sustain(v.into()),
        _ => Input::Release(v.into()),
    }
}

fn hash_input(h: &mut Fnv, i: Input) {
    match i {
        Input::Attack(t) => {
            h.byte(0);
            h.f32(t.into())
        }
        Input::Decay(t) => {
            h.byte(1);
            h.f32(t.into())
        }
        Input::Sustain(s) => {
            h.byte(2);
            h.f32(s.into())
        }
        Input::Release(t) => {
            h.byte(3);
            h.f32(t.into())
        }
    }
}

// ---------------------------------------------------------------------------------------
// scenarios
// ---------------------------------------------------------------------------------------

/// parameter conversions: every edge value, a dense sweep and raw random bit patterns
fn scenario_conversions() -> u64 {
    let mut h = Fnv::new();
    let mut rng = Lcg(0x1234_5678_9abc_def0);

    h.f32(adsr::MIN_TIME_PERIOD_SEC);
    h.f32(adsr::MAX_TIME_PERIOD_SEC);

    let check = |h: &mut Fnv, v: f32| {
        let t: TimePeriod = v.into();
        let s: SustainLevel = v.into();
        h.f32(f32::from(t));
        h.f32(f32::from(s));
        // PartialEq of the newtypes and of Input
        h.bool(t == TimePeriod::from(v));
        h.bool(s == SustainLevel::from(v));
        h.bool(t == TimePeriod::from(adsr::MIN_TIME_PERIOD_SEC));
        h.bool(t == TimePeriod::from(adsr::MAX_TIME_PERIOD_SEC));
        h.bool(s == SustainLevel::from(0.0));
        h.bool(s == SustainLevel::from(1.0));
        h.bool(Input::Attack(t) == Input::Attack(v.into()));
        h.bool(Input::Attack(t) == Input::Decay(t));
        h.bool(Input::Sustain(s) == Input::Sustain(0.5.into()));
        // Copy / Clone
        let t2 = t;
        #[allow(clippy::clone_on_copy)]
        let s2 = s.clone();
        h.f32(t2.into());
        h.f32(s2.into());
    };

    for v in EDGE_F32 {
        check(&mut h, v);
    }
    for i in -2_000..30_000 {
        check(&mut h, i as f32 * 0.001);
        check(&mut h, i as f32 * 0.000_05);
    }
    for _ in 0..200_000 {
        let v = f32::from_bits(rng.next());
        check(&mut h, v);
    }
    h.0
}

/// one long random walk over the whole ADSR API at one sample rate
fn scenario_adsr_random(sample_rate: f32, seed: u64, steps: u32) -> u64 {
    let mut h = Fnv::new();
    let mut rng = Lcg(seed);
    let mut env = Adsr::new(sample_rate);
    // a copy taken now and then and run in lock-step for a while: Copy/Clone must carry the full state
    let mut shadow: Option<(Adsr, u32)> = None;

    h.f32(env.value());

    for _ in 0..steps {
        let op = rng.below(100);
        match op {
            0..=2 => {
                env.gate_on();
                if let Some((s, _)) = shadow.as_mut() {
                    s.gate_on()
                }
            }
            3..=5 => {
                env.gate_off();
                if let Some((s, _)) = shadow.as_mut() {
                    s.gate_off()
                }
            }
            6..=9 => {
                let i = random_input(&mut rng);
                hash_input(&mut h, i);
                env.set_input(i);
                if let Some((s, _)) = shadow.as_mut() {
                    s.set_input(i)
                }
            }
            10 => {
                // quick double event at the same instant
                env.gate_off();
                env.gate_on();
                if let Some((s, _)) = shadow.as_mut() {
                    s.gate_off();
                    s.gate_on();
                }
            }
            11 => {
                if shadow.is_none() {
                    #[allow(clippy::clone_on_copy)]
                    let c = if rng.below(2) == 0 { env } else { env.clone() };
                    shadow = Some((c, 50 + rng.below(500)));
                }
            }
            12 => {
                // a burst of ticks
                let n = 1 + rng.below(400);
                for _ in 0..n {
                    env.tick();
                    h.f32(env.value());
                    if let Some((s, _)) = shadow.as_mut() {
                        s.tick();
                        h.f32(s.value());
                    }
                }
            }
            _ => {
                env.tick();
                if let Some((s, _)) = shadow.as_mut() {
                    s.tick()
                }
            }
        }
        h.f32(env.value());
        if let Some((s, left)) = shadow.as_mut() {
            h.f32(s.value());
            *left -= 1;
            if *left == 0 {
                shadow = None;
            }
        }
    }
    h.0
}

/// complete envelopes with fixed settings: every sample of A, D, S, R and rest is hashed
fn scenario_adsr_full_cycles(sample_rate: f32, seed: u64) -> u64 {
    let mut h = Fnv::new();
    let mut rng = Lcg(seed);
    let mut env = Adsr::new(sample_rate);

    for round in 0..40u32 {
        let a = 0.0005 + rng.unit() * 0.05;
        let d = 0.0005 + rng.unit() * 0.05;
        let s = if round % 7 == 0 {
            EDGE_F32[rng.below(EDGE_F32.len() as u32) as usize]
        } else {
            rng.unit() * 1.1 - 0.05
        };
        let r = 0.0005 + rng.unit() * 0.05;
        env.set_input(Input::Attack(a.into()));
        env.set_input(Input::Decay(d.into()));
        env.set_input(Input::Sustain(s.into()));
        env.set_input(Input::Release(r.into()));

        let total = ((a + d + r) * sample_rate) as u32 + 64;
        let gate_len = match round % 4 {
            0 => total,                 // gate off long after sustain was reached
            1 => rng.below(total + 1),  // anywhere
            2 => ((a * sample_rate) as u32).saturating_sub(rng.below(3)), // near the A->D boundary
            _ => (((a + d) * sample_rate) as u32 + rng.below(5)).saturating_sub(2), // near D->S
        };
        env.gate_on();
        h.f32(env.value());
        for n in 0..(gate_len + total) {
            if n == gate_len {
                env.gate_off();
                h.f32(env.value());
            }
            // mid-phase parameter changes
            if round % 5 == 3 && n % 97 == 13 {
                let i = random_input(&mut rng);
                env.set_input(i);
            }
            env.tick();
            h.f32(env.value());
        }
    }
    h.0
}

/// very slow phases: many ticks per LUT step (interpolation path), including the 20 s maximum
fn scenario_adsr_slow(sample_rate: f32) -> u64 {
    let mut h = Fnv::new();
    let mut env = Adsr::new(sample_rate);
    env.set_input(Input::Attack(20.0.into()));
    env.set_input(Input::Decay(1.0e9.into()));
    env.set_input(Input::Sustain(0.3.into()));
    env.set_input(Input::Release(7.5.into()));
    env.gate_on();
    for n in 0..400_000u32 {
        env.tick();
        h.f32(env.value());
        if n == 150_000 {
            env.gate_off();
        }
        if n == 250_000 {
            env.gate_on();
        }
        if n == 300_000 {
            env.set_input(Input::Attack(0.5.into()));
        }
    }
    h.0
}

/// sample rates outside the documented range: the outcome (values or a panic at step n) must be the same
fn scenario_adsr_odd_sample_rates() -> u64 {
    let mut h = Fnv::new();
    for sr in [
        0.0_f32,
        -0.0,
        -1.0,
        -48_000.0,
        1.0e-30,
        1.0e-3,
        1.0,
        99.0,
        1.0e9,
        1.0e30,
        f32::MAX,
        f32::MIN_POSITIVE,
        f32::NAN,
        f32::INFINITY,
        f32::NEG_INFINITY,
    ] {
        let r = catch_unwind(AssertUnwindSafe(|| {
            let mut hh = Fnv::new();
            let mut rng = Lcg(sr.to_bits() as u64 ^ 0xdead_beef);
            let mut env = Adsr::new(sr);
            for _ in 0..3_000 {
                match rng.below(20) {
                    0 => env.gate_on(),
                    1 => env.gate_off(),
                    2 => env.set_input(random_input(&mut rng)),
                    _ => env.tick(),
                }
                hh.f32(env.value());
            }
            hh.0
        }));
        match r {
            Ok(v) => {
                h.byte(1);
                h.u64(v)
            }
            Err(_) => h.byte(0),
        }
    }
    h.0
}

const SHAPES: [Waveshape; 5] = [
    Waveshape::Sine,
    Waveshape::Triangle,
    Waveshape::UpSaw,
    Waveshape::DownSaw,
    Waveshape::Square,
];

fn hash_lfo(h: &mut Fnv, l: &Lfo) {
    for s in SHAPES {
        h.f32(l.get(s));
    }
}

/// the LFO is the other user of the private phase accumulator
fn scenario_lfo_random(sample_rate: f32, seed: u64, steps: u32) -> u64 {
    let mut h = Fnv::new();
    let mut rng = Lcg(seed);
    let mut lfo = Lfo::new(sample_rate);
    let mut other = lfo;
    hash_lfo(&mut h, &lfo);
    for _ in 0..steps {
        match rng.below(64) {
            0 => {
                // in-range frequencies (keeps the accumulator add from overflowing)
                let f = match rng.below(6) {
                    0 => 0.0,
                    1 => sample_rate,
                    2 => rng.unit() * sample_rate,
                    3 => rng.unit() * 0.01,
                    _ => rng.unit() * 30.0,
                };
                lfo.set_frequency(f);
            }
            1 => {
                let p = match rng.below(6) {
                    0 => EDGE_F32[rng.below(EDGE_F32.len() as u32) as usize],
                    1 => f32::from_bits(rng.next()),
                    2 => rng.unit() * 2000.0 - 1000.0,
                    _ => rng.unit() * 4.0 - 2.0,
                };
                lfo.set_phase(p);
            }
            2 => lfo.reset(),
            3 => other = lfo,
            4 => {
                // negative / NaN frequencies saturate to a zero increment
                let f = match rng.below(4) {
                    0 => -1.0,
                    1 => f32::NAN,
                    2 => f32::NEG_INFINITY,
                    _ => -rng.unit() * 100.0,
                };
                lfo.set_frequency(f);
            }
            _ => lfo.tick(),
        }
        hash_lfo(&mut h, &lfo);
        // derived PartialEq on Lfo looks at every field of the phase accumulator
        h.bool(lfo == other);
        if rng.below(7) == 0 {
            other.tick();
            h.bool(lfo == other);
        }
    }
    h.0
}

/// out-of-range LFO frequencies: overflow of the accumulator add is a panic in debug builds and wraps in release
fn scenario_lfo_overflow() -> u64 {
    let mut h = Fnv::new();
    for sr in [100.0_f32, 48_000.0, 0.0, f32::NAN, -1.0] {
        for f in [
            1.0e9_f32,
            1.0e30,
            f32::INFINITY,
            f32::MAX,
            3.0e4,
            25_600.0,
            25_599.0,
            12_800.0,
            1.0,
        ] {
            let r = catch_unwind(AssertUnwindSafe(|| {
                let mut hh = Fnv::new();
                let mut lfo = Lfo::new(sr);
                lfo.set_frequency(f);
                for n in 0..200 {
                    lfo.tick();
                    hash_lfo(&mut hh, &lfo);
                    if n == 100 {
                        lfo.set_phase(0.999_999_9);
                    }
                }
                hh.0
            }));
            match r {
                Ok(v) => {
                    h.byte(1);
                    h.u64(v)
                }
                Err(_) => h.byte(0),
            }
        }
    }
    h.0
}

#[test]
fn differential_hashes() {
    // keep the expected panics of the out-of-range scenarios quiet
    std::panic::set_hook(Box::new(|_| {}));

    let mut total = Fnv::new();
    let mut report = |name: &str, v: u64| {
        println!("DIFF {:<34} {:016x}", name, v);
        total.u64(v);
    };

    report("conversions", scenario_conversions());

    let rates = [100.0_f32, 1_000.0, 8_000.0, 12_345.678, 44_100.0, 48_000.0, 96_000.0, 192_000.0];
    for (k, sr) in rates.iter().enumerate() {
        for seed in 0..3u64 {
            let s = 0x9e37_79b9_7f4a_7c15u64.wrapping_mul(seed + 1) ^ (k as u64) << 17;
            report(
                &format!("adsr_random sr={} seed={}", sr, seed),
                scenario_adsr_random(*sr, s, 150_000),
            );
        }
        report(
            &format!("adsr_full_cycles sr={}", sr),
            scenario_adsr_full_cycles(*sr, 77 + k as u64),
        );
        report(
            &format!("lfo_random sr={}", sr),
            scenario_lfo_random(*sr, 1000 + k as u64, 120_000),
        );
    }
    report("adsr_slow sr=1000", scenario_adsr_slow(1_000.0));
    report("adsr_slow sr=192000", scenario_adsr_slow(192_000.0));
    report("adsr_odd_sample_rates", scenario_adsr_odd_sample_rates());
    report("lfo_overflow", scenario_lfo_overflow());

    let _ = std::panic::take_hook();
    println!("DIFF TOTAL {:016x}", total.0);
}
