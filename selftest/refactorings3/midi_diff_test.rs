//! Differential test for `synth_utils::mono_midi_receiver` (public API only).
//!
//! Copy to `tests/diff_test.rs` and run
//! `cargo test --offline --test diff_test -- --nocapture`.
//!
//! Every scenario drives a receiver with a long deterministic pseudo-random byte / call sequence
//! and folds the bit pattern of every observable output after every byte into a 64-bit FNV-1a hash.
//! The printed hashes must be identical for the clean crate and for every refactoring.

use synth_utils::mono_midi_receiver::{MonoMidiReceiver, NotePriority, RetriggerMode};

struct Lcg(u64);

impl Lcg {
    fn next(&mut self) -> u32 {
        self.0 = self
            .0
            .wrapping_mul(6364136223846793005)
            .wrapping_add(1442695040888963407);
        (self.0 >> 33) as u32
    }
    fn below(&mut self, n: u32) -> u32 {
        self.next() % n
    }
    fn byte(&mut self) -> u8 {
        (self.next() >> 7) as u8
    }
}

struct Hash(u64);

impl Hash {
    fn new() -> Self {
        Hash(0xcbf29ce484222325)
    }
    fn u8(&mut self, b: u8) {
        self.0 ^= b as u64;
        self.0 = self.0.wrapping_mul(0x100000001b3);
    }
    fn u32(&mut self, v: u32) {
        for b in v.to_le_bytes() {
            self.u8(b);
        }
    }
    fn f32(&mut self, v: f32) {
        self.u32(v.to_bits());
    }
    fn bool(&mut self, v: bool) {
        self.u8(v as u8);
    }
}

/// hash everything that can be observed without side effects
fn observe(mr: &MonoMidiReceiver, h: &mut Hash) {
    h.u8(mr.note_num());
    h.f32(mr.pitch_bend());
    h.f32(mr.velocity());
    h.f32(mr.mod_wheel());
    h.f32(mr.volume());
    h.f32(mr.vcf_cutoff());
    h.f32(mr.vcf_resonance());
    h.f32(mr.portamento_time());
    h.bool(mr.portamento_enabled());
    h.bool(mr.sustain_enabled());
    h.bool(mr.gate());
}

/// how the self-clearing edge flags are polled
#[derive(Clone, Copy)]
enum Poll {
    Never,
    Always,
    Random,
}

fn poll_edges(mr: &mut MonoMidiReceiver, h: &mut Hash, rng: &mut Lcg, poll: Poll) {
    let (r, f) = match poll {
        Poll::Never => (false, false),
        Poll::Always => (true, true),
        Poll::Random => (rng.below(3) == 0, rng.below(3) == 0),
    };
    // order of the two reads is also randomised
    if rng.below(2) == 0 {
        if r {
            h.u8(0xA0);
            h.bool(mr.rising_gate());
        }
        if f {
            h.u8(0xA1);
            h.bool(mr.falling_gate());
        }
    } else {
        if f {
            h.u8(0xA1);
            h.bool(mr.falling_gate());
        }
        if r {
            h.u8(0xA0);
            h.bool(mr.rising_gate());
        }
    }
    if r && rng.below(4) == 0 {
        // read twice in a row: the second read must see the cleared flag
        h.bool(mr.rising_gate());
        h.bool(mr.falling_gate());
    }
}

fn feed(mr: &mut MonoMidiReceiver, h: &mut Hash, rng: &mut Lcg, poll: Poll, byte: u8) {
    mr.parse(byte);
    observe(mr, h);
    poll_edges(mr, h, rng, poll);
}

fn random_mode_change(mr: &mut MonoMidiReceiver, rng: &mut Lcg) {
    match rng.below(5) {
        0 => mr.set_retrigger_mode(RetriggerMode::AllowRetrigger),
        1 => mr.set_retrigger_mode(RetriggerMode::NoRetrigger),
        2 => mr.set_note_priority(NotePriority::Last),
        3 => mr.set_note_priority(NotePriority::High),
        _ => mr.set_note_priority(NotePriority::Low),
    }
}

const REALTIME: [u8; 8] = [0xF8, 0xF9, 0xFA, 0xFB, 0xFC, 0xFD, 0xFE, 0xFF];
const INTERESTING_CC: [u8; 16] = [
    0x01, 0x07, 0x47, 0x4A, 0x40, 0x41, 0x05, 0x79, 0x7B, 0x00, 0x02, 0x06, 0x7A, 0x7C, 0x7F, 0x78,
];
const EDGE_VALUES: [u8; 10] = [0, 1, 2, 62, 63, 64, 65, 100, 126, 127];

fn data7(rng: &mut Lcg) -> u8 {
    if rng.below(2) == 0 {
        EDGE_VALUES[rng.below(EDGE_VALUES.len() as u32) as usize]
    } else {
        (rng.next() & 0x7F) as u8
    }
}

/// a structured MIDI message, mostly well formed, written into `buf`, returns its length
fn structured_message(rng: &mut Lcg, listen: u8, note_pool: u8, buf: &mut [u8; 8]) -> usize {
    // mostly the listened channel, sometimes another one
    let ch = if rng.below(4) == 0 {
        (rng.next() & 0x0F) as u8
    } else {
        listen.min(15)
    };
    let note = if rng.below(16) == 0 {
        data7(rng)
    } else {
        (30 + rng.below(note_pool as u32)) as u8
    };
    let mut n = 0;
    let mut push = |b: u8| {
        buf[n] = b;
        n += 1;
    };
    // sometimes omit the status byte (running status)
    let with_status = rng.below(3) != 0;
    match rng.below(16) {
        0..=5 => {
            if with_status {
                push(0x90 | ch);
            }
            push(note);
            push(if rng.below(5) == 0 { 0 } else { data7(rng) });
        }
        6..=8 => {
            if with_status {
                push(0x80 | ch);
            }
            push(note);
            push(data7(rng));
        }
        9..=11 => {
            if with_status {
                push(0xB0 | ch);
            }
            let cc = if rng.below(4) != 0 {
                INTERESTING_CC[rng.below(INTERESTING_CC.len() as u32) as usize]
            } else {
                data7(rng)
            };
            push(cc);
            push(data7(rng));
        }
        12 | 13 => {
            if with_status {
                push(0xE0 | ch);
            }
            // LSB first; include the extremes and the centre
            match rng.below(6) {
                0 => {
                    push(0);
                    push(0);
                }
                1 => {
                    push(0);
                    push(64);
                }
                2 => {
                    push(127);
                    push(127);
                }
                3 => {
                    push(1);
                    push(64);
                }
                _ => {
                    push(data7(rng));
                    push(data7(rng));
                }
            }
        }
        14 => {
            // other channel-voice messages: program change, channel pressure, poly pressure
            match rng.below(3) {
                0 => {
                    push(0xC0 | ch);
                    push(data7(rng));
                }
                1 => {
                    push(0xD0 | ch);
                    push(data7(rng));
                }
                _ => {
                    push(0xA0 | ch);
                    push(data7(rng));
                    push(data7(rng));
                }
            }
        }
        _ => {
            // system common / sysex
            match rng.below(6) {
                0 => {
                    push(0xF0);
                    push(data7(rng));
                    push(data7(rng));
                    push(data7(rng));
                    push(0xF7);
                }
                1 => {
                    push(0xF1);
                    push(data7(rng));
                }
                2 => {
                    push(0xF2);
                    push(data7(rng));
                    push(data7(rng));
                }
                3 => {
                    push(0xF3);
                    push(data7(rng));
                }
                4 => push(0xF6),
                _ => push(0xF7),
            }
        }
    }
    n
}

/// scenario A: completely random bytes
fn scenario_random_bytes(seed: u64, channel: u8, poll: Poll, len: usize) -> u64 {
    let mut rng = Lcg(seed);
    let mut h = Hash::new();
    let mut mr = MonoMidiReceiver::new(channel);
    observe(&mr, &mut h);
    for _ in 0..len {
        if rng.below(97) == 0 {
            random_mode_change(&mut mr, &mut rng);
        }
        let b = rng.byte();
        feed(&mut mr, &mut h, &mut rng, poll, b);
    }
    h.0
}

/// scenario B: bytes biased to status bytes of the listened channel and small data values
fn scenario_biased_bytes(seed: u64, channel: u8, poll: Poll, len: usize) -> u64 {
    let mut rng = Lcg(seed);
    let mut h = Hash::new();
    let mut mr = MonoMidiReceiver::new(channel);
    observe(&mr, &mut h);
    let ch = channel.min(15);
    for _ in 0..len {
        if rng.below(53) == 0 {
            random_mode_change(&mut mr, &mut rng);
        }
        let b = match rng.below(12) {
            0 => 0x90 | ch,
            1 => 0x80 | ch,
            2 => 0xB0 | ch,
            3 => 0xE0 | ch,
            4 => REALTIME[rng.below(8) as usize],
            5 => INTERESTING_CC[rng.below(INTERESTING_CC.len() as u32) as usize],
            6 => rng.byte(),
            7 => 0,
            _ => data7(&mut rng),
        };
        feed(&mut mr, &mut h, &mut rng, poll, b);
    }
    h.0
}

/// scenario C: structured messages with real-time bytes inserted anywhere
fn scenario_structured(seed: u64, channel: u8, poll: Poll, note_pool: u8, msgs: usize) -> u64 {
    let mut rng = Lcg(seed);
    let mut h = Hash::new();
    let mut mr = MonoMidiReceiver::new(channel);
    observe(&mr, &mut h);
    let mut buf = [0u8; 8];
    for _ in 0..msgs {
        if rng.below(23) == 0 {
            random_mode_change(&mut mr, &mut rng);
        }
        let n = structured_message(&mut rng, channel, note_pool, &mut buf);
        for &b in &buf[..n] {
            if rng.below(9) == 0 {
                let rt = REALTIME[rng.below(8) as usize];
                feed(&mut mr, &mut h, &mut rng, poll, rt);
            }
            feed(&mut mr, &mut h, &mut rng, poll, b);
        }
    }
    h.0
}

/// scenario D: more than 32 notes held at once, released in various orders, for every mode pair
fn scenario_overflow(seed: u64) -> u64 {
    let mut rng = Lcg(seed);
    let mut h = Hash::new();
    for retrig in 0..2 {
        for prio in 0..3 {
            let mut mr = MonoMidiReceiver::new(3);
            mr.set_retrigger_mode(if retrig == 0 {
                RetriggerMode::NoRetrigger
            } else {
                RetriggerMode::AllowRetrigger
            });
            mr.set_note_priority(match prio {
                0 => NotePriority::Last,
                1 => NotePriority::High,
                _ => NotePriority::Low,
            });
            // a stray note-off and all-notes-off with nothing held
            for b in [0x83, 60, 0, 0xB3, 0x7B, 0] {
                feed(&mut mr, &mut h, &mut rng, Poll::Random, b);
            }
            // press 50 notes (with duplicates) using running status
            feed(&mut mr, &mut h, &mut rng, Poll::Random, 0x93);
            for i in 0..50u32 {
                let note = ((i * 37 + rng.below(3)) % 128) as u8;
                feed(&mut mr, &mut h, &mut rng, Poll::Random, note);
                feed(&mut mr, &mut h, &mut rng, Poll::Random, 1 + (i as u8 * 5) % 127);
            }
            // release by zero-velocity note-ons in pseudo-random order
            for _ in 0..200 {
                let note = (rng.next() & 0x7F) as u8;
                feed(&mut mr, &mut h, &mut rng, Poll::Random, note);
                feed(&mut mr, &mut h, &mut rng, Poll::Random, 0);
            }
            // press again then all-notes-off, then reset all controllers
            for b in [0x93, 10, 100, 90, 1, 50, 127, 50, 3, 0xB3, 0x7B, 0, 0x7B, 0] {
                feed(&mut mr, &mut h, &mut rng, Poll::Always, b);
            }
            for b in [0xB3, 1, 99, 7, 3, 0x47, 64, 0x4A, 63, 5, 127, 0x41, 0, 0x40, 63] {
                feed(&mut mr, &mut h, &mut rng, Poll::Never, b);
            }
            for b in [0xE3, 0, 0, 0x7F, 0x7F, 0, 64, 0xB3, 0x79, 0, 0x79, 127] {
                feed(&mut mr, &mut h, &mut rng, Poll::Never, b);
            }
        }
    }
    h.0
}

/// scenario E: exhaustive controller values and pitch-bend sweep on every channel setting
fn scenario_exhaustive_controllers() -> u64 {
    let mut rng = Lcg(7);
    let mut h = Hash::new();
    for channel in [0u8, 1, 9, 15, 16, 200, 255] {
        let ch = channel.min(15);
        let mut mr = MonoMidiReceiver::new(channel);
        for cc in 0..128u8 {
            for val in 0..128u8 {
                if (cc == 0x7B || cc == 0x79) && val % 16 != 0 {
                    continue;
                }
                for b in [0xB0 | ch, cc, val] {
                    feed(&mut mr, &mut h, &mut rng, Poll::Never, b);
                }
            }
        }
        feed(&mut mr, &mut h, &mut rng, Poll::Never, 0xE0 | ch);
        for v in (0..16384u32).step_by(7).chain([8191, 8192, 8193, 16383]) {
            feed(&mut mr, &mut h, &mut rng, Poll::Never, (v & 0x7F) as u8);
            feed(&mut mr, &mut h, &mut rng, Poll::Never, (v >> 7) as u8);
        }
        // all velocities
        feed(&mut mr, &mut h, &mut rng, Poll::Always, 0x90 | ch);
        for vel in 0..128u8 {
            feed(&mut mr, &mut h, &mut rng, Poll::Always, 64);
            feed(&mut mr, &mut h, &mut rng, Poll::Always, vel);
        }
    }
    h.0
}

#[test]
fn differential_hashes() {
    let mut total = Hash::new();
    let mut report = |name: &str, v: u64| {
        println!("{name:<40} {v:016x}");
        for b in v.to_le_bytes() {
            total.u8(b);
        }
    };

    let channels = [0u8, 1, 5, 15, 16, 200, 255];
    let polls = [Poll::Never, Poll::Always, Poll::Random];

    let mut seed = 0x1234_5678_9abc_def0u64;
    for (i, &ch) in channels.iter().enumerate() {
        for (j, &p) in polls.iter().enumerate() {
            seed = seed.wrapping_mul(0x9E37_79B9_7F4A_7C15).wrapping_add(i as u64 * 3 + j as u64);
            report(
                &format!("random_bytes ch={ch} poll={j}"),
                scenario_random_bytes(seed, ch, p, 60_000),
            );
            report(
                &format!("biased_bytes ch={ch} poll={j}"),
                scenario_biased_bytes(seed ^ 0x55, ch, p, 60_000),
            );
            for pool in [3u8, 12, 40, 90] {
                report(
                    &format!("structured ch={ch} poll={j} pool={pool}"),
                    scenario_structured(seed ^ pool as u64, ch, p, pool, 20_000),
                );
            }
        }
    }
    for s in [1u64, 2, 3, 0xdead_beef, u64::MAX] {
        report(&format!("overflow seed={s:x}"), scenario_overflow(s));
    }
    report("exhaustive_controllers", scenario_exhaustive_controllers());

    println!("TOTAL_HASH {:016x}", total.0);
}
