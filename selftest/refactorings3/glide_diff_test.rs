//! Differential test for the glide processor (src/glide_processor.rs) and the crate-private helpers in
//! src/utils.rs (reached through the ADSR and the LFO, which use `linear_interp` and `ilog_2`).
//!
//! Copy to `tests/diff_test.rs` and run `cargo test --offline --test diff_test -- --nocapture`.
//! Every observable output is folded, bit pattern by bit pattern, into 64-bit FNV-1a hashes which are printed
//! per section and in total; the printed lines must be identical for the clean crate and for every change.

use std::panic::catch_unwind;
use synth_utils::adsr::{Adsr, Input};
use synth_utils::glide_processor::GlideProcessor;
use synth_utils::lfo::{Lfo, Waveshape};

struct Fnv(u64);

impl Fnv {
    fn new() -> Self {
        Fnv(0xcbf2_9ce4_8422_2325)
    }
    fn byte(&mut self, b: u8) {
        self.0 ^= b as u64;
        self.0 = self.0.wrapping_mul(0x0000_0100_0000_01b3);
    }
    fn u32(&mut self, v: u32) {
        for b in v.to_le_bytes() {
            self.byte(b);
        }
    }
    /// exact bit pattern, except that every NaN counts as the same value (Rust leaves the sign and payload of a NaN
    /// produced by arithmetic unspecified; they differ between opt-levels even for the unmodified crate)
    fn f32(&mut self, v: f32) {
        self.u32(if v.is_nan() { 0x7fc0_0000 } else { v.to_bits() });
    }
    fn u64(&mut self, v: u64) {
        self.u32(v as u32);
        self.u32((v >> 32) as u32);
    }
}

struct Lcg(u64);

impl Lcg {
    fn next(&mut self) -> u32 {
        self.0 = self
            .0
            .wrapping_mul(6364136223846793005)
            .wrapping_add(1442695040888963407);
        (self.0 >> 32) as u32
    }
    /// uniform in [0, 1)
    fn unit(&mut self) -> f32 {
        (self.next() >> 8) as f32 / 16_777_216.0_f32
    }
    fn below(&mut self, n: u32) -> u32 {
        self.next() % n
    }
}

/// glide times that stay finite and well behaved
const TAME_TIMES: [f32; 24] = [
    0.0, -0.0, 1.0e-6, 1.0e-4, 0.001, 0.01, 0.04, 0.049, 0.05, 0.051, 0.1, 0.5, 1.0, 2.5, 9.95, 10.0, 10.04, 10.06,
    11.0, 100.0, 1.0e10, -1.0, -0.05, -1.0e-3,
];

/// glide times including every awkward f32
const WILD_TIMES: [f32; 16] = [
    f32::NAN,
    f32::INFINITY,
    f32::NEG_INFINITY,
    f32::MAX,
    f32::MIN,
    f32::MIN_POSITIVE,
    -f32::MIN_POSITIVE,
    1.0e-45,
    -1.0e-45,
    1.0e-39,
    3.0e38,
    -3.0e38,
    f32::EPSILON,
    0.0,
    -0.0,
    10.0,
];

const TAME_VALS: [f32; 16] = [
    0.0, -0.0, 1.0, -1.0, 0.5, 10.0, -10.0, 1.0e-3, 1.0e-30, -1.0e-30, 1.0e-45, 1.0e6, -1.0e6, 5.0, 0.083333336, 3.3,
];

const WILD_VALS: [f32; 10] = [
    f32::NAN,
    f32::INFINITY,
    f32::NEG_INFINITY,
    f32::MAX,
    f32::MIN,
    1.0e30,
    -1.0e30,
    f32::MIN_POSITIVE,
    1.0e-45,
    0.0,
];

const SAMPLE_RATES: [f32; 14] = [
    100.0, 441.0, 1_000.0, 8_000.0, 44_100.0, 48_000.0, 96_000.0, 192_000.0, // documented range
    0.3, 0.4, 1.0, 1.0e-3, 1.0e9, 3.0e38, // silly but accepted
];

fn glide_random_walk(h: &mut Fnv, sr: f32, seed: u64, steps: u32, wild: bool) {
    let mut rng = Lcg(seed);
    let mut g = GlideProcessor::new(sr);
    let mut held = 0.0_f32;
    for _ in 0..steps {
        let op = rng.below(100);
        if op < 12 {
            // change the glide time
            let t = match rng.below(4) {
                0 => TAME_TIMES[rng.below(TAME_TIMES.len() as u32) as usize],
                1 if wild => WILD_TIMES[rng.below(WILD_TIMES.len() as u32) as usize],
                2 => rng.unit() * 0.2,
                _ => rng.unit() * 10.0,
            };
            g.set_time(t);
        } else if op < 20 {
            // jitter the glide time by less / about / more than the 0.05 s dead band, repeatedly
            let base = rng.unit() * 10.0;
            for k in 0..4 {
                g.set_time(base + 0.024 * k as f32);
                h.f32(g.process(held));
            }
        } else if op < 40 {
            // new target
            held = match rng.below(4) {
                0 => TAME_VALS[rng.below(TAME_VALS.len() as u32) as usize],
                1 if wild => WILD_VALS[rng.below(WILD_VALS.len() as u32) as usize],
                2 => rng.unit() * 20.0 - 10.0,
                _ => rng.unit(),
            };
        }
        h.f32(g.process(held));
    }
}

fn glide_step_responses(h: &mut Fnv) {
    // the documented use: constant time, unit step, long settle; one hash entry per sample
    for &sr in &[100.0_f32, 1_000.0, 48_000.0, 192_000.0] {
        for &t in &[0.0_f32, 0.001, 0.01, 0.05, 0.1, 0.5, 1.0, 10.0, 20.0] {
            let mut g = GlideProcessor::new(sr);
            g.set_time(t);
            h.f32(g.process(0.0));
            for _ in 0..3_000 {
                h.f32(g.process(1.0));
            }
            // second set_time inside and outside the dead band, mid-glide
            g.set_time(t + 0.05);
            h.f32(g.process(-1.0));
            g.set_time(t + 0.0501);
            h.f32(g.process(-1.0));
            g.set_time(t + 0.2);
            for _ in 0..200 {
                h.f32(g.process(-1.0));
            }
        }
    }
    // a processor that never had set_time called, and the "first call always updates" sentinel (-1.0)
    for &sr in &SAMPLE_RATES {
        let mut g = GlideProcessor::new(sr);
        for i in 0..64 {
            h.f32(g.process(if i & 8 == 0 { 1.0 } else { -2.5 }));
        }
        for &t in &[-1.0_f32, -0.96, -1.05, -1.0501, -0.9, 0.0] {
            let mut g = GlideProcessor::new(sr);
            g.set_time(t);
            for _ in 0..16 {
                h.f32(g.process(1.0));
            }
        }
    }
}

fn glide_every_time_once(h: &mut Fnv) {
    // each awkward time on a fresh processor, then on a processor whose cache holds another awkward time
    for &sr in &SAMPLE_RATES {
        for &t0 in WILD_TIMES.iter().chain(TAME_TIMES.iter()) {
            let mut g = GlideProcessor::new(sr);
            g.set_time(t0);
            for _ in 0..6 {
                h.f32(g.process(1.0));
            }
            for &t1 in WILD_TIMES.iter() {
                g.set_time(t1);
                h.f32(g.process(0.25));
            }
        }
    }
}

/// `x` moved by `k` units in the last place (x finite, non-zero, no sign change)
fn nudge(x: f32, k: i32) -> f32 {
    f32::from_bits((x.to_bits() as i32 + k) as u32)
}

fn glide_dead_band_edges(h: &mut Fnv) {
    // requested times within a few ulps of (time in effect) +/- 0.05, for the initial sentinel and for cached times
    let cached = [-1.0_f32, 0.0, 0.05, 0.1, 0.3, 1.0, 2.0, 5.0, 9.95, 10.0, -0.05, 100.0];
    for &sr in &[100.0_f32, 1_000.0, 48_000.0] {
        for (i, &c) in cached.iter().enumerate() {
            for &side in &[-0.05_f32, 0.05] {
                for k in -6..=6 {
                    let mut g = GlideProcessor::new(sr);
                    if i != 0 {
                        g.set_time(c);
                    }
                    h.f32(g.process(1.0));
                    let target = c + side;
                    let t = if target == 0.0 { k as f32 * 1.0e-9 } else { nudge(target, k) };
                    g.set_time(t);
                    for _ in 0..8 {
                        h.f32(g.process(2.0));
                    }
                    // and back again: is the new time or the old one in effect?
                    g.set_time(c);
                    for _ in 0..8 {
                        h.f32(g.process(-1.0));
                    }
                }
            }
        }
    }
}

fn glide_constructor_panics(h: &mut Fnv) {
    let rates = [
        0.0_f32,
        -0.0,
        -1.0,
        f32::NAN,
        f32::NEG_INFINITY,
        1.0e-45,
        4.0e-45,
        6.0e-45,
        f32::MIN_POSITIVE,
        f32::INFINITY,
        f32::MAX,
        1.0,
    ];
    for &sr in &rates {
        let r = catch_unwind(move || {
            let mut g = GlideProcessor::new(sr);
            g.set_time(0.3);
            let a = g.process(1.0);
            let b = g.process(1.0);
            (a, b)
        });
        match r {
            Ok((a, b)) => {
                h.byte(1);
                h.f32(a);
                h.f32(b);
            }
            Err(_) => h.byte(0),
        }
    }
}

const SHAPES: [Waveshape; 5] = [
    Waveshape::Sine,
    Waveshape::Triangle,
    Waveshape::UpSaw,
    Waveshape::DownSaw,
    Waveshape::Square,
];

fn lfo_walk(h: &mut Fnv, sr: f32, seed: u64, steps: u32) {
    let mut rng = Lcg(seed);
    let mut lfo = Lfo::new(sr);
    lfo.set_frequency(sr / 977.0);
    for _ in 0..steps {
        match rng.below(64) {
            0 => lfo.set_frequency(rng.unit() * sr),
            1 => lfo.set_frequency(rng.unit() * 20.0),
            2 => lfo.set_frequency([0.0, sr, sr * 0.5, 1.0e-3][rng.below(4) as usize]),
            3 => lfo.reset(),
            4 => lfo.set_phase(rng.unit() * 8.0 - 4.0),
            5 => lfo.set_phase([0.0, -0.0, 1.0, 0.25, 0.75, -0.25, 1.0e6, -1.0e6][rng.below(8) as usize]),
            _ => (),
        }
        lfo.tick();
        for &s in &SHAPES {
            h.f32(lfo.get(s));
        }
    }
}

fn adsr_walk(h: &mut Fnv, sr: f32, seed: u64, steps: u32) {
    let mut rng = Lcg(seed);
    let mut adsr = Adsr::new(sr);
    let edge = [0.0_f32, -1.0, 0.001, 0.0005, 20.0, 25.0, 1.0e30, f32::NAN, f32::INFINITY, f32::NEG_INFINITY];
    for _ in 0..steps {
        match rng.below(96) {
            0 | 1 => adsr.gate_on(),
            2 | 3 => adsr.gate_off(),
            4 => adsr.set_input(Input::Attack((rng.unit() * 0.05).into())),
            5 => adsr.set_input(Input::Decay((rng.unit() * 0.05).into())),
            6 => adsr.set_input(Input::Release((rng.unit() * 0.05).into())),
            7 => adsr.set_input(Input::Sustain(rng.unit().into())),
            8 => adsr.set_input(Input::Attack(edge[rng.below(10) as usize].into())),
            9 => adsr.set_input(Input::Decay(edge[rng.below(10) as usize].into())),
            10 => adsr.set_input(Input::Release(edge[rng.below(10) as usize].into())),
            11 => adsr.set_input(Input::Sustain(edge[rng.below(10) as usize].into())),
            12 => adsr.set_input(Input::Attack((rng.unit() * 3.0).into())),
            _ => (),
        }
        adsr.tick();
        h.f32(adsr.value());
    }
}

#[test]
fn differential_hash() {
    let mut total = Fnv::new();
    let mut section = |name: &str, h: Fnv| {
        println!("DIFF {:<28} {:016x}", name, h.0);
        total.u64(h.0);
    };

    let mut h = Fnv::new();
    for (i, &sr) in SAMPLE_RATES.iter().enumerate() {
        for s in 0..4u64 {
            glide_random_walk(&mut h, sr, 0x9e37_79b9 + 1_000 * i as u64 + s, 6_000, false);
        }
    }
    section("glide_walk_tame", h);

    let mut h = Fnv::new();
    for (i, &sr) in SAMPLE_RATES.iter().enumerate() {
        for s in 0..24u64 {
            // short walks: once a NaN / inf is inside the filter it stays, so restart often
            glide_random_walk(&mut h, sr, 0x5151_0000 + 1_000 * i as u64 + s, 400, true);
        }
    }
    section("glide_walk_wild", h);

    let mut h = Fnv::new();
    glide_step_responses(&mut h);
    section("glide_step_responses", h);

    let mut h = Fnv::new();
    glide_every_time_once(&mut h);
    section("glide_every_time_once", h);

    let mut h = Fnv::new();
    glide_dead_band_edges(&mut h);
    section("glide_dead_band_edges", h);

    let mut h = Fnv::new();
    glide_constructor_panics(&mut h);
    section("glide_constructor_panics", h);

    let mut h = Fnv::new();
    for (i, &sr) in [100.0_f32, 1_000.0, 44_100.0, 192_000.0].iter().enumerate() {
        lfo_walk(&mut h, sr, 77 + i as u64, 20_000);
    }
    section("lfo_walk (utils)", h);

    let mut h = Fnv::new();
    for (i, &sr) in [100.0_f32, 1_000.0, 44_100.0, 192_000.0].iter().enumerate() {
        adsr_walk(&mut h, sr, 4242 + i as u64, 40_000);
    }
    section("adsr_walk (utils)", h);

    println!("DIFF {:<28} {:016x}", "TOTAL", total.0);
}
