//! Differential test for `synth_utils::ribbon_controller`.
//!
//! Drives the ribbon controller (public API only) with long pseudo-random call sequences from a fixed-seed LCG and
//! folds the bit pattern of every observable output into a 64-bit FNV-1a hash. The per-scenario hashes and the total
//! hash are printed; two builds of the crate behave identically on these sequences iff the printed lines are equal.
//!
//! Usage: copy to `tests/diff_test.rs` of the crate and run
//! `cargo test --offline --test diff_test -- --nocapture | grep HASH`
//!
//! Panics (arithmetic overflow in debug builds) are part of the observable behaviour: every
//! call is wrapped in `catch_unwind` and "it panicked" is hashed too (but never the message, which contains line
//! numbers). The sequence keeps going after a caught panic, so the partially updated state left behind by a panicking
//! call is compared as well.

use std::panic::{catch_unwind, AssertUnwindSafe};
use synth_utils::ribbon_controller::{sample_rate_to_capacity, RibbonController};

/// 64-bit LCG (Knuth MMIX constants), upper bits used
struct Lcg(u64);

impl Lcg {
    fn next(&mut self) -> u32 {
        self.0 = self
            .0
            .wrapping_mul(6364136223846793005)
            .wrapping_add(1442695040888963407);
        (self.0 >> 32) as u32
    }

    /// uniform in [0, n)
    fn below(&mut self, n: u32) -> u32 {
        ((self.next() as u64 * n as u64) >> 32) as u32
    }

    /// uniform in [0, 1)
    fn unit(&mut self) -> f32 {
        (self.next() >> 8) as f32 / 16_777_216.0
    }
}

/// FNV-1a, 64 bit
#[derive(Clone, Copy)]
struct Fnv(u64);

impl Fnv {
    fn new() -> Self {
        Fnv(0xcbf2_9ce4_8422_2325)
    }
    fn byte(&mut self, b: u8) {
        self.0 ^= b as u64;
        self.0 = self.0.wrapping_mul(0x0000_0100_0000_01b3);
    }
    fn u32(&mut self, x: u32) {
        for b in x.to_le_bytes() {
            self.byte(b);
        }
    }
    fn u64(&mut self, x: u64) {
        for b in x.to_le_bytes() {
            self.byte(b);
        }
    }
    fn f32(&mut self, x: f32) {
        self.u32(x.to_bits());
    }
    fn bool(&mut self, x: bool) {
        self.byte(if x { 0xA5 } else { 0x5A });
    }
    fn panic_marker(&mut self) {
        self.u32(0xDEAD_BEEF);
    }
}

const EDGE_VALUES: [f32; 20] = [
    0.0,
    -0.0,
    1.0,
    -1.0,
    0.5,
    0.999,
    0.96,
    0.97,
    2.0,
    1.0e30,
    -1.0e30,
    f32::MAX,
    f32::MIN,
    f32::NAN,
    f32::INFINITY,
    f32::NEG_INFINITY,
    f32::MIN_POSITIVE,
    1.0e-42, // subnormal
    f32::EPSILON,
    0.25,
];

/// the press boundary as computed by the constructor, used to aim samples right at the threshold
fn boundary_guess(softpot: f32, dropper: f32) -> f32 {
    1.0 - (dropper / (dropper + softpot))
}

fn next_up(x: f32) -> f32 {
    if x.is_finite() && x > 0.0 {
        f32::from_bits(x.to_bits() + 1)
    } else {
        x
    }
}

fn next_down(x: f32) -> f32 {
    if x.is_finite() && x > 0.0 {
        f32::from_bits(x.to_bits() - 1)
    } else {
        x
    }
}

/// Observe everything observable (the self clearing getters only sometimes, so that call histories vary)
fn observe<const N: usize>(rib: &mut RibbonController<N>, rng: &mut Lcg, h: &mut Fnv) {
    h.f32(rib.value());
    h.bool(rib.finger_is_pressing());
    match rng.below(8) {
        0 => {
            h.bool(rib.finger_just_pressed());
            h.bool(rib.finger_just_released());
        }
        1 => {
            h.bool(rib.finger_just_released());
            h.bool(rib.finger_just_pressed());
        }
        2 => h.bool(rib.finger_just_pressed()),
        3 => h.bool(rib.finger_just_released()),
        4 => {
            // read twice: must self clear
            h.bool(rib.finger_just_pressed());
            h.bool(rib.finger_just_pressed());
            h.bool(rib.finger_just_released());
            h.bool(rib.finger_just_released());
        }
        _ => (),
    }
}

/// One scenario: build a controller and feed it `steps` samples
fn drive<const N: usize>(
    name: &str,
    total: &mut Fnv,
    seed: u64,
    params: (f32, f32, f32, f32),
    steps: usize,
) {
    let (sr, softpot, dropper, pullup) = params;
    let mut h = Fnv::new();
    let mut rng = Lcg(seed);
    let mut num_panics = 0_u64;
    let mut num_presses = 0_u64;

    h.u64(N as u64);

    let built = catch_unwind(|| RibbonController::<N>::new(sr, softpot, dropper, pullup));

    match built {
        Err(_) => {
            h.panic_marker();
            num_panics += 1;
        }
        Ok(mut rib) => {
            let boundary = boundary_guess(softpot, dropper);
            observe(&mut rib, &mut rng, &mut h);

            let mut pos = 0.3_f32;
            let mut mode = 0_u32;
            let mut run_left = 0_usize;
            let mut constant = 0.42_f32;
            let mut was_pressing = false;

            for _ in 0..steps {
                if run_left == 0 {
                    mode = rng.below(8);
                    let long = (3 * N + 64) as u32;
                    run_left = 1 + match mode {
                        // long presses: wandering finger, constant value, slow ramp
                        0 | 1 | 2 => rng.below(long) as usize,
                        // short taps, possibly shorter than the capture time
                        3 => rng.below(N as u32 / 2 + 8) as usize,
                        // finger lifted
                        4 | 5 => rng.below(24) as usize,
                        // noise across the whole range
                        6 => rng.below(long) as usize,
                        // a burst of edge values
                        _ => rng.below(12) as usize,
                    };
                    constant = match rng.below(4) {
                        0 => EDGE_VALUES[rng.below(EDGE_VALUES.len() as u32) as usize],
                        1 => rng.unit() * boundary,
                        2 => next_down(boundary),
                        _ => rng.unit(),
                    };
                    pos = rng.unit();
                }
                run_left -= 1;

                let mut sample = match mode {
                    0 => {
                        pos += (rng.unit() - 0.5) * 0.01;
                        let pos_max = if boundary > 0.0 && boundary <= 1.0 {
                            1.01 * boundary
                        } else {
                            1.0
                        };
                        pos = pos.clamp(0.0, pos_max);
                        pos + (rng.unit() - 0.5) * 0.002
                    }
                    1 => constant,
                    2 => {
                        pos += 0.25 / (N + 64) as f32;
                        pos
                    }
                    3 => pos * boundary,
                    4 => 1.0,
                    5 => boundary + rng.unit() * (1.0 - boundary),
                    6 => rng.unit() * 1.1,
                    _ => EDGE_VALUES[rng.below(EDGE_VALUES.len() as u32) as usize],
                };

                // sprinkle in glitches and values right at the threshold at any time
                // (rarely enough that uninterrupted runs longer than the buffer do happen)
                match rng.below(256.max(8 * N as u32)) {
                    0 => sample = EDGE_VALUES[rng.below(EDGE_VALUES.len() as u32) as usize],
                    1 => sample = boundary,
                    2 => sample = next_up(boundary),
                    3 => sample = next_down(boundary),
                    4 => sample = 1.0,
                    _ => (),
                }

                h.f32(sample);
                let polled = catch_unwind(AssertUnwindSafe(|| rib.poll(sample)));
                if polled.is_err() {
                    h.panic_marker();
                    num_panics += 1;
                }
                observe(&mut rib, &mut rng, &mut h);

                let pressing = rib.finger_is_pressing();
                if pressing && !was_pressing {
                    num_presses += 1;
                }
                was_pressing = pressing;
            }
        }
    }

    println!(
        "HASH {:<28} N={:<5} presses={:<5} panics={:<6} {:016x}",
        name, N, num_presses, num_panics, h.0
    );
    total.u64(h.0);
}

/// Scripted scenario: for every edge value a press holding exactly that value long enough to be reported (if the value
/// is in range at all), a release, a tap that is too short, and a press alternating between the value and its negation
fn scripted<const N: usize>(name: &str, total: &mut Fnv, seed: u64, params: (f32, f32, f32, f32)) {
    let (sr, softpot, dropper, pullup) = params;
    let mut h = Fnv::new();
    let mut rng = Lcg(seed);
    let mut num_panics = 0_u64;
    let mut num_presses = 0_u64;
    let mut was_pressing = false;

    let mut rib = RibbonController::<N>::new(sr, softpot, dropper, pullup);
    let boundary = boundary_guess(softpot, dropper);
    let hold = 2 * N + 50;

    let mut step = |rib: &mut RibbonController<N>, sample: f32, h: &mut Fnv, rng: &mut Lcg| {
        h.f32(sample);
        if catch_unwind(AssertUnwindSafe(|| rib.poll(sample))).is_err() {
            h.panic_marker();
            num_panics += 1;
        }
        observe(rib, rng, h);
        let pressing = rib.finger_is_pressing();
        if pressing && !was_pressing {
            num_presses += 1;
        }
        was_pressing = pressing;
    };

    let extra = [
        boundary,
        next_down(boundary),
        next_up(boundary),
        0.5 * boundary,
        0.1,
        0.9,
    ];
    for &v in EDGE_VALUES.iter().chain(extra.iter()) {
        for _ in 0..hold {
            step(&mut rib, v, &mut h, &mut rng);
        }
        for _ in 0..3 {
            step(&mut rib, 1.0, &mut h, &mut rng);
        }
        for _ in 0..N / 2 {
            step(&mut rib, v, &mut h, &mut rng);
        }
        step(&mut rib, f32::NAN, &mut h, &mut rng);
        for i in 0..hold {
            step(&mut rib, if i % 2 == 0 { v } else { -v }, &mut h, &mut rng);
        }
        step(&mut rib, 2.0, &mut h, &mut rng);
    }

    println!(
        "HASH {:<28} N={:<5} presses={:<5} panics={:<6} {:016x}",
        name, N, num_presses, num_panics, h.0
    );
    total.u64(h.0);
}

const HW: (f32, f32, f32) = (20.0e3, 820.0, 1.0e6);

fn with_sr(sr: f32) -> (f32, f32, f32, f32) {
    (sr, HW.0, HW.1, HW.2)
}

#[test]
fn ribbon_differential() {
    // panics are expected in some scenarios, keep the output readable
    std::panic::set_hook(Box::new(|_| {}));

    let mut total = Fnv::new();

    // ---- the capacity helper, at run time -------------------------------------------------------------------------
    {
        let mut h = Fnv::new();
        let mut rng = Lcg(0x5EED_0001);
        let probe = |sr: u32, h: &mut Fnv| match catch_unwind(|| sample_rate_to_capacity(sr)) {
            Ok(c) => h.u64(c as u64),
            Err(_) => h.panic_marker(),
        };
        for sr in 0..5000_u32 {
            probe(sr, &mut h);
        }
        for _ in 0..20_000 {
            probe(rng.below(286_400), &mut h);
        }
        for sr in [
            100,
            192_000,
            286_330,
            286_331,
            286_332,
            286_333,
            300_000,
            1_000_000,
            2_147_483,
            2_147_484,
            4_294_967,
            4_294_968,
            u32::MAX,
        ] {
            probe(sr, &mut h);
        }
        println!("HASH {:<28} {:016x}", "sample_rate_to_capacity", h.0);
        total.u64(h.0);
    }

    // ---- buffers sized by the helper, documented sample rate range ----------------------------------------------
    const C100: usize = sample_rate_to_capacity(100);
    const C999: usize = sample_rate_to_capacity(999);
    const C1000: usize = sample_rate_to_capacity(1000);
    const C1001: usize = sample_rate_to_capacity(1001);
    const C8000: usize = sample_rate_to_capacity(8000);
    const C10K: usize = sample_rate_to_capacity(10_000);
    const C44K1: usize = sample_rate_to_capacity(44_100);
    const C48K: usize = sample_rate_to_capacity(48_000);
    const C96K: usize = sample_rate_to_capacity(96_000);
    const C192K: usize = sample_rate_to_capacity(192_000);

    drive::<C100>("sr100", &mut total, 1, with_sr(100.0), 40_000);
    drive::<C999>("sr999", &mut total, 2, with_sr(999.0), 60_000);
    drive::<C1000>("sr1000", &mut total, 3, with_sr(1000.0), 60_000);
    drive::<C1001>("sr1001", &mut total, 4, with_sr(1001.5), 60_000);
    drive::<C8000>("sr8000", &mut total, 5, with_sr(8000.0), 150_000);
    drive::<C10K>("sr10k", &mut total, 6, with_sr(10_000.0), 200_000);
    drive::<C10K>("sr10k_seed2", &mut total, 7, with_sr(10_000.0), 200_000);
    drive::<C44K1>("sr44k1", &mut total, 8, with_sr(44_100.0), 150_000);
    drive::<C48K>("sr48k", &mut total, 9, with_sr(48_000.0), 150_000);
    drive::<C96K>("sr96k", &mut total, 10, with_sr(96_000.0), 200_000);
    drive::<C192K>("sr192k", &mut total, 11, with_sr(192_000.0), 300_000);

    // ---- other hardware values (also degenerate ones) --------------------------------------------------------------
    drive::<C10K>(
        "softpot10k",
        &mut total,
        20,
        (10_000.0, 10.0e3, 470.0, 220.0e3),
        100_000,
    );
    drive::<C10K>(
        "no_dropper",
        &mut total,
        21,
        (10_000.0, 20.0e3, 0.0, 1.0e6),
        100_000,
    );
    drive::<C10K>(
        "big_dropper",
        &mut total,
        22,
        (10_000.0, 20.0e3, 20.0e3, 1.0e5),
        100_000,
    );
    drive::<C10K>(
        "zero_pullup",
        &mut total,
        23,
        (10_000.0, 20.0e3, 820.0, 0.0),
        50_000,
    );
    drive::<C10K>(
        "nan_pullup",
        &mut total,
        24,
        (10_000.0, 20.0e3, 820.0, f32::NAN),
        50_000,
    );
    drive::<C10K>(
        "neg_pullup",
        &mut total,
        25,
        (10_000.0, 20.0e3, 820.0, -1.0e5),
        50_000,
    );
    drive::<C10K>(
        "all_zero_ohms",
        &mut total,
        26,
        (10_000.0, 0.0, 0.0, 0.0),
        20_000,
    );
    drive::<C10K>(
        "neg_dropper",
        &mut total,
        27,
        (10_000.0, 20.0e3, -820.0, 1.0e6),
        50_000,
    );
    drive::<C10K>(
        "inf_softpot",
        &mut total,
        28,
        (10_000.0, f32::INFINITY, 820.0, 1.0e6),
        50_000,
    );
    drive::<C10K>(
        "small_pullup",
        &mut total,
        29,
        (10_000.0, 20.0e3, 820.0, 1.0e3),
        50_000,
    );

    // ---- scripted presses holding each edge value, for every hardware variant -----------------------------------
    const C2K: usize = sample_rate_to_capacity(2000);
    scripted::<C2K>(
        "scr_default",
        &mut total,
        60,
        (2000.0, 20.0e3, 820.0, 1.0e6),
    );
    scripted::<C2K>(
        "scr_softpot10k",
        &mut total,
        61,
        (2000.0, 10.0e3, 470.0, 220.0e3),
    );
    scripted::<C2K>(
        "scr_no_dropper",
        &mut total,
        62,
        (2000.0, 20.0e3, 0.0, 1.0e6),
    );
    scripted::<C2K>(
        "scr_zero_pullup",
        &mut total,
        63,
        (2000.0, 20.0e3, 820.0, 0.0),
    );
    scripted::<C2K>(
        "scr_nan_pullup",
        &mut total,
        64,
        (2000.0, 20.0e3, 820.0, f32::NAN),
    );
    scripted::<C2K>(
        "scr_neg_pullup",
        &mut total,
        65,
        (2000.0, 20.0e3, 820.0, -1.0e5),
    );
    scripted::<C2K>(
        "scr_neg_dropper",
        &mut total,
        66,
        (2000.0, 20.0e3, -820.0, 1.0e6),
    );
    scripted::<C2K>(
        "scr_neg_softpot",
        &mut total,
        67,
        (2000.0, -20.0e3, 820.0, 1.0e6),
    );
    scripted::<C2K>(
        "scr_inf_softpot",
        &mut total,
        68,
        (2000.0, f32::INFINITY, 820.0, 1.0e6),
    );
    scripted::<C2K>("scr_all_zero_ohms", &mut total, 69, (2000.0, 0.0, 0.0, 0.0));
    scripted::<4>(
        "scr_cap4_take0",
        &mut total,
        70,
        (2000.0, 20.0e3, 820.0, -1.0e5),
    );
    scripted::<5>(
        "scr_cap5_take1",
        &mut total,
        71,
        (2000.0, 20.0e3, 820.0, -1.0e5),
    );
    scripted::<3>(
        "scr_cap3_underflow",
        &mut total,
        72,
        (2000.0, 20.0e3, 820.0, 1.0e6),
    );

    // ---- buffer not sized by the helper / sample rates outside the documented range ------------------------------
    drive::<C10K>("cap10k_sr48k", &mut total, 40, with_sr(48_000.0), 100_000);
    drive::<C48K>("cap48k_sr10k", &mut total, 41, with_sr(10_000.0), 100_000);
    drive::<20>(
        "cap20_sr10k_take0",
        &mut total,
        42,
        with_sr(10_000.0),
        20_000,
    );
    drive::<21>(
        "cap21_sr10k_take1",
        &mut total,
        43,
        with_sr(10_000.0),
        20_000,
    );
    drive::<8>(
        "cap8_sr10k_underflow",
        &mut total,
        44,
        with_sr(10_000.0),
        5_000,
    );
    drive::<1>("cap1_sr100", &mut total, 45, with_sr(100.0), 20_000);
    drive::<1>("cap1_sr1000", &mut total, 46, with_sr(1000.0), 5_000);
    // (a capacity of 0 is rejected at compile time by heapless)
    drive::<2>("cap2_sr1000", &mut total, 47, with_sr(1000.0), 5_000);
    drive::<3>("cap3_sr1500", &mut total, 48, with_sr(1500.0), 5_000);
    drive::<64>("sr_nan", &mut total, 49, with_sr(f32::NAN), 20_000);
    drive::<64>("sr_negative", &mut total, 50, with_sr(-48_000.0), 20_000);
    drive::<64>("sr_zero", &mut total, 51, with_sr(0.0), 20_000);
    drive::<64>(
        "sr_inf_overflow",
        &mut total,
        52,
        with_sr(f32::INFINITY),
        100,
    );
    drive::<64>("sr_3M_overflow", &mut total, 53, with_sr(3.0e6), 100);
    drive::<64>("sr_4.2M_overflow", &mut total, 54, with_sr(4.2e6), 100);
    drive::<64>("sr_5M_overflow", &mut total, 55, with_sr(5.0e6), 100);
    drive::<10_000>("sr_2.1M", &mut total, 56, with_sr(2.1e6), 150_000);

    println!("HASH TOTAL {:016x}", total.0);

    let _ = std::panic::take_hook();
}
