#!/usr/bin/env python3
"""oracle_matrix.py <out.json> <patch>... : ground truth for the cross-property audit (development tool, NOT a check).

For every patch (or CLEAN) a scratch copy of /repo is made, the patch applied, and the twenty dynamic oracles of
selftest/oracles/Cxx.rs (integration tests written from the property texts alone by independent sub-agents) are compiled and
run against it.  Result per patch: {Cxx: 'pass' | 'fail' | 'timeout' | 'build-error'}.  selftest/audit.py then compares this
with selftest/matrix.py's record of which static checks fired, to find (a) checks that fire although the oracle of their
property passes (candidate false alarms across properties) and (b) oracles that fail where the check is silent.
The oracles run the code; they are used only to label the seeded changes, never to decide a property."""
import json
import os
import shutil
import subprocess
import sys
import tempfile
from concurrent.futures import ThreadPoolExecutor

HERE = os.path.dirname(os.path.abspath(__file__))
ORACLES = os.path.join(HERE, 'oracles')
PROPS = os.environ.get('VERIF_MATRIX_PROPS', '').split() or ['C%02d' % i for i in range(1, 21)]
TIMEOUT = int(os.environ.get('VERIF_ORACLE_TIMEOUT', '240'))


MODULE_PROPS = {
    'src/adsr.rs': 'C01 C02 C03 C17 C20', 'src/phase_accumulator.rs': 'C01 C02 C03 C10 C11 C12 C17',
    'src/utils.rs': 'C01 C02 C03 C10 C11 C12 C13 C14 C17', 'src/lookup_tables.rs': 'C01 C03 C10 C12 C17',
    'src/lfo.rs': 'C10 C11 C12 C17', 'src/mono_midi_receiver.rs': 'C04 C05 C06 C17 C18 C20',
    'src/quantizer.rs': 'C07 C08 C09 C17 C19 C20', 'src/ribbon_controller.rs': 'C15 C16 C17',
    'src/glide_processor.rs': 'C13 C14 C17',
}


def props_for(patch):
    """with VERIF_MATRIX_BY_MODULE=1: only the properties anchored in the files the patch touches (a change to the
    quantizer cannot move a MIDI property); otherwise all"""
    if patch == 'CLEAN' or not os.environ.get('VERIF_MATRIX_BY_MODULE'):
        return PROPS
    sel = set()
    for l in open(patch):
        if l.startswith('+++ '):
            f = l[4:].strip().split('\t')[0]
            f = f[2:] if f[:2] in ('a/', 'b/') else f
            if f not in MODULE_PROPS:
                return PROPS
            sel |= set(MODULE_PROPS[f].split())
    return [p for p in PROPS if p in sel]


def one(patch):
    tmp = tempfile.mkdtemp(prefix='orc-')
    env = dict(os.environ, CARGO_NET_OFFLINE='true', CARGO_TARGET_DIR=os.path.join(tmp, 'target'))
    try:
        for item in ('src', 'Cargo.toml', 'Cargo.lock', 'README.md', 'examples'):
            s = os.path.join('/repo', item)
            if os.path.exists(s):
                (shutil.copytree if os.path.isdir(s) else shutil.copy)(s, os.path.join(tmp, item))
        if patch != 'CLEAN':
            r = subprocess.run(['patch', '-p1', '-s', '--no-backup-if-mismatch', '-i', patch], cwd=tmp, stdout=subprocess.PIPE, stderr=subprocess.STDOUT, text=True)
            if r.returncode != 0:
                return patch, {'error': 'patch does not apply'}
        os.makedirs(os.path.join(tmp, 'tests'))
        for p in props_for(patch):
            shutil.copy(os.path.join(ORACLES, p + '.rs'), os.path.join(tmp, 'tests', 'oracle_%s.rs' % p))
        out = {}
        b = subprocess.run(['cargo', 'test', '--offline', '--no-run', '--tests', '-q'], cwd=tmp, env=env, stdout=subprocess.PIPE, stderr=subprocess.STDOUT, text=True)
        if b.returncode != 0:
            # build each oracle separately: one oracle that does not compile against the changed API must not hide the others
            pass
        for p in props_for(patch):
            try:
                r = subprocess.run(['cargo', 'test', '--offline', '-q', '--test', 'oracle_%s' % p], cwd=tmp, env=env, stdout=subprocess.PIPE, stderr=subprocess.STDOUT, text=True, timeout=TIMEOUT)
                if r.returncode == 0:
                    out[p] = 'pass'
                elif 'could not compile' in r.stdout:
                    out[p] = 'build-error'
                else:
                    out[p] = 'fail'
                    fails = [l for l in r.stdout.splitlines() if l.startswith('test ') and 'FAILED' in l]
                    out[p + ':tests'] = [l.split()[1] for l in fails][:8]
            except subprocess.TimeoutExpired:
                out[p] = 'timeout'
                subprocess.run(['pkill', '-f', os.path.join(tmp, 'target')], stdout=subprocess.DEVNULL, stderr=subprocess.DEVNULL)
        return patch, out
    finally:
        shutil.rmtree(tmp, ignore_errors=True)


if __name__ == '__main__':
    outp = sys.argv[1]
    patches = sys.argv[2:]
    res = {}
    with ThreadPoolExecutor(max_workers=int(os.environ.get('VERIF_MATRIX_JOBS', '6'))) as ex:
        for patch, out in ex.map(one, patches):
            res[patch] = out
            print(patch, {k: v for k, v in out.items() if ':' not in k and v != 'pass'}, flush=True)
            json.dump(res, open(outp, 'w'), indent=1)
