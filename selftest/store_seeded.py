#!/usr/bin/env python3
"""store_seeded.py "<round description>" <Cxx_k> ... : store confirmed seeded changes as /verif/seeded/<Cxx_k>/.

Reads /tmp/seed/<Cxx>/out/{patch_k.diff,demo_k.rs,notes_k.md} (written by the sub-agent) and
/tmp/seedv/result_<Cxx>_<k>.txt (written by selftest/verify_seeded.sh); refuses anything whose verdict is not CONFIRMED.
"""
import json, os, shutil, subprocess, sys

ROOT = os.path.dirname(os.path.dirname(os.path.abspath(__file__)))
props = {json.loads(l)['id']: json.loads(l) for l in open(os.path.join(ROOT, 'properties.jsonl'))}
head = subprocess.check_output(['git', '-C', '/repo', 'rev-parse', '--short', 'HEAD'], text=True).strip()
descr = sys.argv[1]
for item in sys.argv[2:]:
    pid, k = item.rsplit('_', 1)
    src = f'/tmp/seed/{pid}/out'
    res = open(f'/tmp/seedv/result_{pid}_{k}.txt').read().splitlines()
    if not any(l.strip() == 'VERDICT: CONFIRMED' for l in res):
        print('NOT CONFIRMED, skipped:', item)
        continue
    dst = os.path.join(ROOT, 'seeded', item)
    os.makedirs(dst, exist_ok=True)
    shutil.copy(f'{src}/patch_{k}.diff', f'{dst}/patch.diff')
    shutil.copy(f'{src}/demo_{k}.rs', f'{dst}/demo.rs')
    notes = open(f'{src}/notes_{k}.md').read() if os.path.exists(f'{src}/notes_{k}.md') else ''
    open(f'{dst}/notes.md', 'w').write(notes)
    meta = {
        'property': pid,
        'title': props[pid]['title'],
        'source': f'independent sub-agent given only the property text and a scratch worktree of /repo (HEAD {head}); {descr}',
        'needs_to_manifest': [l for l in notes.splitlines() if l.strip()][:12],
        'confirmed_by': 'selftest/verify_seeded.sh in a scratch worktree: patch applies; cargo test --offline: 62 unit + 4 doc tests pass with the patch; demo.rs (as tests/demo.rs) fails with the patch and passes without it',
        'verification_log': res,
    }
    json.dump(meta, open(f'{dst}/meta.json', 'w'), indent=1)
    print('stored', item)
