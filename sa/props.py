"""Property drivers: which rules decide which property, evidence level and assumptions."""
import sys
import os
import time
import json
import traceback

from .facts import extract, FactsError, VERIF
from .core import Result, finish
from .interp import InterpError

TRUSTED = [
    'rustc nightly front end / MIR construction / const evaluation (facts come from tcx.optimized_mir at -Zmir-opt-level=0, dev profile)',
    'library models in sa/models.py (f32::max/min/clamp, Ord::min/max, heapless Vec/HistoryBuffer, slice/iterator adaptors, Option/Result helpers, libm tan)',
    'the abstract interpreter sa/interp.py + term domain sa/terms.py (exercised by positive controls on every run)',
    'real arithmetic for f32 terms (rounding slack as stated per rule in DESIGN.md §4/§6)',
]


def p_C04(res, facts, tier):
    from .rules import midi
    n = midi.check_edges_and_held(res, facts, 'C04')
    res.floor('held_partitions', n, 60)
    midi.check_setters(res, facts)
    midi.check_level_getters(res, facts)


def p_C05(res, facts, tier):
    from .rules import midi
    n = midi.check_edges_and_held(res, facts, 'C05')
    res.floor('edge_partitions', n, 60)
    midi.check_edge_getters(res, facts)
    midi.check_setters(res, facts)


def p_C06(res, facts, tier):
    from .rules import midi
    n = midi.check_frame(res, facts)
    res.floor('frame_instances', n, 30)
    midi.check_parser(res, facts)


def p_C18(res, facts, tier):
    from .rules import midi
    midi.check_routing(res, facts)


PROPS = {
    'C04': dict(fn=p_C04, level='other', explanation='Effect summaries of MonoMidiReceiver::parse for every note/All-Notes-Off message over all pre-state partitions (held-list length class x latches x modes x priority) are compared with the transition table of C04 as container terms (push/retain/clear, last/max/min); gate<=>non-empty is checked as an inductive invariant. The step from the per-message table to whole streams is induction over messages (written argument, DESIGN §6 C04).'),
    'C05': dict(fn=p_C05, level='proof', explanation='Typestate extraction: exact boolean effect summaries of parse()/rising_gate()/falling_gate() over every abstract pre-state satisfying the class invariants, compared with the C05 transition table; invariants rising=>gate, falling=>!gate re-established on every post-state.'),
    'C06': dict(fn=p_C06, level='other', explanation='Receiver: every message variant on a foreign channel / unsupported variant / no message leaves all fields but the parser unchanged; every non-real-time byte class is forwarded unmodified exactly once. Parser (dependency MIR): 17 states x 24 byte classes against the MIDI 1.0 framing table. End-to-end equality with a reference decoder is the conjunction of these tables with the C04/C05/C18 handler summaries (not decided end-to-end).'),
    'C18': dict(fn=p_C18, level='proof', explanation='Effect summary of the ControlChange arm for a symbolic controller number and value, per dispatch arm, against the routing table of C18; reset_controllers vs constructor defaults; pitch-bend term through the dependency conversion (two pieces), monotone with MSB weight 128 x LSB.'),
}

DEFAULT_NOTE = ('Trusted base: rustc MIR construction and const evaluation; the library models of sa/models.py; the analyser itself. '
                'Floats are reasoned about over the reals (rounding slack as stated in DESIGN.md). Decides the clauses listed in DESIGN.md §6 for this property; '
                'clauses listed there as not decided are not claimed.')
NOT_APPLICABLE = {}

ASSUMPTIONS = {
    'common': ['midi_types newtypes hold 7-bit / 4-bit values (established by R-PARSER: constructed from data bytes < 0x80 and byte & 0x0F)',
               'library models as listed in trusted_base'],
}


def main(argv):
    if not argv:
        print(__doc__)
        return 2
    prop = argv[0]
    tier = os.environ.get('VERIF_TIER', 'quick')
    if '--tier' in argv:
        tier = argv[argv.index('--tier') + 1]
    if '--explain' in argv:
        p = argv[argv.index('--explain') + 1]
        d = json.load(open(p))
        print('property %s, tier %s, facts %s' % (d['property'], d['tier'], d['facts_key']))
        for v in d['violations']:
            print('- [%s] %s\n    %s\n    at %s   (key %s)' % (v['rule'], v['instance'], v['detail'], v['where'], v['key']))
        return 0
    seed = int(os.environ.get('VERIF_SEED', '0') or 0)
    if prop not in PROPS:
        print('unknown property %s' % prop)
        return 2
    t0 = time.time()
    res = Result(prop)
    spec = PROPS[prop]
    key = '?'
    try:
        facts, key, secs, cached = extract('dev', use_cache=(tier == 'quick'))
        res.extra['extraction_s'] = round(secs, 2)
        res.extra['facts_cached'] = cached
        spec['fn'](res, facts, tier)
    except FactsError as e:
        res.ob('FACTS', 'extraction/anchors', False, str(e), key='FACTS')
    except InterpError as e:
        res.ob('ANALYSIS', 'interpreter', False, 'analysis aborted: %s' % e, key='ANALYSIS')
    except Exception as e:
        traceback.print_exc()
        res.ob('ANALYSIS', 'internal', False, 'internal error: %r' % (e,), key='ANALYSIS-INTERNAL')
    return finish(res, tier, spec['level'], t0, key, ASSUMPTIONS['common'] + spec.get('assumptions', []),
                  spec['explanation'], TRUSTED, seed)
