"""Property drivers: which rules decide which property, evidence level and assumptions."""
import sys
import os
import time
import json
import traceback

from .facts import extract, FactsError, VERIF
from .core import Result, finish
from .interp import InterpError

# development only: the selftest matrix analyses scratch copies; registered checks always read /repo
REPO = os.environ.get('VERIF_SELFTEST_REPO', '/repo')

TRUSTED = [
    'rustc nightly front end / MIR construction / const evaluation (facts come from tcx.optimized_mir at -Zmir-opt-level=0, dev profile)',
    'library models in sa/models.py (f32::max/min/clamp, Ord::min/max, heapless Vec/HistoryBuffer, slice/iterator adaptors, Option/Result helpers, libm tan)',
    'the abstract interpreter sa/interp.py + term domain sa/terms.py (exercised by positive controls on every run)',
    'real arithmetic for f32 terms (rounding slack as stated per rule in DESIGN.md §4/§6)',
]


def p_C04(res, facts, tier):
    from .rules import midi
    # C04 quantifies over streams of note / All-Notes-Off messages of the listened channel only: what other messages do is
    # C05's ("never otherwise") and C06's business, not judged here
    n = midi.check_edges_and_held(res, facts, 'C04')
    res.floor('held_partitions', n, 60)
    midi.check_setters(res, facts)
    midi.check_level_getters(res, facts)
    if tier == 'thorough':
        from . import witness
        witness.run_witnesses(res, ['W2', 'W3'])


def p_C05(res, facts, tier):
    from .rules import midi
    # "... and never otherwise": messages that are not note / All-Notes-Off messages of the listened channel move neither the
    # gate nor the latches (shared with C06)
    midi.check_frame(res, facts)
    n = midi.check_edges_and_held(res, facts, 'C05')
    res.floor('edge_partitions', n, 60)
    midi.check_edge_getters(res, facts)
    midi.check_setters(res, facts)
    if tier == 'thorough':
        from . import witness
        witness.run_witnesses(res, ['W2', 'W3'])


def p_C06(res, facts, tier):
    from .rules import midi, panic
    from .rules.common import panic_policy
    # functional clauses on the returning paths ...
    with panic_policy('skip'):
        n = midi.check_frame(res, facts)
        res.floor('frame_instances', n, 30)
        midi.check_edges_and_held(res, facts, 'C06')
        # unsupported controller numbers are 'unsupported messages': they change nothing (shared with C18)
        midi.check_routing(res, facts, only_other=True)
    # ... and the 'never panics' clause: the dependency parser's own assertions, and every byte through the receiver
    with panic_policy('judge'):
        midi.check_parser(res, facts)
    panic.check_midi_panics(res, facts)


def p_C18(res, facts, tier):
    from .rules import midi
    midi.check_routing(res, facts)
    # the documented values are what the getters return: each getter is the field itself, read-only
    midi.check_level_getters(res, facts)
    # "on the listened channel": controller and pitch-bend messages of other channels change nothing (shared with C06)
    midi.check_frame(res, facts, kinds={'ControlChange', 'PitchBendChange'})


def p_C01(res, facts, tier):
    from .rules import dds
    dds.table_checks(res, facts, {'attack'})
    dds.check_calc_value(res, facts, 'C01')
    dds.check_gates(res, facts, 'C01')
    dds.check_tick(res, facts, 'C01')
    dds.check_bits(res, facts, [dds.ADSR], which=('index', 'fraction_range'))
    dds.check_value_getter(res, facts)
    if tier == 'thorough':
        from . import witness
        witness.run_witnesses(res, ['W2', 'W3'])


def p_C02(res, facts, tier):
    from .rules import dds
    dds.check_constructors(res, facts, dds.ADSR)
    dds.check_gates(res, facts, 'C02')
    dds.check_tick(res, facts, 'C02')
    dds.check_set_input(res, facts)


def p_C03(res, facts, tier):
    from .rules import dds
    n = dds.check_bits(res, facts, [dds.ADSR], which=('index', 'fraction'))
    res.floor('bits_instances', n, 2)
    dds.check_calc_value(res, facts, 'C03')
    dds.check_gates(res, facts, 'C03')
    dds.check_tick(res, facts, 'C03')
    dds.table_checks(res, facts, {'attack'})
    dds.check_value_getter(res, facts)


def p_C10(res, facts, tier):
    from .rules import dds
    dds.check_waves(res, facts, 'C10')
    # the saws and the triangle are stated exactly, so the ramp accessor (and the exactness of its int -> f32 conversion)
    # matters; index()/fraction() only feed the sine, which is stated with a tolerance and judged by R-SINE
    dds.check_bits(res, facts, [dds.LFO], which=('ramp',))
    dds.table_checks(res, facts, {'sine_accuracy'})
    dds.check_pa_methods(res, facts, dds.LFO, 'C10')
    if tier == 'thorough':
        from . import witness
        witness.run_witnesses(res, ['W2', 'W3'])


def p_C11(res, facts, tier):
    from .rules import dds
    dds.check_constructors(res, facts, dds.LFO)
    dds.check_waves(res, facts, 'C11')
    dds.check_pa_methods(res, facts, dds.LFO, 'C11')
    dds.check_lfo_wrappers(res, facts)
    # (the phase is observed through get(UpSaw) above, with a tolerance; ramp() itself only has to convert without rounding)
    dds.check_bits(res, facts, [dds.LFO], which=('ramp_cast',))


def p_C12(res, facts, tier):
    from .rules import dds
    dds.check_pa_methods(res, facts, dds.LFO, 'C12')
    # (the triangle's slope is judged on the term get(Triangle) returns; ramp() itself only has to convert without rounding)
    dds.check_bits(res, facts, [dds.LFO], which=('index', 'fraction', 'ramp_cast'))
    dds.check_waves(res, facts, 'C12')
    dds.table_checks(res, facts, {'sine_continuity'})


def p_C07(res, facts, tier):
    from .rules import quant
    quant.check_mask_invariant(res, facts)
    quant.check_forbid_rescue(res, facts)
    quant.check_convert(res, facts, 'C07')
    quant.check_search(res, facts, 'C07')
    if tier == 'thorough':
        from . import witness
        witness.run_witnesses(res, ['W1', 'W3'])


def p_C08(res, facts, tier):
    from .rules import quant
    quant.check_search(res, facts, 'C08')
    quant.check_convert(res, facts, 'C08')
    # 'a quantizer with no prior conversion': configuring the scale must not perform or fake a conversion
    quant.check_scale_edits_keep_cache(res, facts)


def p_C09(res, facts, tier):
    from .rules import quant
    quant.check_convert(res, facts, 'C09')
    # (C09 compares with "what a quantizer without history would report", whatever that is: the correctness of the search is
    # C07's / C08's statement; C09 only needs the search not to read the previous conversion: check_search_history_free)
    quant.check_scale_edits_keep_cache(res, facts)
    quant.check_search_history_free(res, facts)


def p_C19(res, facts, tier):
    from .rules import quant
    quant.check_convert(res, facts, 'C19')
    quant.check_tiling(res, facts)


def p_C13(res, facts, tier):
    from .rules import glide
    glide.check_glide(res, facts, 'C13')


def p_C14(res, facts, tier):
    from .rules import glide
    glide.check_glide(res, facts, 'C14')


def p_C15(res, facts, tier):
    from .rules import ribbon
    ribbon.check_poll(res, facts, 'C15')
    ribbon.check_edges_and_value(res, facts, 'C15')
    ribbon.check_sizing(res, facts, 'C15')
    if tier == 'thorough':
        from . import witness
        witness.run_witnesses(res, ['W2'])


def p_C16(res, facts, tier):
    from .rules import ribbon
    ribbon.check_poll(res, facts, 'C16')
    ribbon.check_edges_and_value(res, facts, 'C16')
    ribbon.check_sizing(res, facts, 'C16')
    if tier == 'thorough':
        from . import witness
        witness.run_witnesses(res, ['W2'])


def p_C17(res, facts, tier):
    from .rules import panic, dds
    panic.check_panics(res, facts)
    # liveness of the timed envelope phases (increment >= 1, roll-over detection sound)
    dds.check_tick(res, facts, 'C17')
    dds.check_pa_methods(res, facts, dds.LFO, 'C17')


def p_C20(res, facts, tier):
    from .rules import clamp
    clamp.check_clamps(res, facts, tier)


PROPS = {
    'C20': dict(undecided='nothing', fn=p_C20, level='proof', explanation='Each clamping conversion is evaluated on the partition {below, inside, above, NaN} of all f32 inputs (+-inf included in the outer parts): result is the bound / the input / the bound / a bound, and for an out-of-range argument the whole converted object (every field, including quantities cached beside the clamped value) equals the object the bound itself converts to; Note and channel clamps on {<= limit, > limit}; the newtypes are constructed only inside their validating constructors (or from in-range constants) and their field is private; the envelope stores exactly the converted value. Thorough tier adds compile-fail witnesses (private constructor / field).'),
    'C17': dict(undecided='panics inside trusted container code (heapless)', fn=p_C17, level='proof', explanation='Every public entry point of the six modules is analysed from abstract pre-states over the documented (finite) argument ranges (parser-state x byte-class partitions for MIDI); every Assert terminator and explicit panic met becomes an obligation, all are discharged; all reachable Assert sites are visited (coverage floor); every loop is driven by a bounded iterator. Class invariants are an assume/guarantee device: accumulator <= mask, LFO increment <= 2^T, scale mask in [1,4095] and saturated ribbon counters are needed on the pinned tree; the others (gate <=> held list non-empty, edge latches, note numbers <= 127, pressing => buffer full, stored envelope increment bounded) are assumed only when some panic obligation cannot be discharged without them, and whatever is assumed is re-established on every post-state (R-INV). Termination of the envelope: legal order of the phases on tick, no missed wrap, strict progress while staying, increment >= 1, the unchecked addition fits (how long a phase lasts is the statement of C02 and is not judged). R-PANIC is the only judge of panicking paths: the other properties are decided on the returning paths.'),
    'C15': dict(undecided='nothing', fn=p_C15, level='proof', explanation='Effect summary of poll() over (in range?) x (settling count reached?) x (buffer full?) x (pressing, just_pressed, just_released): every out-of-range path releases, zeroes both progress counters and latches the release edge; in-range paths advance the counters by one (saturating), store the sample iff settled, and raise the press exactly when the fill counter reaches the capacity; getters return and clear. The run-length statement follows by induction on the counters.'),
    'C16': dict(undecided='the exact f32 value of the mean; heapless ring order is trusted', fn=p_C16, level='other', explanation='current_val is written only in the buffer-full block as E(a), a = sum(take(oldest_ordered(buffer after this write), N-discard))/(N-discard) (container terms), retained on every other path; value() = current_val/boundary; E is monotone with 0 <= E(a) <= a on the parameter box; counters restart after every out-of-range sample so no earlier press contributes; constructor discard count agrees with the capacity helper (N = main+discard+1). heapless ring order is trusted; the exact f32 mean is not decided.'),
    'C13': dict(undecided='f32 quantisation of the filter state near convergence', fn=p_C13, level='proof', explanation='For the constructor and for set_time over a partition of t in [0,inf) that carries the cutoff/sample-rate relation exactly (t=0; 0<t<1/max_fc as tau/fs; t=1/max_fc; 1/max_fc<t<1/min_fc as 1/(u*fs), u=f0/fs; t=1/min_fc; t>1/min_fc; max_fc/fs read from the design of the constructor), the coefficient terms produced by the dependency design (its own MIR) are, after clearing the common denominator, a convex combination: b0,b1,-a1 >= 0, sum 1, pole -a1 < 1, a2=b2=0; process() is the five-term recurrence on (input, previous input, previous output) and set_time touches nothing but the coefficients. Hence no overshoot/ringing for any history and contraction for constant input, over the reals.'),
    'C14': dict(undecided='f32 rounding of the coefficients inside the response lemma', fn=p_C14, level='other', explanation='set_time is ignored exactly on paths implying |t - cached_t| <= 0.05 and then writes nothing; otherwise cached_t := t together with the coefficients, whose design argument is pi*clamp(1/t, 0.1 Hz, max_fc)/fs per partition of t. The response percentages are decided as a lemma about these formulas by interval arithmetic over n = t*fs (R-RESPONSE), over the reals.'),
    'C07': dict(undecided='nothing (one reasoned exception: the zero-initialised search result, excluded by the mask invariant)', fn=p_C07, level='proof', explanation='Mask invariant allowed in [1,4095] is inductive over new/allow/forbid (Kleene iteration over the note slice, slice length partitioned 0 / >=1), forbid rescues the LAST note; every Note is a pitch class 0..11; the hysteresis early return is taken only on paths that imply the cached pitch class (note mod 12) is enabled now; every value find_nearest_note can return is the note of an enabled candidate (loop invariant: the recorded best is always pc*H+k*O with pc enabled, checked inductive over both back edges).'),
    'C08': dict(undecided='the hand-written nearest-note lemma that combines the decided premises (DESIGN §6 C08); f32 rounding of v*10^6 beyond the stated 10 uV tolerance', fn=p_C08, level='other', explanation='Every premise of the nearest-note lemma is decided from the MIR: (P1) candidates are visited in strictly ascending voltage: octaves exactly k-1 (if it exists), k, k+1 (if it exists) ascending, pitch classes 0..12 ascending, 11*H < O; (P2, R-ARGMIN) one iteration of the scan, from an ARBITRARY accumulator state, is one step of a running arg-min over |vin - candidate| with sound early exits: a disabled pitch class changes nothing; a candidate within one half step can only be returned itself; the best so far is returned early only when the current candidate is farther; the accumulators are updated together to (candidate, |vin - candidate|) and only when that is not farther than the best so far; (P3) every returned note is the visited candidate or the recorded best, the search input is the clamped input, microvolt constants consistent (drift < 10 uV); (P4) configuring the scale does not touch the conversion cache. The lemma (ascending candidates + these step rules => nearest allowed note with the semitone-bucket exception, ties either way, same in every octave) is a written proof, not machine-checked.'),
    'C09': dict(undecided='monotonicity of the note sequence (depends on C08 optimality)', fn=p_C09, level='other', explanation='convert(): early return exactly on paths implying (pitch class enabled) and stairstep-H < v < stairstep+W+H, rewriting only the fraction; every other path re-searches with the clamped input and its result carries no symbol of the previous conversion, and the search itself reads nothing of the previous conversion (history-free); the freshly constructed quantizer cannot take the early return. Whether the search finds the right note is the statement of C07 / C08 and is not judged. Monotonicity of the note sequence depends on C08 optimality and is not decided.'),
    'C19': dict(undecided='sufficiency for the chromatic [0,1)-semitone clause (only the necessary tiling condition R-TILING is decided: it FAILS on the pinned tree and is recorded as a known finding) and the two-ulp reproduction statement', fn=p_C19, level='other', explanation='On both return paths the record returned is the cached record, stairstep = note_num/12 is re-established whenever the note is written, fraction = v - stairstep (raw input on the hysteresis path, clamped input otherwise), early-return fraction within (-H, W+H). Chromatic clause: the necessary conditions that the input is truncated (not rounded) onto the microvolt grid and that twelve pitch-class steps of the candidate term fill one octave step exactly (R-TILING) are decided; the second fails on the pinned tree (12*83333 uV < 1 V: known finding, see known_findings.json). The two-ulp statement is not decided.'),
    'C01': dict(undecided='bit-exact f32 statements ("exactly 1.0" is decided as P = 1 over the reals with the last table entry exactly 1.0)', fn=p_C01, level='other', explanation='calc_value per state and table-cell partition equals the documented blend start + (target-start)*sample as an exact polynomial term; its range over the invariant box (latched levels, sustain, table values in [0,1]) is [0,1] by vertex evaluation; start/end levels per phase; tables are the documented RC curves (node error + curvature bound); latches copy the output level; phases are entered in order, advance exactly on the wrap of the accumulated phase and restart at phase 0 (premises shared with C02); a gate event is either ignored or starts a proper new segment from the level currently output. The rate at which a phase runs is the statement of C02 and is not judged here. f32 rounding (<= 2 ulp) is not decided.'),
    'C02': dict(undecided='the tick-count inequality as a number (follows from the decided premises by the written lemma) and f32 rounding of the increment', fn=p_C02, level='other', explanation='Complete transition relation of gate_on/gate_off/tick (5 states x 3 methods, timed states forked on roll-over) against the C02 table; every timed tick programs trunc(2^24/(time*fs)) of its own phase; roll-over is implied exactly by acc+inc > mask on the advancing path and excluded on the staying path; increment >= 1 over all legal times (range computed from TimePeriod::from) and sample rates; the constructor stores exactly the sample rate it is given (R-NEW). The tick-count inequality follows from these premises by the written lemma (DESIGN §6 C02).'),
    'C03': dict(undecided='f32 rounding of the interpolation (<= 2 ulp)', fn=p_C03, level='proof', explanation='index() is the top 10 bits and fraction() the low 14 bits scaled to [0,1] (DDS pair terms); calc_value interpolates between adjacent cells (clamped at the end) in every timed state; gate events latch the level currently output and restart at phase 0; tick always recomputes the output from the post-state; table end points meet at phase boundaries; automatic transitions happen exactly on the wrap and restart at phase 0; integer -> f32 conversions in the accessors are exact. Over the reals; f32 rounding of the interpolation not decided.'),
    'C10': dict(undecided='nothing structural; f32 exactness of the saw/triangle arithmetic is argued (dyadic values), not machine-checked', fn=p_C10, level='proof', explanation='Lfo::get per waveshape over the symbolic accumulator: exact saw/square/triangle terms with their guards implied by the path conditions, all ranges within [-1,1]; the sine is judged by its stated tolerance: the extracted term is evaluated for each of the 1024 table cells (table entries folded in) and stays within 0.0125 of sin(2*pi*phase) (R-SINE); table within 0.0125 of sin incl. curvature; get() is read-only; accumulator stays <= mask for every increment; the integer -> f32 conversion of the ramp is exact (range within 2^24).'),
    'C11': dict(undecided='the numeric error bounds (2^-23 relative, one counter step) and long-run drift (lemma on the decided formulas)', fn=p_C11, level='other', explanation='Effect summaries as terms: reset -> 0; set_phase -> trunc(mask*(|p| mod 1)) or anything within 2^-22 cycle of frac(p); tick -> (acc+inc) mod 2^24; set_frequency writes only increment = trunc(2^24*f/fs) (or within the rounding the statement allows); Lfo methods forward unchanged; the phase is what get(UpSaw) shows (within 2^-23); Lfo::new stores the sample rate it is given (R-NEW). The numeric error bounds (2^-23 relative, one counter step) follow from these formulas by the written lemma (not machine-checked).'),
    'C12': dict(undecided='nothing structural (two f32 ulps allowed by the statement)', fn=p_C12, level='proof', explanation='Sine = piecewise-linear interpolation with neighbour (I+1) mod N and fraction = low bits (so adjacent phases meet, cell N-1 joins cell 0), |tbl[N-1]-tbl[0]| <= 1e-6, max cell slope <= 2*pi*1.002; triangle pieces have slopes +-4 with guards at 1/4 and 3/4 and agree at the joints. Over the reals (plus two f32 ulps allowed by the statement).'),
    'C04': dict(undecided='nothing beyond the heapless container semantics (trusted)', fn=p_C04, level='other', explanation='Effect summaries of MonoMidiReceiver::parse for every note/All-Notes-Off message over all pre-state partitions (held-list length class x latches x modes x priority) are compared with the transition table of C04 as container terms (push/retain/clear, last/max/min); gate<=>non-empty is checked as an inductive invariant. The step from the per-message table to whole streams is induction over messages (written argument, DESIGN §6 C04).'),
    'C05': dict(undecided='nothing', fn=p_C05, level='proof', explanation='Typestate extraction: exact boolean effect summaries of parse()/rising_gate()/falling_gate() over every abstract pre-state satisfying the class invariants, compared with the C05 transition table; invariants rising=>gate, falling=>!gate and gate<=>held list non-empty re-established on every post-state; messages that must be ignored (other channel, unsupported) change no latch (R-FRAME).'),
    'C06': dict(undecided='end-to-end equality with a reference decoder on arbitrary streams (decided as parser table AND receiver guards AND handler summaries)', fn=p_C06, level='other', explanation='Receiver: every message variant on a foreign channel / unsupported variant / no message leaves all fields but the parser unchanged; every non-real-time byte class is forwarded unmodified exactly once. Parser (dependency MIR): 17 states x 24 byte classes against the MIDI 1.0 framing table. Unsupported controller numbers change nothing; the handlers return and leave the byte parser alone (what applying a note message does is the statement of C04 / C05). Never panics: R-PANIC over parser states x byte classes x held-list length classes; a class invariant is assumed in the pre-states only when a panic obligation needs it (and is then re-established by R-INV); plus the assertions of the dependency parser. End-to-end equality with a reference decoder is the conjunction of these tables with the C04/C05/C18 handler summaries (not decided end-to-end).'),
    'C18': dict(undecided='nothing', fn=p_C18, level='proof', explanation='Effect summary of the ControlChange arm for a symbolic controller number and value, per dispatch arm, against the routing table of C18; reset_controllers vs constructor defaults; pitch-bend term through the dependency conversion (two pieces), monotone with MSB weight 128 x LSB; every getter returns the stored value; controller and pitch-bend messages of other channels change nothing.'),
}

DEFAULT_NOTE = ('Trusted base: rustc MIR construction and const evaluation; the library models of sa/models.py; the analyser itself. '
                'Floats are reasoned about over the reals (rounding slack as stated in DESIGN.md). Decides the clauses listed in DESIGN.md §6 for this property; '
                'clauses listed there as not decided are not claimed.')
NOT_APPLICABLE = {}

ASSUMPTIONS = {
    'common': ['library models as listed in trusted_base (sa/models.py)', 'f32 arithmetic reasoned about over the reals unless a rule states its slack'],
    'midi': ['midi_types newtypes hold 7-bit / 4-bit values (established by R-PARSER in C06: constructed from data bytes < 0x80 and byte & 0x0F)',
             'at most 32 outstanding note-ons for the list clauses (the property\'s own bound); push on a full list is analysed as "unchanged"'],
    'ranges': ['documented argument ranges of C17: sample rates in [100 Hz, 192 kHz], glide times >= 0, ribbon samples in [0,1], LFO frequency in [0, fs]',
               'TimePeriod / SustainLevel / Note ranges are computed from their own conversion functions, not assumed'],
    'ribbon': ['buffer capacity N is the helper\'s value for the same sample rate (discard < N); error_const in [0,1] (pull-up >= divider resistance)'],
}
PROP_ASSUMPTIONS = {
    'C01': ['ranges'], 'C02': ['ranges'], 'C03': ['ranges'], 'C04': ['midi'], 'C05': ['midi'], 'C06': ['midi'], 'C07': [], 'C08': [], 'C09': [],
    'C10': ['ranges'], 'C11': ['ranges'], 'C12': ['ranges'], 'C13': ['ranges'], 'C14': ['ranges'], 'C15': ['ribbon'], 'C16': ['ribbon'],
    'C17': ['ranges', 'midi', 'ribbon'], 'C18': ['midi'], 'C19': [], 'C20': [],
}


def _apply_and_analyse(prop, spec, patch):
    """copy /repo's current source, apply `patch`, extract, run the property's rules: returns
    ('skipped', reason) | ('ran', [violations], facts_key)"""
    import shutil, subprocess, tempfile
    tmp = tempfile.mkdtemp(prefix='control-')
    try:
        for item in ('src', 'Cargo.toml', 'Cargo.lock', 'README.md'):
            src = os.path.join(REPO, item)
            if os.path.isdir(src):
                shutil.copytree(src, os.path.join(tmp, item))
            elif os.path.exists(src):
                shutil.copy(src, os.path.join(tmp, item))
        r = subprocess.run(['patch', '-p1', '--no-backup-if-mismatch', '-s', '-i', patch], cwd=tmp, stdout=subprocess.PIPE, stderr=subprocess.STDOUT, text=True)
        if r.returncode != 0:
            return ('skipped', 'patch does not apply to the current tree')
        try:
            cfacts, ckey, secs, cached = extract('dev', use_cache=True, repo=tmp)
        except FactsError as e:
            return ('skipped', 'patched tree does not build (%s)' % str(e)[:160])
        cres = Result(prop)
        try:
            spec['fn'](cres, cfacts, 'quick')
            from .rules import api as _api
            _api.check_api(cres, cfacts, prop)
        except (InterpError, FactsError) as e:
            cres.ob('ANALYSIS', 'control', False, str(e))
        except Exception as e:      # an analysis that breaks on the changed code reports the change (fail closed), never crashes the check
            cres.ob('ANALYSIS', 'control', False, 'internal error on the patched copy: %r' % (e,))
        return ('ran', cres.violations(), ckey)
    finally:
        shutil.rmtree(tmp, ignore_errors=True)


def run_control(res, prop, spec, tier):
    """E4 positive control: the same rules must FIRE on a copy of /repo's current tree with a known violating change
    applied (controls/<prop>.diff).  A control whose patch no longer applies is skipped (recorded), one that applies
    but is not reported fails the check closed.  The thorough tier additionally replays every stored seeded change of
    this property (seeded/<prop>_k/patch.diff) the same way."""
    patch = os.path.join(VERIF, 'controls', prop + '.diff')
    if not os.path.exists(patch):
        res.extra['control'] = 'none'
        return
    out = _apply_and_analyse(prop, spec, patch)
    tried = [('controls/%s.diff' % prop, out)]
    if out[0] == 'skipped' or not out[1]:
        # The primary control does not apply to this tree, or the tree itself neutralises it (a change elsewhere can make
        # the control harmless: e.g. a floor on the increment makes "longer maximum time" safe).  Before declaring the rule
        # set blind, fall back to stored seeded changes of this property (different sites): blind = none of up to three
        # applicable known-bad changes is reported.
        sdir = os.path.join(VERIF, 'seeded')
        names = sorted((n for n in os.listdir(sdir) if n.startswith(prop + '_')), key=lambda n: int(n.rsplit('_', 1)[1])) if os.path.isdir(sdir) else []
        ran = 0
        for name in names:
            if ran >= 3:
                break
            o2 = _apply_and_analyse(prop, spec, os.path.join(sdir, name, 'patch.diff'))
            if o2[0] == 'skipped':
                continue
            ran += 1
            tried.append(('seeded/%s/patch.diff' % name, o2))
            if o2[1]:
                break
    ran_ = [(n, o) for n, o in tried if o[0] == 'ran']
    if not ran_:
        res.extra['control'] = 'skipped: ' + out[1]
    else:
        name, o = next(((n, o) for n, o in ran_ if o[1]), ran_[0])
        fired = o[1]
        res.extra['control'] = {'patch': name, 'violations_reported_on_control': len(fired),
                                'first': fired[0].to_json() if fired else None, 'facts_key': o[2],
                                'controls_tried': [n for n, _ in tried]}
        res.ob('CONTROL', 'rules fire on a known-bad twin (%s)' % name, bool(fired),
               ('%d violation(s) reported on the control, first: %s' % (len(fired), fired[0].instance[:120])) if fired else
               'no positive control was reported (%s): the rule set for %s has gone blind' % (', '.join(n for n, _ in ran_), prop), key='CONTROL:' + prop, nontrivial=False)
    if tier != 'thorough':
        return
    replay = {}
    sd = os.path.join(VERIF, 'seeded')
    for name in sorted(os.listdir(sd)) if os.path.isdir(sd) else []:
        if not name.startswith(prop + '_'):
            continue
        try:
            meta = json.load(open(os.path.join(sd, name, 'meta.json')))
        except Exception:
            meta = {}
        if meta.get('not_claimed_by_own_check'):
            # filed under this property by its author, but the statement of this property does not cover what it breaks
            # (DESIGN 10.4): replayed by the properties that do claim it, not here
            replay[name] = 'not claimed: ' + meta['not_claimed_by_own_check']
            continue
        out = _apply_and_analyse(prop, spec, os.path.join(sd, name, 'patch.diff'))
        if out[0] == 'skipped':
            replay[name] = 'skipped: ' + out[1]
            continue
        fired = out[1]
        replay[name] = {'violations': len(fired), 'first': fired[0].to_json() if fired else None}
        res.ob('CONTROL', 'seeded change %s is reported' % name, bool(fired), 'a confirmed violating change of %s is no longer reported' % prop,
               key='CONTROL:%s' % name, nontrivial=False)
    res.extra['seeded_replay'] = replay


def main(argv):
    if not argv:
        print(__doc__)
        return 2
    prop = argv[0]
    tier = os.environ.get('VERIF_TIER', 'quick')
    if '--tier' in argv:
        tier = argv[argv.index('--tier') + 1]
    if '--explain' in argv:
        p = argv[argv.index('--explain') + 1]
        d = json.load(open(p))
        print('property %s, tier %s, facts %s' % (d['property'], d['tier'], d['facts_key']))
        for v in d['violations']:
            print('- [%s] %s\n    %s\n    at %s   (key %s)' % (v['rule'], v['instance'], v['detail'], v['where'], v['key']))
        return 0
    seed = int(os.environ.get('VERIF_SEED', '0') or 0)
    if prop not in PROPS:
        print('unknown property %s' % prop)
        return 2
    t0 = time.time()
    res = Result(prop)
    spec = PROPS[prop]
    key = '?'
    facts = None
    try:
        facts, key, secs, cached = extract('dev', use_cache=(tier == 'quick'), repo=REPO)
        res.extra['extraction_s'] = round(secs, 2)
        res.extra['facts_cached'] = cached
        if getattr(facts, 'field_aliases', None):
            res.extra['renamed_private_fields_located'] = facts.field_aliases
        from .rules import common as _common
        _common.PANIC_POLICY[0] = 'judge' if prop == 'C17' else 'skip'
        _common.PANICS_LEFT_TO_C17[0] = 0
        spec['fn'](res, facts, tier)
        from .rules import api as _api
        _api.check_api(res, facts, prop)
        if _common.PANICS_LEFT_TO_C17[0]:
            res.extra['panicking_paths_not_judged_here'] = '%d abstract path(s) end in an explicit panic / failed assertion; "no operation panics" is decided by C17 (R-PANIC), this property is decided on the returning paths' % _common.PANICS_LEFT_TO_C17[0]
    except FactsError as e:
        res.ob('FACTS', 'extraction/anchors', False, str(e), key='FACTS')
    except InterpError as e:
        res.ob('ANALYSIS', 'interpreter', False, 'analysis aborted: %s' % e, key='ANALYSIS')
    except Exception as e:
        traceback.print_exc()
        res.ob('ANALYSIS', 'internal', False, 'internal error: %r' % (e,), key='ANALYSIS-INTERNAL')
    if facts is not None and getattr(facts, 'fallback_consts', None):
        res.extra['constants_not_found_spec_value_used'] = sorted(facts.fallback_consts)
    if facts is not None and getattr(facts, 'frozen_links', None):
        res.extra['constructor_only_fields_linked'] = facts.frozen_links
    from .core import load_known
    known_keys = {k.get('key') for k in load_known() if k.get('status') == 'known' and k.get('property') == prop}
    if not [v for v in res.violations() if v.key not in known_keys]:
        run_control(res, prop, spec, tier)
    assumptions = list(ASSUMPTIONS['common'])
    for g in PROP_ASSUMPTIONS.get(prop, []):
        assumptions += ASSUMPTIONS[g]
    return finish(res, tier, spec['level'], t0, key, assumptions + spec.get('assumptions', []),
                  spec['explanation'], TRUSTED, seed)
