"""E1: abstract interpreter over the MIR facts.

Forward abstract interpretation with full trace partitioning on loop-free code (every branch
whose condition the abstract state cannot decide splits the state; the two halves carry the
guard as an order fact), inlining of every callee whose MIR is in the facts, library models
for the rest, and a havoc abstraction at loop heads (every place assigned in the loop is
replaced by a fresh symbol of its type before one symbolic pass over the body).

No solver: guards are decided by interval evaluation of terms and by matching order facts
(terms.Ctx).  The result of analysing an entry function is a list of Outcomes: abstract
post-state, return value, guard facts, and the panic obligations met on the way.
"""
import copy
import json
from fractions import Fraction as Fr

from .terms import (Poly, B, Ctx, NAN, ZERO, ONE, INF, TRUE, FALSE, as_poly, bconst, bnot, band, bor,
                    cmp_term, t_div, t_idiv, t_mod, t_min, t_max, t_abs, t_tbl, t_f2i, t_bitand,
                    t_bitor, t_bitxor, t_shl, t_shr, t_frem, t_app, b_app, float_const, inv_poly)

INT_RANGES = {
    'u8': (0, 2 ** 8 - 1), 'u16': (0, 2 ** 16 - 1), 'u32': (0, 2 ** 32 - 1), 'u64': (0, 2 ** 64 - 1),
    'u128': (0, 2 ** 128 - 1), 'usize': (0, 2 ** 64 - 1),
    'i8': (-2 ** 7, 2 ** 7 - 1), 'i16': (-2 ** 15, 2 ** 15 - 1), 'i32': (-2 ** 31, 2 ** 31 - 1),
    'i64': (-2 ** 63, 2 ** 63 - 1), 'i128': (-2 ** 127, 2 ** 127 - 1), 'isize': (-2 ** 63, 2 ** 63 - 1),
}


class InterpError(Exception):
    pass


# returned by a library model that has nothing to say about this call in this state: the call gets the default treatment
DECLINE = object()


# ---------------------------------------------------------------------------------------
# values

class V:
    pass


class Num(V):
    def __init__(self, term, ty):
        self.term = as_poly(term)
        self.ty = ty

    def __repr__(self):
        return '%r:%s' % (self.term, self.ty)


class BoolV(V):
    def __init__(self, b):
        self.b = b

    def __repr__(self):
        return repr(self.b)


class UnitV(V):
    def __repr__(self):
        return '()'


class StructV(V):
    """struct value.  `paths` (optional) maps a canonical field name of the pinned tree to the index path at which that piece
    of private state now lives inside nested private structs (fields grouped into a sub-struct / wrapped in a newtype, see
    Facts._canonicalise_fields): `get` / `set` / `has` accept both kinds of name."""

    def __init__(self, path, names, fields, targs=None, paths=None, codecs=None):
        self.path = path
        self.names = names
        self.fields = fields
        self.targs = targs
        self.paths = paths
        self.codecs = codecs    # canonical bool field held as a private two-variant enum: name -> {'enum', 'true', 'vnames'}

    def has(self, name):
        return name in self.names or bool(self.paths and name in self.paths)

    def get(self, name):
        if self.paths and name in self.paths:
            cur = self
            for i in self.paths[name]:
                cur = cur.fields[i]
            return cur
        v = self.fields[self.names.index(name)]
        c = (self.codecs or {}).get(name)
        if c and c.get('true') is not None and isinstance(v, EnumV) and v.variant is not None:
            # the rules read the flag; the object holds one of two named states
            return BoolV(bconst(v.variant == c['true']))
        return v

    def set(self, name, v):
        c = (self.codecs or {}).get(name)
        if c and c.get('true') is not None and isinstance(v, BoolV) and v.b.value() is not None:
            vi = c['true'] if v.b.value() else 1 - c['true']
            v = EnumV(c['enum'], vi, {vi: []}, vnames=c['vnames'])
        if self.paths and name in self.paths:
            cur = self
            for i in self.paths[name][:-1]:
                cur = cur.fields[i]
            cur.fields[self.paths[name][-1]] = v
            return
        self.fields[self.names.index(name)] = v

    def path_names(self):
        """dotted actual-name path -> canonical name, for translating write sets"""
        out = {}
        for cn, pth in (self.paths or {}).items():
            cur, parts = self, []
            for i in pth:
                parts.append(cur.names[i])
                cur = cur.fields[i]
            out['.'.join(parts)] = cn
        return out

    def __repr__(self):
        return '%s{%s}' % (self.path.split('::')[-1], ', '.join('%s: %r' % (n, f) for n, f in zip(self.names, self.fields)))


class LazyV(V):
    """value of a type we have no layout for: fields are materialised on first access"""

    def __init__(self, ty, name):
        self.ty = ty
        self.name = name
        self.fields = {}

    def __repr__(self):
        return 'lazy<%s>%r' % (self.ty if isinstance(self.ty, str) else self.ty.get('s'), self.fields)


class EnumV(V):
    def __init__(self, path, variant=None, payload=None, possible=None, name=None, vnames=None, targs=None, disc=None):
        self.path = path
        self.variant = variant      # int when known
        self.payload = payload or {}  # variant -> list[V]
        self.possible = possible    # list of ints when symbolic
        self.name = name
        self.vnames = vnames
        self.targs = targs
        self.disc = disc            # Poly symbol of the discriminant when symbolic

    def __repr__(self):
        if self.variant is not None:
            vn = self.vnames[self.variant] if self.vnames else str(self.variant)
            return '%s::%s%r' % (self.path.split('::')[-1], vn, tuple(self.payload.get(self.variant, [])))
        return '%s::?%s' % (self.path.split('::')[-1], self.possible)


class TupleV(V):
    def __init__(self, items):
        self.items = items

    def __repr__(self):
        return '(%s)' % ', '.join(repr(i) for i in self.items)


class RefV(V):
    def __init__(self, cell, proj=(), mut=False):
        self.cell = cell
        self.proj = tuple(proj)
        self.mut = mut

    def __repr__(self):
        return '&%s%s%s' % ('mut ' if self.mut else '', self.cell, ''.join('.%s' % (p,) for p in self.proj))


class ArrV(V):
    def __init__(self, table=None, items=None):
        self.table = table
        self.items = items

    def __repr__(self):
        return 'table<%s>' % self.table if self.table else 'arr%r' % (self.items,)


class FnV(V):
    def __init__(self, path, args=None):
        self.path = path
        self.args = args

    def __repr__(self):
        return 'fn<%s>' % self.path


class ClosureV(V):
    def __init__(self, path, caps):
        self.path = path
        self.caps = caps

    def __repr__(self):
        return 'closure<%s>%r' % (self.path, self.caps)


class ContV(V):
    """abstract container (heapless Vec / HistoryBuffer / slice / iterator): an uninterpreted
    structure term plus a length term"""

    def __init__(self, kind, term, length=None, cap=None, elem_ty=None, extra=None):
        self.kind = kind
        self.term = term
        self.len = length
        self.cap = cap
        self.elem_ty = elem_ty
        self.extra = extra or {}

    def __repr__(self):
        return '%s<%r len=%r>' % (self.kind, self.term, self.len)


class LazyIterV(V):
    """a lazy iterator adaptor chain (map / filter / flatten / flat_map / chain / ... over a bounded source), kept as the
    expression that built it.  `next()` yields None or an ARBITRARY element of the sequence it denotes (models.m_lazy_next):
    order and multiplicity are abstracted away, membership is exact."""

    def __init__(self, kind, inner=None, clo=None, other=None):
        self.kind = kind
        self.inner = inner
        self.clo = clo
        self.other = other

    def __repr__(self):
        return 'lazyiter<%s %r%s>' % (self.kind, self.inner, (' + %r' % (self.other,)) if self.other is not None else '')


class Opaque(V):
    def __init__(self, ty, tag=''):
        self.ty = ty
        self.tag = tag

    def __repr__(self):
        return 'opaque<%s %s>' % (self.ty if isinstance(self.ty, str) else self.ty.get('s'), self.tag)


def is_scalar_ty(ty):
    return ty['k'] in ('int', 'uint', 'float', 'bool', 'char')


# ---------------------------------------------------------------------------------------

class Frame:
    __slots__ = ('fn', 'body', 'locals', 'bb', 'genv', 'dest', 'ret_target', 'entered_loops', 'is_promoted', 'depth', 'loop_summaries', 'concrete_loops', 'resume')

    def __init__(self, fn, body, genv, depth):
        self.fn = fn
        self.body = body
        self.locals = {}      # local index -> cell id
        self.bb = 0
        self.genv = genv
        self.dest = None      # (slot) to write the return value into in the caller
        self.ret_target = None
        self.entered_loops = set()
        self.is_promoted = False
        self.depth = depth
        self.loop_summaries = {}   # loop head -> [(place json, term, ty)] applied when the loop is left
        self.concrete_loops = {}   # loop head -> iterations executed so far (loops over short constant-length sequences are unrolled)
        self.resume = 0            # statement index to continue at after a case split inside the current block


class SplitRequest(Exception):
    """raised while a statement is evaluated: the analysis continues separately under each of `conds` (exhaustive), starting
    again at that statement (a table indexed by a truth value or by a value with a handful of possibilities)"""

    def __init__(self, conds):
        Exception.__init__(self, 'case split')
        self.conds = conds


class Obligation:
    def __init__(self, kind, fn, span, detail, status, key):
        self.kind = kind
        self.fn = fn
        self.span = span
        self.detail = detail
        self.status = status   # 'discharged' | 'violated' | 'unknown'
        self.key = key

    def __repr__(self):
        return 'Obl(%s %s %s %s %s)' % (self.kind, self.fn, self.span, self.status, self.detail)


class State:
    def __init__(self):
        self.cells = {}
        self.next_cell = 0
        self.frames = []
        self.ctx = Ctx()
        self.obligations = []
        self.status = 'running'   # running | returned | panic | loopback | stuck
        self.ret = None
        self.notes = []           # unmodelled calls etc.
        self.trace = []           # (fn, bb) visited — for reports
        self.panic_info = None
        self.calls = []           # (caller, callee path, span) resolved call sites met
        self.fresh = 0
        self.tags = {}            # rule-owned annotations (copied on fork), e.g. the loop head a back edge returned to

    def fork(self):
        s = State.__new__(State)
        memo = {}
        s.cells = copy.deepcopy(self.cells, memo)
        s.next_cell = self.next_cell
        s.frames = []
        for f in self.frames:
            nf = Frame(f.fn, f.body, f.genv, f.depth)
            nf.locals = dict(f.locals)
            nf.bb = f.bb
            nf.dest = copy.deepcopy(f.dest, memo)
            nf.ret_target = f.ret_target
            nf.entered_loops = set(f.entered_loops)
            nf.is_promoted = f.is_promoted
            nf.loop_summaries = dict(f.loop_summaries)
            nf.concrete_loops = dict(f.concrete_loops)
            nf.resume = f.resume
            s.frames.append(nf)
        s.ctx = self.ctx.copy()
        s.obligations = list(self.obligations)
        s.status = self.status
        s.ret = None
        s.notes = list(self.notes)
        s.trace = list(self.trace)
        s.panic_info = None
        s.calls = list(self.calls)
        s.fresh = self.fresh
        s.tags = dict(getattr(self, 'tags', {}))
        s.probe = getattr(self, 'probe', None)
        s.last_iter_elem = getattr(self, 'last_iter_elem', None)
        return s

    def new_cell(self, v=None):
        c = 'c%d' % self.next_cell
        self.next_cell += 1
        self.cells[c] = v
        return c

    def fresh_name(self, base):
        self.fresh += 1
        return '%s#%d' % (base, self.fresh)


class Outcome:
    def __init__(self, state):
        self.status = state.status
        self.ret = state.ret
        self.ctx = state.ctx
        self.cells = state.cells
        self.obligations = state.obligations
        self.notes = state.notes
        self.trace = state.trace
        self.panic_info = state.panic_info
        self.calls = state.calls
        self.state = state


class Interp:
    def __init__(self, facts, models=None, max_depth=12, max_states=20000):
        self.facts = facts
        from . import models as M
        self.models = M.registry() if models is None else models
        self.max_depth = max_depth
        self.max_states = max_states
        self.no_inline = set()      # callee paths to model as opaque (rule-provided stubs)
        self.stubs = {}             # callee path -> python function(interp, state, frame, term, args) -> list of (state) or None
        self.stats = {'states': 0, 'blocks': 0, 'inlined': 0, 'modelled': 0, 'unmodelled': 0}
        self.unmodelled = set()
        self.int_float_casts = []   # (function, target type, term, lo, hi) of every int -> float conversion evaluated
        self.models_used = set()
        self.fns_analysed = set()
        self.fixpoint_depth = 0
        self.loop_hook = None       # callable(interp, st, frame, cfg, head): rule-specific loop-head abstraction
        self.loop_rankings = {}     # (fn path, loop head) -> [ranking function found at each analysis of the loop | None]
        self.invariants = {}        # adt path -> callable(st, StructV): constrain field ranges (type invariants)

    def stub_for(self, path):
        if path in self.stubs:
            return self.stubs[path]
        if self.stubs and path.startswith('<synth_utils::') and ' as synth_utils::' in path and '>::' in path:
            # a method that moved into the impl of a private trait for the same type is still `Type::method` for the rules
            from .facts import _tail
            ty = _tail(path[1:].split(' as ')[0], 1).split('<')[0]
            meth = path.rsplit('>::', 1)[1]
            for k, f in self.stubs.items():
                if k.startswith('synth_utils::') and _tail(k, 2).rsplit('::', 1)[0].split('<')[0] == ty and _tail(k, 1) == meth:
                    return f
        if self.stubs and path.startswith('synth_utils::'):
            from .facts import _tail
            t = _tail(path, 2)
            for k, f in self.stubs.items():
                if k.startswith('synth_utils::') and _tail(k, 2) == t:
                    return f
        return None

    def invariant_for(self, path):
        inv = self.invariants.get(path)
        if inv is None and self.invariants and isinstance(path, str) and path.startswith('synth_utils::'):
            from .facts import _tail
            t = _tail(path, 1)
            for k, f in self.invariants.items():
                if k.startswith('synth_utils::') and _tail(k, 1) == t:
                    return f
        return inv

    def bool_codecs(self, adt):
        """flags the rules know as `bool` that the tree holds as a private two-variant enum (Facts._canonicalise_fields step c).  Which
        variant means `true` is read from the code: the method of the same name as the flag (`finger_is_pressing()`,
        `rolled_over()`) is evaluated on an object holding each variant; exactly one of them must return `true`.  No such method, or
        no clear answer: no codec, and the rules fail closed on the missing flag as before."""
        cc = (adt or {}).get('canon_codecs')
        if not cc:
            return None
        for name, c in cc.items():
            if 'true' in c:
                continue
            c['true'] = None
            if getattr(self, 'no_frozen', False):
                continue
            meths = [p for p, f in self.facts.fns.items() if f.get('crate') == 'synth_utils' and p.endswith('::' + name) and f.get('arg_count') == 1
                     and ((f.get('impl_of') or {}).get('self_ty') or {}).get('path') == adt['path'] and (f['locals'][0]['ty'] or {}).get('k') == 'bool']
            if len(meths) != 1:
                continue
            answers = {}
            for vi in (0, 1):
                try:
                    sub = Interp(self.facts, models=self.models, max_states=200)
                    sub.no_frozen = True
                    st = State()
                    st.ctx.tables = self.facts.tables
                    gen = {g['name']: Poly.const(8) for g in (adt.get('generics') or []) if g.get('kind') == 'const'}
                    obj = sub.sym_value(st, {'k': 'adt', 'path': adt['path'], 'args': [{'const': {'int': '8'}} for g in (adt.get('generics') or [])]}, 'probe', None)
                    obj.fields[obj.names.index(name)] = EnumV(c['enum'], vi, {vi: []}, vnames=c['vnames'])
                    cell = st.new_cell(obj)
                    loc1 = self.facts.fns[meths[0]]['locals'][1]['ty']
                    arg = RefV(cell, (), True) if loc1.get('k') in ('ref', 'ptr') else obj
                    outs = sub.run(sub.start(meths[0], [arg], state=st))
                    vals = {o.ret.b.value() for o in outs if o.status == 'returned' and isinstance(o.ret, BoolV)}
                    if len(vals) == 1 and all(o.status == 'returned' for o in outs):
                        answers[vi] = vals.pop()
                except (InterpError, KeyError, IndexError, TypeError, ValueError, AttributeError):
                    pass
            if answers.get(0) is False and answers.get(1) is True:
                c['true'] = 1
            elif answers.get(0) is True and answers.get(1) is False:
                c['true'] = 0
            if c['true'] is not None:
                self.facts.field_aliases.setdefault(adt['path'], {})[name] = '%s (a %s: %s means true, read from %s())' % (
                    c.get('actual_name', name), c['enum'].split('::')[-1], c['vnames'][c['true']], name)
        return cc

    def apply_invariants(self, st, v):
        if isinstance(v, StructV):
            inv = self.invariant_for(v.path)
            if inv is not None:
                inv(st, v)
            for f in v.fields:
                self.apply_invariants(st, f)
        elif isinstance(v, TupleV):
            for f in v.items:
                self.apply_invariants(st, f)

    # ------------------------------------------------------------------ symbolic values by type
    def subst_ty(self, ty, tenv):
        if not tenv:
            return ty
        k = ty['k']
        if k == 'param':
            r = tenv.get(ty['name'])
            if isinstance(r, dict) and 'k' in r:
                return r
            return ty
        if k == 'adt':
            nt = dict(ty)
            nt['args'] = [self.subst_arg(a, tenv) for a in ty['args']]
            return nt
        if k in ('ref', 'ptr', 'slice'):
            nt = dict(ty)
            nt['ty'] = self.subst_ty(ty['ty'], tenv)
            return nt
        if k == 'array':
            nt = dict(ty)
            nt['ty'] = self.subst_ty(ty['ty'], tenv)
            ln = ty['len']
            if isinstance(ln, dict) and 'param' in ln and ln['param'] in tenv:
                nt['len'] = tenv[ln['param']]
            return nt
        if k == 'tuple':
            nt = dict(ty)
            nt['tys'] = [self.subst_ty(t, tenv) for t in ty['tys']]
            return nt
        return ty

    def subst_arg(self, a, tenv):
        if 'ty' in a:
            return {'ty': self.subst_ty(a['ty'], tenv)}
        if 'const' in a:
            c = a['const']
            if isinstance(c, dict) and 'param' in c and c['param'] in tenv:
                r = tenv[c['param']]
                return {'const': r}
            return a
        return a

    def adt_tenv(self, adt, args):
        tenv = {}
        gens = adt['generics']
        for g, a in zip(gens, args):
            if 'ty' in a:
                tenv[g['name']] = a['ty']
            elif 'const' in a:
                tenv[g['name']] = a['const']
        return tenv

    def const_arg_poly(self, c, genv=None):
        """generic const arg json -> Poly (or None)"""
        if isinstance(c, Poly):
            return c
        if not isinstance(c, dict):
            return None
        if 'int' in c:
            return Poly.const(int(c['int']))
        if 'val' in c and isinstance(c['val'], dict) and 'int' in c['val']:
            return Poly.const(int(c['val']['int']))
        if 'param' in c:
            if genv and c['param'] in genv:
                r = genv[c['param']]
                if isinstance(r, Poly):
                    return r
                return self.const_arg_poly(r, None)
            return Poly.sym('param:' + c['param'])
        return None

    def sym_value(self, st, ty, name, genv=None, depth=0):
        """fresh symbolic value of a type; symbols are named after the access path"""
        k = ty['k']
        if k in ('int', 'uint'):
            lo, hi = INT_RANGES[ty['n']]
            a = ('sym', name)
            if a not in st.ctx.ranges:
                st.ctx.ranges[a] = (Fr(lo), Fr(hi))
            st.ctx.int_atoms.add(a)
            return Num(Poly.atom(a), ty['n'])
        if k == 'float':
            a = ('sym', name)
            if a not in st.ctx.ranges:
                st.ctx.ranges[a] = (-INF, INF)
            return Num(Poly.atom(a), ty['n'])
        if k == 'bool':
            return BoolV(B(('sym', name)))
        if k == 'char':
            return Num(Poly.sym(name), 'u32')
        if k == 'tuple':
            if not ty['tys']:
                return UnitV()
            return TupleV([self.sym_value(st, t, '%s.%d' % (name, i), genv, depth + 1) for i, t in enumerate(ty['tys'])])
        if k == 'adt':
            path = ty['path']
            adt = self.facts.adts.get(path)
            if adt is None:
                return self.sym_foreign(st, ty, name, genv)
            tenv = self.adt_tenv(adt, ty['args'])
            if genv:
                # resolve params of the enclosing generic context
                tenv = {kk: (self.subst_ty(v, genv) if isinstance(v, dict) and 'k' in v else (genv.get(v['param'], v) if isinstance(v, dict) and 'param' in v else v)) for kk, v in tenv.items()}
            if adt['kind'] == 'struct':
                v = adt['variants'][0]
                names = [f['name'] for f in v['fields']]
                fields = [self.sym_value(st, self.subst_ty(f['ty'], tenv), '%s.%s' % (name, f['name']), tenv, depth + 1)
                          for f in v['fields']]
                sv = StructV(path, names, fields, targs=tenv, paths=adt.get('canon_paths'), codecs=self.bool_codecs(adt))
                for cn, pth in (adt.get('canon_paths') or {}).items():
                    # the relocated leaf gets the symbol name the rules know it by
                    lt = adt.get('canon_leaf_ty', {}).get(cn)
                    if lt is not None:
                        sv.set(cn, self.sym_value(st, self.subst_ty(lt, tenv), '%s.%s' % (name, cn), tenv, depth + 1))
                if not getattr(self, 'no_frozen', False) and adt.get('crate') == 'synth_utils':
                    # fields the constructor sets and nothing writes afterwards carry the constructor's term (sa/frozen.py)
                    from . import frozen
                    frozen.link(self, st, sv, path, tenv, name)
                inv = self.invariant_for(path)
                if inv is not None:
                    inv(st, sv)
                return sv
            else:
                vn = [v['name'] for v in adt['variants']]
                e = EnumV(path, None, {}, list(range(len(vn))), name=name, vnames=vn, targs=tenv)
                return e
        if k == 'array':
            return Opaque(ty, name)
        if k == 'ref':
            inner = ty['ty']
            if inner['k'] == 'slice':
                ln = st.ctx.sym_range('len(%s)' % name, 0, 2 ** 32, integer=True)
                return ContV('slice', ('sym', name), length=ln, elem_ty=inner['ty'])
            cell = st.new_cell(self.sym_value(st, inner, '*' + name, genv, depth + 1))
            return RefV(cell, (), ty.get('mut', False))
        if k == 'param':
            if genv and ty['name'] in genv and isinstance(genv[ty['name']], dict) and 'k' in genv[ty['name']]:
                return self.sym_value(st, genv[ty['name']], name, genv, depth + 1)
        return Opaque(ty, name)

    def sym_foreign(self, st, ty, name, genv):
        path = ty['path']
        if path.startswith('heapless::vec::Vec') or path == 'heapless::Vec':
            ln = st.ctx.sym_range('len(%s)' % name, 0, 2 ** 32, integer=True)
            cap = None
            elem = None
            for a in ty['args']:
                if 'const' in a:
                    cap = self.const_arg_poly(a['const'], genv)
                if 'ty' in a:
                    elem = a['ty']
            if cap is not None and cap.const_value() is not None:
                st.ctx.ranges[('sym', 'len(%s)' % name)] = (Fr(0), cap.const_value())
            return ContV('vec', ('sym', name), length=ln, cap=cap, elem_ty=elem)
        if 'HistoryBuffer' in path:
            cap = None
            for a in ty['args']:
                if 'const' in a:
                    cap = self.const_arg_poly(a['const'], genv)
            # number of samples ever written, saturating at the capacity (HistoryBuffer::len); the iterator adaptors keep
            # working on the uninterpreted term, the fill level is carried beside it
            fill = Poly.sym('fill(%s)' % name)
            fa = fill.as_single_atom()
            st.ctx.int_atoms.add(fa)
            hi_ = cap.const_value() if cap is not None and cap.const_value() is not None else Fr(2 ** 32)
            st.ctx.ranges[fa] = (Fr(0), hi_)
            if cap is not None and cap.const_value() is None:
                st.ctx.assume(cmp_term('Le', fill, cap))
            return ContV('hist', ('sym', name), length=None, cap=cap, extra={'fill': fill})
        if path.startswith('core::option::Option'):
            return EnumV(path, None, {}, [0, 1], name=name, vnames=['None', 'Some'], targs={'T': ty['args'][0].get('ty') if ty['args'] else None})
        return LazyV(ty, name)

    # ------------------------------------------------------------------ memory
    def _step_into(self, st, obj, step, create_ty=None, name_hint=''):
        """navigate one projection step inside a value; returns (container, key) for get/set"""
        kind = step[0]
        if kind == 'field':
            i = step[1]
            if isinstance(obj, StructV):
                return obj.fields, i
            if isinstance(obj, TupleV):
                return obj.items, i
            if isinstance(obj, ClosureV):
                return obj.caps, i
            if isinstance(obj, EnumV):
                v = step[2] if len(step) > 2 else obj.variant
                raise InterpError('field of enum without downcast')
            if isinstance(obj, LazyV):
                if i not in obj.fields:
                    ty = create_ty
                    obj.fields[i] = self.sym_value(st, ty, '%s.%s' % (obj.name, i)) if ty else Opaque('?', obj.name)
                return obj.fields, i
            raise InterpError('field %r of %r' % (step, obj))
        raise InterpError('bad step %r' % (step,))

    def resolve(self, st, frame, place, for_write=False):
        """returns (container, key) such that container[key] is the value of the place"""
        l = place['l']
        if l not in frame.locals:
            frame.locals[l] = st.new_cell(None)
        cont, key = st.cells, frame.locals[l]
        pending_variant = None
        for pe in place['p']:
            k = pe['k']
            cur = cont[key]
            if k == 'deref':
                if isinstance(cur, RefV):
                    cont, key = st.cells, cur.cell
                    for stp in cur.proj:
                        cur2 = cont[key]
                        if stp[0] == 'variant':
                            pending_variant = stp[1]
                            continue
                        if pending_variant is not None and isinstance(cur2, EnumV):
                            pl = self.enum_payload(st, cur2, pending_variant)
                            cont, key = pl, stp[1]
                            pending_variant = None
                        else:
                            cont, key = self._step_into(st, cur2, stp)
                elif isinstance(cur, ContV) and cur.kind == 'slice':
                    pass  # *slice_ref: stay on the container
                else:
                    raise InterpError('deref of non-ref %r (local _%d)' % (cur, l))
            elif k == 'field':
                if pending_variant is not None:
                    if not isinstance(cur, EnumV):
                        raise InterpError('downcast of non-enum %r' % (cur,))
                    pl = self.enum_payload(st, cur, pending_variant, pe.get('ty'), pe['i'])
                    cont, key = pl, pe['i']
                    pending_variant = None
                else:
                    if isinstance(cur, Opaque) or cur is None:
                        # materialise
                        nv = LazyV(cur.ty if isinstance(cur, Opaque) else '?', cur.tag if isinstance(cur, Opaque) else '_%d' % l)
                        cont[key] = nv
                        cur = nv
                    cont, key = self._step_into(st, cur, ('field', pe['i']), pe.get('ty'))
            elif k == 'downcast':
                pending_variant = pe['v']
            elif k == 'index':
                raise InterpError('index projection must be handled by read_place')
            else:
                raise InterpError('unsupported projection %s' % k)
        return cont, key

    def enum_payload(self, st, e, variant, fty=None, fidx=None):
        if variant not in e.payload:
            adt = self.facts.adts.get(e.path)
            if adt is not None:
                v = adt['variants'][variant]
                e.payload[variant] = [self.sym_value(st, self.subst_ty(f['ty'], e.targs or {}), '%s.%s.%d' % (e.name or 'enum', v['name'], i), e.targs)
                                      for i, f in enumerate(v['fields'])]
            else:
                e.payload[variant] = {}
        pl = e.payload[variant]
        if isinstance(pl, dict) and fidx is not None and fidx not in pl:
            pl[fidx] = self.sym_value(st, fty, '%s.%d.%d' % (e.name or 'enum', variant, fidx)) if fty else Opaque('?', 'payload')
        return pl

    def read_place(self, st, frame, place):
        # index projections (tables) are read-only here
        ps = place['p']
        for n, pe in enumerate(ps):
            if pe['k'] in ('constindex', 'subslice'):
                # slice / array patterns: `[first, ..]`, `[.., last]`, `[a, b]`, `[head, rest @ ..]`
                base = {'l': place['l'], 'p': ps[:n]}
                arr = self.read_place(st, frame, base)
                if isinstance(arr, RefV):
                    arr = self.deref(st, arr)
                from .models import _elem_value
                if pe['k'] == 'constindex':
                    off = pe['offset']
                    if isinstance(arr, ArrV) and arr.items is not None:
                        i = len(arr.items) - off if pe.get('from_end') else off
                        if not 0 <= i < len(arr.items):
                            raise InterpError('constant index %d outside the array pattern' % i)
                        v = arr.items[i]
                    elif isinstance(arr, ArrV) and arr.table:
                        tb = self.facts.tables.get(arr.table) or []
                        i = len(tb) - off if pe.get('from_end') else off
                        v = self.table_elem(st, arr.table, Poly.const(i))
                    elif isinstance(arr, ContV) and (arr.len is not None or not pe.get('from_end')):
                        idx = (arr.len - off) if pe.get('from_end') else Poly.const(off)
                        v = _elem_value(self, st, arr, idx)
                    else:
                        raise InterpError('constant index into %r' % (arr,))
                else:
                    fr_, to_ = pe['from'], pe['to']
                    if isinstance(arr, ArrV) and arr.items is not None:
                        hi = len(arr.items) - to_ if pe.get('from_end') else to_
                        v = ArrV(items=arr.items[fr_:hi])
                    elif isinstance(arr, ContV) and arr.len is not None:
                        ln = (arr.len - fr_ - to_) if pe.get('from_end') else Poly.const(to_ - fr_)
                        v = ContV('slice', ('from', arr.term, Poly.const(fr_)) if fr_ else arr.term, length=ln, elem_ty=arr.elem_ty, extra={})
                    else:
                        raise InterpError('subslice of %r' % (arr,))
                rest = ps[n + 1:]
                if not rest:
                    return v
                if len(rest) == 1 and rest[0]['k'] == 'deref' and isinstance(v, RefV):
                    return self.deref(st, v)
                raise InterpError('projection after a slice pattern element')
            if pe['k'] == 'index':
                base = {'l': place['l'], 'p': ps[:n]}
                arr = self.read_place(st, frame, base)
                idx = self.read_place(st, frame, {'l': pe['l'], 'p': []})
                if isinstance(arr, ArrV) and isinstance(idx, Num):
                    idx = self.small_index(st, frame, arr, idx)
                if isinstance(arr, ArrV) and arr.table:
                    v = self.table_elem(st, arr.table, idx.term)
                elif isinstance(arr, ArrV) and arr.items is not None:
                    c = idx.term.const_value()
                    if c is not None and 0 <= c < len(arr.items):
                        v = arr.items[int(c)]
                    else:
                        v = self.sparse_lookup(st, arr, idx)
                        if v is None:
                            v = Opaque('?', 'arr-elem')
                elif isinstance(arr, ContV):
                    from .models import _elem_value
                    v = _elem_value(self, st, arr, idx.term)
                else:
                    v = Opaque('?', 'index')
                for pe2 in ps[n + 1:]:
                    # `notes[i].0`, `table[i].1`: field / deref steps on the element just read
                    if isinstance(v, RefV) and pe2['k'] == 'deref':
                        v = self.deref(st, v)
                    elif pe2['k'] == 'field' and isinstance(v, StructV) and pe2['i'] < len(v.fields):
                        v = v.fields[pe2['i']]
                    elif pe2['k'] == 'field' and isinstance(v, TupleV) and pe2['i'] < len(v.items):
                        v = v.items[pe2['i']]
                    else:
                        raise InterpError('projection after index')
                return v
        cont, key = self.resolve(st, frame, place)
        v = cont[key] if not isinstance(cont, dict) or key in cont else None
        if v is None:
            raise InterpError('read of uninitialised place %r in %s' % (place, frame.fn['path']))
        return v

    def small_index(self, st, frame, arr, idx):
        """index into a short array / table by a truth value (`T[(x < 0.5) as usize]`) or by a value with at most 8
        possibilities: decided by case split, each case then reads one definite element"""
        n = len(arr.items) if arr.items is not None else len(self.facts.tables.get(arr.table) or [])
        if idx.term.const_value() is not None or not 0 < n <= 64:
            return idx
        a = idx.term.as_single_atom()
        ctx = st.ctx
        if a is not None and a[0] == 'ite' and isinstance(a[1], B):
            d = ctx.decide(a[1])
            if d is not None:
                return Num(as_poly(a[2] if d else a[3]), idx.ty)
            if getattr(self, '_split_ok', False) and not getattr(self, '_nosplit', 0):
                raise SplitRequest([a[1], bnot(a[1])])
            return idx
        lo, hi = ctx.rng(idx.term)
        if lo == hi and lo.denominator == 1:
            return Num(Poly.const(lo), idx.ty)
        if lo != -INF and hi != INF and 0 <= lo and hi - lo < 8 and getattr(self, '_split_ok', False) and not getattr(self, '_nosplit', 0) \
                and (a is not None and (a in ctx.int_atoms or a[0] in ('mod', 'bitand', 'idiv', 'shr', 'min', 'max'))):
            ks = list(range(int(lo) if lo.denominator == 1 else int(lo) + 1, int(hi) + 1))
            return_conds = [cmp_term('Eq', idx.term, Poly.const(k)) for k in ks]
            def pins(c, k):
                p2 = ctx.copy()
                return p2.assume(c) is not False and p2.rng(idx.term) == (Fr(k), Fr(k))
            if all(pins(c, k) for c, k in zip(return_conds, ks)):
                raise SplitRequest(return_conds)
        return idx

    def table_elem(self, st, name, idx):
        """element `idx` of the named constant table, with the table's own element type.  An integer table that merely spells out
        a closed form (`[1 << 0, 1 << 1, ...]`, `[0, 12, 24, ...]`) is read as that closed form, so that the rules see the same
        term as for the computed expression"""
        ck = self.facts.consts.get(name) or {}
        ety = ((ck.get('ty') or {}).get('ty') or {})
        n = ety.get('n') if ety.get('k') in ('int', 'uint', 'float') else 'f32'
        tb = self.facts.tables.get(name)
        c = idx.const_value()
        if ety.get('k') in ('int', 'uint') and tb and len(tb) >= 2:
            if c is not None and c.denominator == 1 and 0 <= c < len(tb):
                return Num(Poly.const(tb[int(c)]), n)
            lo, hi = st.ctx.rng(idx)
            if lo >= 0 and hi <= len(tb) - 1:
                d = tb[1] - tb[0]
                if all(tb[i] == tb[0] + d * i for i in range(len(tb))):
                    return Num(Poly.const(tb[0]) + idx.scale(d), n)
                if tb[0] != 0 and all(tb[i] == tb[0] * 2 ** i for i in range(len(tb))):
                    return Num(t_shl(Poly.const(tb[0]), idx, st.ctx), n)
        return Num(t_tbl(name, idx, st.ctx), n)

    def sparse_lookup(self, st, arr, idx):
        """`ACTIONS[byte]`: a constant array in which all but a few entries hold the same value, indexed by an unknown: one case
        per special entry that the path has not excluded, one for 'none of them' (which reads the common value)"""
        items = arr.items
        ctx = st.ctx
        lo, hi = ctx.rng(idx.term)
        if lo == -INF or hi == INF or lo < 0 or hi >= len(items) or len(items) > 4096:
            return None
        keys = [self._hashable(x) for x in items]
        if any(k is None for k in keys):
            return None
        cnt = {}
        for k in keys[int(lo):int(hi) + 1]:
            cnt[k] = cnt.get(k, 0) + 1
        common = max(cnt, key=lambda k: cnt[k])
        special = [i for i in range(int(lo) if lo.denominator == 1 else int(lo) + 1, int(hi) + 1) if keys[i] != common]
        if len(special) > 24:
            return None
        open_ = []
        for i in special:
            d = ctx.decide(cmp_term('Eq', idx.term, Poly.const(i)))
            if d is True:
                return items[i]
            if d is None:
                open_.append(i)
        if not open_:
            return items[keys.index(common)]
        if getattr(self, '_split_ok', False) and not getattr(self, '_nosplit', 0):
            conds = [cmp_term('Eq', idx.term, Poly.const(i)) for i in open_]
            rest = TRUE
            for i in open_:
                rest = band(rest, cmp_term('Ne', idx.term, Poly.const(i)))
            raise SplitRequest(conds + [rest])
        return None

    def write_place(self, st, frame, place, v):
        cont, key = self.resolve(st, frame, place, for_write=True)
        cont[key] = v

    def place_ref(self, st, frame, place, mut):
        """&place -> RefV"""
        l = place['l']
        if l not in frame.locals:
            frame.locals[l] = st.new_cell(None)
        cell = frame.locals[l]
        proj = []
        if any(pe['k'] in ('constindex', 'subslice') for pe in place['p']) and not mut:
            # a shared borrow of a slice-pattern element / tail (`[.., last]`, `[first, rest @ ..]`): a reference to a
            # snapshot of that element (sound for shared borrows: nothing can write through them)
            return RefV(st.new_cell(self.read_place(st, frame, place)))
        for pe in place['p']:
            k = pe['k']
            if k == 'deref':
                cur = self._get_by(st, cell, proj)
                if isinstance(cur, RefV):
                    cell, proj = cur.cell, list(cur.proj)
                elif isinstance(cur, ContV):
                    pass
                else:
                    raise InterpError('deref of non-ref in place_ref: %r' % (cur,))
            elif k == 'field':
                # make sure the field exists (lazy values)
                self.resolve(st, frame, place)
                proj.append(('field', pe['i']))
            elif k == 'downcast':
                proj.append(('variant', pe['v']))
            else:
                raise InterpError('unsupported projection in borrow: %s' % k)
        return RefV(cell, tuple(proj), mut)

    def _get_by(self, st, cell, proj):
        cur = st.cells[cell]
        pv = None
        for stp in proj:
            if stp[0] == 'variant':
                pv = stp[1]
                continue
            if pv is not None and isinstance(cur, EnumV):
                cur = self.enum_payload(st, cur, pv)[stp[1]]
                pv = None
            elif isinstance(cur, StructV):
                cur = cur.fields[stp[1]]
            elif isinstance(cur, TupleV):
                cur = cur.items[stp[1]]
            elif isinstance(cur, ClosureV):
                cur = cur.caps[stp[1]]
            elif isinstance(cur, LazyV):
                cur = cur.fields[stp[1]]
            else:
                raise InterpError('cannot navigate %r in %r' % (stp, cur))
        return cur

    def deref(self, st, ref):
        if isinstance(ref, RefV):
            return self._get_by(st, ref.cell, ref.proj)
        return ref

    def store_ref(self, st, ref, v):
        if not ref.proj:
            st.cells[ref.cell] = v
            return
        cur = st.cells[ref.cell]
        pv = None
        steps = list(ref.proj)
        for n, stp in enumerate(steps):
            last = n == len(steps) - 1
            if stp[0] == 'variant':
                pv = stp[1]
                continue
            if pv is not None and isinstance(cur, EnumV):
                pl = self.enum_payload(st, cur, pv)
                pv = None
                if last:
                    pl[stp[1]] = v
                    return
                cur = pl[stp[1]]
            else:
                cont, key = self._step_into(st, cur, stp)
                if last:
                    cont[key] = v
                    return
                cur = cont[key]

    # ------------------------------------------------------------------ constants / operands
    def const_value(self, st, frame, c):
        ty = c['ty']
        if 'param' in c:
            name = c['param']
            g = frame.genv.get(name)
            p = self.const_arg_poly(g, None) if g is not None else None
            if p is None:
                a = ('sym', 'param:' + name)
                p = Poly.atom(a)
                st.ctx.int_atoms.add(a)
                if a not in st.ctx.ranges:
                    lo, hi = INT_RANGES.get(ty.get('n', 'usize'), (0, 2 ** 64 - 1))
                    st.ctx.ranges[a] = (Fr(lo), Fr(hi))
            return Num(p, ty.get('n', 'usize'))
        if 'promoted' in c:
            try:
                return self.eval_promoted(st, frame, c['promoted'])
            except InterpError:
                # promoted constants that need calls (format arguments of assert messages, ...) carry no analysed value
                return Opaque(ty, 'promoted')
        val = c.get('val')
        if isinstance(val, dict) and 'too_generic' in val and c.get('name') in self.facts.fns:
            # associated constant of a generic impl: evaluate its initialiser under the generic arguments of this frame
            # (the constant is named with the identity arguments of the enclosing impl)
            cb = self.facts.fns[c['name']]
            if cb.get('kind') == 'const_body':
                try:
                    return self.eval_const_body(st, cb, cb, frame.genv, frame.depth + 1)
                except InterpError:
                    return Opaque(ty, 'const')
        if isinstance(val, dict) and 'too_generic' in val and frame.genv:
            # associated constant of a TRAIT used under a type parameter (`C::TABLE` in `fn f<C: Trait>()`): the frame knows
            # what C was instantiated with, the impl's constant is in the facts under `<S as Trait>::NAME`
            import re as _re
            mm = _re.search(r'args: \[(\w+)/#\d+', val['too_generic'])
            trait, _, cname = (c.get('name') or '').rpartition('::')
            bound = frame.genv.get(mm.group(1)) if mm else None
            if isinstance(bound, dict) and trait:
                sname = bound.get('s') or bound.get('n')
                ck = self.facts.consts.get('<%s as %s>::%s' % (sname, trait, cname))
                if ck is not None and ck.get('val') is not None:
                    return self.json_const(st, ck['val'], ck.get('ty', ty), ck.get('path'))
        return self.json_const(st, val, ty, c.get('name'))

    def table_named_like(self, arr):
        """a constant array whose content equals one of the crate's named lookup tables IS that table for the rules (a
        reference to the table stored in an associated constant, a re-export, ...)"""
        try:
            vals = []
            for e in arr:
                if 'float_bits' in e:
                    vals.append(float_const(int(e['float_bits']), e.get('w', 32)).const_value())
                elif 'int' in e:
                    vals.append(Fr(int(e['int'])))
                else:
                    return None
        except Exception:
            return None
        for name, tb in self.facts.tables.items():
            if len(tb) == len(vals) and all(a == b for a, b in zip(tb, vals)):
                return name
        return None

    def json_const(self, st, val, ty, name=None):
        k = ty['k']
        if val is None:
            return Opaque(ty, 'const')
        if 'table' in val:
            if name not in self.facts.tables:
                # a named array constant that is not a numeric lookup table (states, actions, pairs): its elements as values
                ck = self.facts.consts.get(name)
                cv = ck.get('val') if ck is not None else None
                if isinstance(cv, dict) and 'array' in cv and len(cv['array']) <= 4096:
                    ety = ty.get('ty', {'k': 'other'})
                    return ArrV(items=[self.json_const(st, v, ety) for v in cv['array']])
            return ArrV(table=name)
        if 'int' in val:
            return Num(Poly.const(int(val['int'])), ty.get('n', 'u32'))
        if 'float_bits' in val:
            return Num(float_const(int(val['float_bits']), val.get('w', 32)), ty.get('n', 'f32'))
        if 'bool' in val:
            return BoolV(bconst(val['bool']))
        if 'char' in val:
            return Num(Poly.const(val['char']), 'u32')
        if 'zst' in val:
            if k == 'tuple':
                return UnitV()
            if k == 'adt':
                adt = self.facts.adts.get(ty['path'])
                if adt and adt['kind'] == 'struct':
                    return StructV(ty['path'], [], [])
                if adt and adt['kind'] == 'enum' and len(adt['variants']) == 1:
                    return EnumV(ty['path'], 0, {0: []}, vnames=[adt['variants'][0]['name']])
            return Opaque(ty, 'zst')
        if 'fn' in val:
            return FnV(val['fn'], val.get('args'))
        if 'bits' in val:
            # scalar-layout ADT (newtype struct or field-less enum)
            bits = int(val['bits'])
            if k == 'adt':
                adt = self.facts.adts.get(ty['path'])
                if adt and adt['kind'] == 'enum':
                    for i, v in enumerate(adt['variants']):
                        if int(v['discr']) == bits:
                            return EnumV(ty['path'], i, {i: []}, vnames=[x['name'] for x in adt['variants']])
                if adt and adt['kind'] == 'struct':
                    flds = adt['variants'][0]['fields']
                    nz = [f for f in flds]
                    if len(nz) == 1:
                        inner = self.json_const(st, {'int': str(bits)} if nz[0]['ty']['k'] in ('int', 'uint') else
                                                ({'float_bits': str(bits), 'w': 32} if nz[0]['ty']['k'] == 'float' else
                                                 ({'bool': bool(bits)} if nz[0]['ty']['k'] == 'bool' else {'bits': str(bits)})), nz[0]['ty'])
                        return StructV(ty['path'], [nz[0]['name']], [inner])
            return Opaque(ty, 'bits=%d' % bits)
        if isinstance(val.get('static'), str):
            # address of an immutable `static` without interior mutability: a reference to its initialiser
            ck = self.facts.consts.get(val['static'])
            cv = ck.get('val') if ck is not None and not ck.get('mutable') else None
            if cv is None:
                return Opaque(ty, 'static')
            if ck['path'] in self.facts.tables:
                inner = ArrV(table=ck['path'])
            else:
                inner = self.json_const(st, cv, ck.get('ty') or ty.get('ty', {'k': 'other'}), ck['path'])
            return RefV(st.new_cell(inner))
        if 'ref_to' in val:
            inner_ty = ty.get('ty', {'k': 'other'})
            cell = st.new_cell(self.json_const(st, val['ref_to'], inner_ty))
            return RefV(cell)
        if 'tuple' in val:
            tys = ty.get('tys') or [{'k': 'other'}] * len(val['tuple'])
            return TupleV([self.json_const(st, v, t_) for v, t_ in zip(val['tuple'], tys)])
        if 'struct' in val:
            adt = self.facts.adts.get(val['struct'])
            names = [f['name'] for f in adt['variants'][0]['fields']] if adt else [str(i) for i in range(len(val['fields']))]
            ftys = [f['ty'] for f in adt['variants'][0]['fields']] if adt else [{'k': 'other'}] * len(val['fields'])
            return StructV(val['struct'], names, [self.json_const(st, v, t) for v, t in zip(val['fields'], ftys)])
        if 'array' in val and len(val['array']) >= 64:
            tn = self.table_named_like(val['array'])
            if tn is not None:
                return ArrV(table=tn)
        if 'array' in val:
            ety = ty.get('ty', {'k': 'other'})
            return ArrV(items=[self.json_const(st, v, ety) for v in val['array']])
        return Opaque(ty, 'const?')

    def eval_promoted(self, st, frame, idx):
        return self.eval_const_body(st, frame.fn, frame.fn['promoted'][idx], frame.genv, frame.depth + 1)

    def eval_const_body(self, st, fn, body, genv, depth):
        # run a promoted / associated-constant body to completion in a sub-interpreter on the same state (it is tiny)
        sub = Frame(fn, body, genv, depth)
        sub.is_promoted = True
        saved = st.frames
        st.frames = [sub]
        res = None
        try:
            steps = 0
            while True:
                steps += 1
                if steps > 200:
                    raise InterpError('promoted body too long')
                blk = body['blocks'][sub.bb]
                for s in blk['stmts']:
                    self.exec_stmt(st, sub, s)
                t = blk['term']
                if t['k'] == 'return':
                    res = st.cells[sub.locals[0]]
                    break
                elif t['k'] == 'goto':
                    sub.bb = t['target']
                elif t['k'] == 'assert':
                    sub.bb = t['target']
                elif t['k'] == 'call' and 'def' in t['callee']:
                    # const fn calls inside a promoted constant: only straight-line library models are evaluated
                    from .models import norm
                    cal = t['callee']
                    cands = [c['path'] for c in (cal.get('resolved'),) if c] + [cal['def']]
                    m = None
                    for pth in cands:
                        m = self.models.get(norm(pth))
                        if m is not None:
                            break
                    if m is None:
                        raise InterpError('unsupported call in promoted: %s' % cal['def'])
                    args = [self.operand(st, sub, a) for a in t['args']]
                    out = m(self, st, sub, t, args, cal.get('args', []))
                    if isinstance(out, tuple):
                        raise InterpError('forking model in promoted')
                    self.write_place(st, sub, t['dest'], out)
                    sub.bb = t['target']
                else:
                    raise InterpError('unsupported terminator in promoted: %s' % t['k'])
        finally:
            st.frames = saved
        return res

    def operand(self, st, frame, op):
        k = op['k']
        if k in ('copy', 'move'):
            v = self.read_place(st, frame, op['place'])
            if k == 'copy' and isinstance(v, (StructV, EnumV, TupleV, LazyV, ContV, ClosureV)):
                return copy.deepcopy(v)
            return v
        if k == 'const':
            return self.const_value(st, frame, op['c'])
        if k == 'runtime_checks':
            return BoolV(TRUE)
        raise InterpError('operand kind %s' % k)

    # ------------------------------------------------------------------ rvalues
    def binop(self, st, frame, op, a, b, ty, span):
        ctx = st.ctx
        with_ovf = op.endswith('WithOverflow')
        base = op.replace('WithOverflow', '').replace('Unchecked', '')
        if isinstance(a, BoolV) and isinstance(b, BoolV):
            if base == 'BitAnd':
                return BoolV(band(a.b, b.b))
            if base == 'BitOr':
                return BoolV(bor(a.b, b.b))
            if base in ('Eq', 'Ne', 'BitXor'):
                # a == b  <=>  (a&b) | (!a&!b)
                eq = bor(band(a.b, b.b), band(bnot(a.b), bnot(b.b)))
                return BoolV(eq if base == 'Eq' else bnot(eq))
            raise InterpError('bool binop %s' % op)
        if not isinstance(a, Num) or not isinstance(b, Num):
            if base in ('Eq', 'Ne') and isinstance(a, EnumV) and isinstance(b, EnumV):
                if a.variant is not None and b.variant is not None:
                    return BoolV(bconst((a.variant == b.variant) == (base == 'Eq')))
            return self.opaque_result(st, ty if base not in ('Eq', 'Ne', 'Lt', 'Le', 'Gt', 'Ge') else {'k': 'bool'}, 'binop')
        x, y = a.term, b.term
        is_float = ty['k'] == 'float'
        if base in ('Eq', 'Ne'):
            ax, ay = x.as_single_atom(), y.as_single_atom()
            if ax is not None and ay is not None and ax[0] == 'app' and ay[0] == 'app' and ax[1] == ay[1] == 'float_bits':
                # equal bit patterns => equal values; equal values do not give equal bits (signed zeros): the converse is
                # left open through a fresh unknown
                e = band(cmp_term('Eq', ax[2][0], ay[2][0]), B(('sym', st.fresh_name('same_bits'))))
                return BoolV(e if base == 'Eq' else bnot(e))
            for aa, other in ((ax, y), (ay, x)):
                cv = other.const_value()
                if aa is not None and aa[0] == 'app' and aa[1] == 'float_bits' and cv is not None and cv.denominator == 1 and 0 <= cv < 2 ** 32 and ty.get('n') == 'u32':
                    import struct
                    import math as _m
                    fv = struct.unpack('<f', struct.pack('<I', int(cv)))[0]
                    if _m.isfinite(fv):
                        e = band(cmp_term('Eq', aa[2][0], Poly.const(Fr(fv))), B(('sym', st.fresh_name('same_bits'))))
                        return BoolV(e if base == 'Eq' else bnot(e))
        if base in ('Eq', 'Ne', 'Lt', 'Le', 'Gt', 'Ge'):
            return BoolV(cmp_term(base, x, y))
        if base in ('Add', 'Sub') and not is_float:
            # max(a, b) - min(a, b) = |a - b| and max(a, b) + min(a, b) = a + b (integers: no NaN to treat specially)
            ax, ay = x.as_single_atom(), y.as_single_atom()
            if ax is not None and ay is not None and {ax[0], ay[0]} == {'max', 'min'} and {ax[1], ax[2]} == {ay[1], ay[2]} \
                    and x == Poly.atom(ax) and y == Poly.atom(ay):
                if base == 'Add':
                    x, y = as_poly(ax[1]), as_poly(ax[2])
                elif ax[0] == 'max':
                    x, y = t_abs(as_poly(ax[1]) - as_poly(ax[2]), ctx), ZERO
        if base == 'Add':
            r = x + y
        elif base == 'Sub':
            r = x - y
        elif base == 'Mul':
            r = x * y
        elif base == 'Div':
            r = t_div(x, y, ctx) if is_float else t_idiv(x, y, ctx)
        elif base == 'Rem':
            r = t_frem(x, y, ctx) if is_float else t_mod(x, y, ctx)
        elif base == 'BitAnd':
            r = t_bitand(x, y, ctx)
        elif base == 'BitOr':
            r = t_bitor(x, y, ctx)
        elif base == 'BitXor':
            r = t_bitxor(x, y, ctx)
        elif base == 'Shl':
            r = t_shl(x, y, ctx)
        elif base == 'Shr':
            r = t_shr(x, y, ctx)
        else:
            raise InterpError('binop %s' % op)
        if is_float:
            c = r.const_value()
            if c is not None and x.const_value() is not None and y.const_value() is not None:
                r = Poly.const(round_float(c, ty['n']))
            return Num(r, ty['n'])
        lo_t, hi_t = INT_RANGES[ty['n']]
        if with_ovf:
            lo, hi = ctx.rng(r)
            inb = band(cmp_term('Ge', r, lo_t), cmp_term('Le', r, hi_t))
            ovf = bnot(inb)
            if lo >= lo_t and hi <= hi_t:
                ovf = FALSE
            elif hi < lo_t or lo > hi_t:
                ovf = TRUE
            return TupleV([Num(r, ty['n']), BoolV(ovf)])
        # non-checked op: wraps on overflow (release profile / explicit wrapping shifts)
        if base in ('Add', 'Sub', 'Mul', 'Shl'):
            lo, hi = ctx.rng(r)
            if not (lo >= lo_t and hi <= hi_t):
                bits = {'u8': 8, 'u16': 16, 'u32': 32, 'u64': 64, 'usize': 64, 'u128': 128}.get(ty['n'])
                if bits and base == 'Shl' and lo >= 0:
                    r = t_mod(r, Poly.const(1 << bits), ctx)
                else:
                    st.notes.append(('wrap', frame.fn['path'], span, repr(r)))
                    r = Poly.atom(('wrap', r, bits or 64))
        return Num(r, ty['n'])

    def opaque_result(self, st, ty, tag):
        return self.sym_value(st, ty, st.fresh_name(tag)) if isinstance(ty, dict) else Opaque(ty, tag)

    def cast(self, st, frame, rv):
        kind = rv['kind']
        v = self.operand(st, frame, rv['op'])
        fty, tty = rv['from'], rv['ty']
        ctx = st.ctx
        if kind == 'IntToInt':
            if isinstance(v, BoolV):
                # bool as int
                c = v.b.value()
                if c is not None:
                    return Num(Poly.const(1 if c else 0), tty['n'])
                return Num(Poly.atom(('ite', v.b, ONE, ZERO)), tty['n'])
            if isinstance(v, EnumV):
                if v.variant is not None:
                    adt = self.facts.adts.get(v.path)
                    d = int(adt['variants'][v.variant]['discr']) if adt else v.variant
                    return Num(Poly.const(d), tty['n'])
                return self.opaque_result(st, tty, 'enum-as-int')
            if not isinstance(v, Num):
                return self.opaque_result(st, tty, 'cast')
            lo_t, hi_t = INT_RANGES[tty['n']]
            lo, hi = ctx.rng(v.term)
            if lo >= lo_t and hi <= hi_t:
                return Num(v.term, tty['n'])
            bits = {'u8': 8, 'u16': 16, 'u32': 32, 'u64': 64, 'usize': 64, 'i16': 16, 'i32': 32, 'i8': 8, 'i64': 64}.get(tty['n'])
            if tty['k'] == 'uint' and lo >= 0:
                return Num(t_mod(v.term, Poly.const(1 << bits), ctx), tty['n'])
            if tty['k'] == 'int' and fty['k'] == 'uint' and lo >= 0 and hi < (1 << bits):
                # reinterpretation u16 -> i16 style: value in [0, 2^bits): wraps when >= 2^(bits-1)
                half = 1 << (bits - 1)
                if hi < half:
                    return Num(v.term, tty['n'])
                return Num(Poly.atom(('ite', cmp_term('Lt', v.term, half), v.term, v.term - Poly.const(1 << bits))), tty['n'])
            return Num(Poly.atom(('wrapcast', v.term, bits)), tty['n'])
        if kind == 'IntToFloat':
            if not isinstance(v, Num):
                return self.opaque_result(st, tty, 'cast')
            # recorded for the exactness rule: an integer outside [-2^24, 2^24] (f32) is rounded by this conversion
            lo, hi = ctx.rng(v.term)
            self.int_float_casts.append((frame.fn['path'], tty['n'], v.term, lo, hi))
            return Num(v.term, tty['n'])
        if kind == 'FloatToInt':
            if not isinstance(v, Num):
                return self.opaque_result(st, tty, 'cast')
            lo_t, hi_t = INT_RANGES[tty['n']]
            return Num(t_f2i(v.term, lo_t, hi_t, ctx), tty['n'])
        if kind == 'FloatToFloat':
            return Num(v.term, tty['n']) if isinstance(v, Num) else v
        if kind.startswith('PointerCoercion'):
            # unsizing &[T; N] -> &[T], closure -> fn ptr, ...
            if 'Unsize' in kind and isinstance(v, RefV):
                tgt = self.deref(st, v)
                if isinstance(tgt, ArrV) and tgt.items is not None:
                    return ContV('slice', ('lit', tuple(self._hashable(i) for i in tgt.items)), length=Poly.const(len(tgt.items)),
                                 extra={'items': tgt.items})
            return v
        if kind in ('Transmute', 'PtrToPtr', 'Subtype'):
            return v
        return self.opaque_result(st, tty, 'cast:' + kind)

    def _hashable(self, v):
        if isinstance(v, Num):
            return v.term
        if isinstance(v, StructV):
            return (v.path,) + tuple(self._hashable(f) for f in v.fields)
        return repr(v)

    def rvalue(self, st, frame, rv, span):
        k = rv['k']
        if k == 'use':
            return self.operand(st, frame, rv['op'])
        if k == 'binop':
            a = self.operand(st, frame, rv['a'])
            b = self.operand(st, frame, rv['b'])
            return self.binop(st, frame, rv['op'], a, b, rv['ty'], span)
        if k == 'unop':
            a = self.operand(st, frame, rv['a'])
            op = rv['op']
            if op == 'Not':
                if isinstance(a, BoolV):
                    return BoolV(bnot(a.b))
                if isinstance(a, Num):
                    lo_t, hi_t = INT_RANGES[a.ty]
                    if lo_t == 0:
                        return Num(Poly.const(hi_t) - a.term, a.ty)
                    return Num(-a.term - 1, a.ty)
            if op == 'Neg':
                return Num(-a.term, a.ty)
            if op == 'PtrMetadata':
                tgt = self.deref(st, a) if isinstance(a, RefV) else a
                if isinstance(tgt, ContV) and tgt.len is not None:
                    return Num(tgt.len, 'usize')
                if isinstance(tgt, ArrV) and tgt.items is not None:
                    return Num(Poly.const(len(tgt.items)), 'usize')
                if isinstance(tgt, ArrV) and tgt.table and tgt.table in self.facts.tables:
                    return Num(Poly.const(len(self.facts.tables[tgt.table])), 'usize')
                return self.opaque_result(st, {'k': 'uint', 'n': 'usize'}, 'ptrmeta')
            raise InterpError('unop %s' % op)
        if k == 'cast':
            return self.cast(st, frame, rv)
        if k == 'ref':
            pl = rv['place']
            # &(*x) re-borrow of a container keeps the container
            v = None
            try:
                return self.place_ref(st, frame, pl, rv['mut'])
            except InterpError:
                v = self.read_place(st, frame, pl)
                return v
        if k == 'rawptr':
            return self.place_ref(st, frame, rv['place'], True)
        if k == 'discriminant':
            e = self.read_place(st, frame, rv['place'])
            if isinstance(e, EnumV):
                return e  # handled by switch; keep the enum itself as "discriminant value"
            return self.opaque_result(st, {'k': 'int', 'n': 'isize'}, 'discr')
        if k == 'aggregate':
            fields = [self.operand(st, frame, f) for f in rv['fields']]
            agg = rv['agg']
            if agg == 'tuple':
                return TupleV(fields) if fields else UnitV()
            if agg == 'adt':
                adt = self.facts.adts.get(rv['path'])
                tenv = None
                if adt is not None:
                    tenv = self.adt_tenv(adt, rv['args'])
                is_enum = (adt and adt['kind'] == 'enum') or (adt is None and (rv['variant'] > 0 or rv['path'].startswith('core::option::Option') or rv['path'].startswith('core::result::Result')))
                if is_enum:
                    vn = [v['name'] for v in adt['variants']] if adt else None
                    if vn is None and rv['path'].startswith('core::option::Option'):
                        vn = ['None', 'Some']
                    if vn is None and rv['path'].startswith('core::result::Result'):
                        vn = ['Ok', 'Err']
                    return EnumV(rv['path'], rv['variant'], {rv['variant']: fields}, vnames=vn, targs=tenv)
                names = rv['field_names']
                adt_ = self.facts.adts.get(rv['path'])
                if adt_ and adt_.get('kind') == 'struct' and len(adt_['variants'][0]['fields']) == len(names):
                    names = [f['name'] for f in adt_['variants'][0]['fields']]   # canonical names (renamed private fields, sa/facts.py)
                return StructV(rv['path'], names, fields, targs=tenv, paths=(adt_ or {}).get('canon_paths'), codecs=self.bool_codecs(adt_))
            if agg == 'closure':
                return ClosureV(rv['path'], fields)
            if agg == 'array':
                return ArrV(items=fields)
            return Opaque('?', 'aggregate')
        if k == 'copy_for_deref':
            return self.read_place(st, frame, rv['place'])
        if k == 'repeat':
            return Opaque('?', 'repeat')
        raise InterpError('rvalue kind %s: %s' % (k, rv.get('dbg')))

    def exec_stmt(self, st, frame, s):
        k = s['k']
        if k == 'assign':
            v = self.rvalue(st, frame, s['rv'], s.get('span'))
            self.write_place(st, frame, s['place'], v)
        elif k == 'setdiscr':
            e = self.read_place(st, frame, s['place'])
            if isinstance(e, EnumV):
                e.variant = s['variant']
                e.payload.setdefault(s['variant'], [])
        elif k == 'assume':
            pass
        else:
            st.notes.append(('stmt', k, s.get('dbg')))

    # ------------------------------------------------------------------ running
    def start(self, path, args, genv=None, ctx=None, cells=None, state=None):
        """prepare a state that calls fn `path` with argument values `args`"""
        fn = self.facts.fn(path)
        st = state or State()
        if ctx is not None:
            st.ctx = ctx
        st.ctx.tables = self.facts.tables
        fr = Frame(fn, fn, genv or {}, 0)
        for i, a in enumerate(args):
            fr.locals[i + 1] = st.new_cell(a)
        st.frames.append(fr)
        return st

    def run(self, st0):
        """run to completion; returns list of Outcome"""
        work = [st0]
        done = []
        while work:
            st = work.pop()
            self.stats['states'] += 1
            if self.stats['states'] > self.max_states:
                raise InterpError('state explosion (> %d abstract states)' % self.max_states)
            try:
                forks = self.run_state(st)
            except InterpError as e:
                st.status = 'stuck'
                st.panic_info = str(e)
                done.append(Outcome(st))
                continue
            if forks:
                work.extend(forks)
            else:
                done.append(Outcome(st))
        return done

    def run_state(self, st):
        """advance one state until it finishes (returns None) or forks (returns the list of successor states)"""
        while True:
            if not st.frames:
                return None
            fr = st.frames[-1]
            body = fr.body
            blk = body['blocks'][fr.bb]
            self.stats['blocks'] += 1
            st.trace.append((fr.fn['path'], fr.bb))
            self.fns_analysed.add(fr.fn['path'])
            stmts = blk['stmts']
            start, fr.resume = fr.resume, 0
            for si in range(start, len(stmts)):
                self._split_ok = True
                try:
                    self.exec_stmt(st, fr, stmts[si])
                except SplitRequest as e:
                    self._split_ok = False
                    outs = []
                    st.tags['case_splits'] = st.tags.get('case_splits', 0) + 1
                    if st.tags['case_splits'] > 64:
                        raise InterpError('more than 64 nested case splits on one path (a split that does not decide its own condition?)')
                    for c in e.conds:
                        s2 = st.fork()
                        if s2.ctx.assume(c) is False:
                            continue
                        s2.frames[-1].resume = si
                        outs.append(s2)
                    self.stats['case_splits'] = self.stats.get('case_splits', 0) + 1
                    return outs
                finally:
                    self._split_ok = False
            t = blk['term']
            k = t['k']
            if k == 'goto':
                r = self.jump(st, fr, t['target'])
                if r == 'stop':
                    return None
            elif k == 'return':
                rv = st.cells.get(fr.locals.get(0))
                probe = getattr(st, 'probe', None)
                if probe is not None and len(st.frames) - 1 == probe[0]:
                    st.status = 'probe-exit'
                    return None
                st.frames.pop()
                if not st.frames:
                    st.status = 'returned'
                    st.ret = rv
                    return None
                caller = st.frames[-1]
                if fr.dest is not None:
                    self.write_place(st, caller, fr.dest, rv if rv is not None else UnitV())
                r = self.jump(st, caller, fr.ret_target)
                if r == 'stop':
                    return None
            elif k == 'switch':
                res = self.switch(st, fr, t)
                if res is not None:
                    return res
            elif k == 'assert':
                res = self.do_assert(st, fr, t)
                if res is not None:
                    return res
            elif k == 'call':
                res = self.call(st, fr, t)
                if res is not None:
                    return res
            elif k == 'drop':
                r = self.jump(st, fr, t['target'])
                if r == 'stop':
                    return None
            elif k == 'unreachable':
                st.status = 'unreachable'
                return None
            else:
                raise InterpError('terminator %s' % k)
            if st.status != 'running':
                return None

    def jump(self, st, fr, target):
        """move frame to block `target`, applying the loop-head havoc abstraction"""
        if target is None:
            # a call without a return target: every diverging function of a no_std crate is a panic entry point
            # (`core::panicking::*`, `assert_failed` of debug_assert_eq!, `unwrap_failed`, ...)
            key = 'panic@%s#%s' % (fr.fn['path'], self.site_ordinal(fr, fr.bb))
            st.obligations.append(Obligation('panic-call', fr.fn['path'], fr.body['blocks'][fr.bb]['term'].get('span', ''), 'diverging call (no return target)', 'violated', key))
            st.status = 'panic'
            st.panic_info = 'diverging call (no return target)'
            return 'stop'
        probe = getattr(st, 'probe', None)
        if probe is not None and len(st.frames) - 1 == probe[0] and fr is st.frames[probe[0]] and target not in probe[2]:
            # range-inference probe: the path left the loop under analysis
            st.status = 'probe-exit'
            return 'stop'
        if not fr.is_promoted and fr.body is fr.fn:
            cfg = self.facts.cfg(fr.fn['path'])
            # leaving loops
            for h in list(fr.entered_loops):
                if target not in cfg.loops[h]:
                    fr.entered_loops.discard(h)
                    for pl, term, ty in fr.loop_summaries.pop(h, []):
                        # recognised reduction: at loop exit the accumulator holds the fold over the whole sequence
                        self.write_place(st, fr, pl, Num(term, ty))
            if target in cfg.loops:
                if target in fr.entered_loops:
                    if target in fr.concrete_loops and fr.concrete_loops[target] < 10:
                        fr.concrete_loops[target] += 1
                        fr.bb = target
                        return None
                    st.status = 'loopback'
                    st.tags['loopback_target'] = (fr.fn['path'], target)
                    return 'stop'
                fr.entered_loops.add(target)
                if self.loop_hook is None and self.short_concrete_loop(st, fr, cfg, target):
                    fr.concrete_loops[target] = 0
                    fr.bb = target
                    return None
                if self.loop_hook is not None:
                    self.loop_hook(self, st, fr, cfg, target)
                else:
                    self.havoc_loop(st, fr, cfg, target)
        fr.bb = target
        return None

    def short_concrete_loop(self, st, fr, cfg, head):
        """a loop without inner loops that is driven by an iterator over a sequence of known length <= 4 is unrolled
        instead of abstracted (exact effect of e.g. `for n in &notes[len-1..]`)"""
        body = cfg.loops[head]
        if any(h != head and h in body for h in cfg.loops):
            return False
        for b in sorted(body):
            t = fr.fn['blocks'][b]['term']
            if t['k'] != 'call' or 'def' not in t['callee']:
                continue
            if not t['callee']['def'].endswith('Iterator::next') or not t['args']:
                continue
            a0 = t['args'][0]
            if a0['k'] not in ('copy', 'move'):
                continue
            # the argument is a temporary `&mut iter` created in the loop: look through the assignment to it
            pl = a0['place']
            src = None
            for bb in sorted(body):
                for s_ in fr.fn['blocks'][bb]['stmts']:
                    if s_['k'] == 'assign' and s_['place'] == pl and s_['rv']['k'] == 'ref':
                        src = s_['rv']['place']
            if src is None:
                continue
            # look through re-borrows `_a = &mut _iter; _b = &mut *_a`
            for _ in range(4):
                if len(src['p']) == 1 and src['p'][0]['k'] == 'deref':
                    inner = None
                    for bb in sorted(body):
                        for s_ in fr.fn['blocks'][bb]['stmts']:
                            if s_['k'] == 'assign' and s_['place'] == {'l': src['l'], 'p': []} and s_['rv']['k'] == 'ref':
                                inner = s_['rv']['place']
                    if inner is None:
                        break
                    src = inner
                else:
                    break
            try:
                v = self.read_place(st, fr, src)
            except InterpError:
                return False
            if isinstance(v, ContV) and v.kind in ('slice_iter', 'vec_iter') and v.len is not None and not v.extra.get('havocked'):
                n = v.len.const_value()
                if n is not None and n <= 4:
                    return True
            return False
        return False

    def havoc_loop(self, st, fr, cfg, head):
        places = self.loop_places(st, fr, cfg, head)
        info = self.loop_ranges(st, fr, cfg, head, places)
        if info is not None and info.get('no_iteration'):
            return    # no abstract iteration reaches the back edge: nothing assigned in the loop survives an iteration
        if info is not None and info.get('reductions'):
            fr.loop_summaries[head] = info['reductions']
        sym_of = self.apply_havoc(st, fr, head, places, info.get('ranges') if info else None)
        for n_, lim_ in ((info or {}).get('rel') or {}).items():
            if n_ in sym_of:
                st.ctx.assume(cmp_term('Le', Poly.atom(sym_of[n_]), lim_))

    def loop_ranges(self, st, fr, cfg, head, places):
        """interval invariants of the integer places assigned in the loop: Kleene iteration with widening after three
        rounds (R0 = range at loop entry, R(i+1) = hull(R(i), ranges at the back edges of one abstract iteration))"""
        idx = []
        for n, pl in enumerate(places):
            try:
                cont, k = self.resolve(st, fr, pl)
            except InterpError:
                continue
            cur = cont[k] if (not isinstance(cont, dict) or k in cont) else None
            if isinstance(cur, Num) and cur.ty in INT_RANGES:
                idx.append(n)
        if not idx or self.fixpoint_depth >= 2:
            return None
        cur = {}
        for n in idx:
            cont, k = self.resolve(st, fr, places[n])
            cur[n] = st.ctx.rng(cont[k].term)
        depth = len(st.frames) - 1
        init = dict(cur)
        self.fixpoint_depth += 1

        rel = {}    # counter place -> loop-invariant limit with counter <= limit at the loop head (see below)

        def probe(ranges):
            s2 = st.fork()
            f2 = s2.frames[depth]
            sym_of = self.apply_havoc(s2, f2, head, places, ranges)
            for n_, lim_ in rel.items():
                if n_ in sym_of:
                    s2.ctx.assume(cmp_term('Le', Poly.atom(sym_of[n_]), lim_))
            f2.bb = head
            f2.entered_loops.add(head)
            s2.probe = (depth, head, frozenset(cfg.loops[head]))
            s2.obligations = []
            outs = self.run(s2)
            backs = [o for o in outs if o.status == 'loopback' and len(o.state.frames) > depth and o.state.frames[depth].fn is fr.fn]
            post = {}
            for o in backs:
                fo = o.state.frames[depth]
                for n in idx:
                    try:
                        v = self.read_place(o.state, fo, places[n])
                    except InterpError:
                        continue
                    if not isinstance(v, Num):
                        continue
                    lo, hi = o.ctx.rng(v.term)
                    if n in post:
                        post[n] = (min(lo, post[n][0]), max(hi, post[n][1]))
                    else:
                        post[n] = (lo, hi)
            self._probe_exits = [o for o in outs if o.status == 'probe-exit']
            return sym_of, backs, post
        try:
            widened = False
            for rounds in range(7):
                try:
                    sym_of, backs, post = probe(cur)
                except InterpError:
                    return None
                new = dict(cur)
                stable = True
                for n, (lo, hi) in post.items():
                    olo, ohi = new[n]
                    try:
                        cont_, k_ = self.resolve(st, fr, places[n])
                        tlo_, thi_ = INT_RANGES[cont_[k_].ty]
                        # the place holds a value of its type: an arithmetic result outside it never reaches the back edge
                        # (checked arithmetic leaves by the panic edge, unchecked arithmetic is a `wrap` term with its own range)
                        lo, hi = max(lo, Fr(tlo_)), min(hi, Fr(thi_))
                    except (InterpError, KeyError, AttributeError):
                        pass
                    nlo, nhi = min(lo, olo), max(hi, ohi)
                    if (nlo, nhi) != (olo, ohi):
                        stable = False
                        if rounds >= 3:
                            cont, k = self.resolve(st, fr, places[n])
                            tlo, thi = INT_RANGES[cont[k].ty]
                            nlo = Fr(tlo) if nlo < olo else nlo
                            nhi = Fr(thi) if nhi > ohi else nhi
                            widened = True
                        new[n] = (nlo, nhi)
                cur = new
                if stable:
                    if widened:
                        # narrowing: one descending step from the widened fixpoint, kept only if it is inductive
                        cand = {n: (min(init[n][0], post[n][0]), max(init[n][1], post[n][1])) if n in post else cur[n] for n in cur}
                        try:
                            sym2, backs2, post2 = probe(cand)
                            if all(n not in post2 or (post2[n][0] >= cand[n][0] and post2[n][1] <= cand[n][1]) for n in cand):
                                cur, sym_of, backs = cand, sym2, backs2
                        except InterpError:
                            pass
                    # a counter that goes up by one per iteration and is compared with a loop-invariant limit by `!=` / `==` only
                    # (`if taken == n { break }`): intervals cannot see the bound, the induction is one line - `c <= L` and
                    # `c != L` give `c + 1 <= L` for integers - provided the counter starts at or below the limit
                    try:
                        refined = False
                        for n in idx:
                            a_ = sym_of.get(n)
                            if a_ is None or not backs:
                                continue
                            A_ = Poly.atom(a_)
                            if not all(isinstance(self.read_place(o.state, o.state.frames[depth], places[n]), Num)
                                       and self.read_place(o.state, o.state.frames[depth], places[n]).term == A_ + 1 for o in backs):
                                continue
                            lim = None
                            for f_ in backs[0].ctx.facts:
                                k_ = f_.k
                                if k_[0] == 'cmp' and k_[1] == '!=' and isinstance(k_[2], Poly) and k_[2].t.get(((a_, 1),)) in (1, -1):
                                    d_ = k_[2] if k_[2].t[((a_, 1),)] == 1 else -k_[2]
                                    cand_l = A_ - d_
                                    if not any(x == a_ or (x[0] == 'sym' and str(x[1]).startswith('loop')) for x in cand_l.atoms()):
                                        lim = cand_l
                                        break
                            if lim is None or not all(o.ctx.decide(cmp_term('Ne', A_, lim)) is True for o in backs):
                                continue
                            cont, k = self.resolve(st, fr, places[n])
                            if not isinstance(cont[k], Num) or st.ctx.decide(cmp_term('Le', cont[k].term, lim)) is not True:
                                continue
                            lhi = st.ctx.rng(lim)[1]
                            if lhi < cur[n][1]:
                                cur[n] = (cur[n][0], lhi)
                                refined = True
                            if n not in rel:
                                rel[n] = lim
                                refined = True
                        if refined:
                            sym_of, backs, post = probe(cur)
                    except InterpError:
                        pass
                    info = {'ranges': cur, 'no_iteration': not backs, 'reductions': [], 'rel': dict(rel)}
                    if backs:
                        info['reductions'] = self.recognise_reductions(st, fr, places, idx, sym_of, backs, depth, getattr(self, '_probe_exits', None))
                    # ranking function: an integer place that strictly decreases (or strictly increases) on EVERY back edge of
                    # one abstract iteration from the inductive head state.  In a bounded integer type that bounds the number
                    # of iterations (an overflow on the way is a panic obligation of its own).
                    rank = 'no iteration reaches the back edge' if not backs else None
                    for n in idx:
                        x = sym_of.get(n)
                        if rank is not None or x is None:
                            continue
                        dec = inc = True
                        for o in backs:
                            try:
                                v = self.read_place(o.state, o.state.frames[depth], places[n])
                            except InterpError:
                                dec = inc = False
                                break
                            if not isinstance(v, Num):
                                dec = inc = False
                                break
                            xp = Poly.atom(x)
                            if o.ctx.decide(cmp_term('Lt', v.term, xp)) is not True:
                                # x & y <= min(x, y), min(..), x mod c, x / c, x >> k are bounded by their (non-negative) operands
                                a_ = v.term.as_single_atom()
                                ubs = []
                                if a_ is not None and a_[0] in ('bitand', 'min', 'fmin'):
                                    ubs = [q for q in a_[1:] if isinstance(q, Poly)]
                                elif a_ is not None and a_[0] in ('mod', 'idiv', 'shr') and isinstance(a_[1], Poly) and o.ctx.rng(a_[1])[0] >= 0:
                                    ubs = [a_[1]]
                                if not any(o.ctx.decide(cmp_term('Lt', q, xp)) is True for q in ubs):
                                    dec = False
                            if o.ctx.decide(cmp_term('Gt', v.term, xp)) is not True:
                                inc = False
                        if dec or inc:
                            rank = '%s strictly %s on every back edge' % (self.place_name(fr, places[n]), 'decreases' if dec else 'increases')
                    self.loop_rankings.setdefault((fr.fn['path'], head), []).append(rank)
                    return info
            return None
        finally:
            self.fixpoint_depth -= 1

    def recognise_reductions(self, st, fr, places, idx, sym_of, backs, depth, exits=None):
        """running maximum / minimum over an iterated sequence: at every back edge the accumulator is either unchanged
        (and the element does not beat it) or the element (and the element beats it)"""
        from .models import select_term
        out = []
        seqs = set()
        for o in backs:
            le = getattr(o.state, 'last_iter_elem', None)
            if le is None:
                return []
            seqs.add(le[0])
        if len(seqs) != 1:
            return []
        seq = next(iter(seqs))
        seq_len = backs[0].state.last_iter_elem[2] if len(backs[0].state.last_iter_elem) > 2 else None
        # a hand-written `take(n)`: a counter that goes down by one on every back edge, and the loop is left either because
        # the iterator ran out or - before anything was accumulated in that iteration - because the counter is 0.  The loop
        # then runs over the first n elements: sums below are over take(seq, n)
        taken = None
        if exits:
            for n in idx:
                a = sym_of.get(n)
                if a is None:
                    continue
                A = Poly.atom(a)
                try:
                    if not all(isinstance(self.read_place(o.state, o.state.frames[depth], places[n]), Num)
                               and self.read_place(o.state, o.state.frames[depth], places[n]).term == A - 1
                               and o.ctx.decide(cmp_term('Ge', A, 1)) is True for o in backs):
                        continue
                except InterpError:
                    continue
                by_count = [o for o in exits if o.state.tags.get('last_next') != 'none']
                if not by_count or not all(o.ctx.decide(cmp_term('Eq', A, 0)) is True for o in by_count):
                    continue
                cont, kk = self.resolve(st, fr, places[n])
                if isinstance(cont[kk], Num):
                    taken = (n, a, cont[kk].term, by_count)
                    break
            if taken is None:
                # the same with a counter that goes UP by one and a limit: left (before anything is accumulated) when the counter
                # equals a loop-invariant limit that it started at or below
                for n in idx:
                    a = sym_of.get(n)
                    if a is None:
                        continue
                    A = Poly.atom(a)
                    try:
                        if not all(isinstance(self.read_place(o.state, o.state.frames[depth], places[n]), Num)
                                   and self.read_place(o.state, o.state.frames[depth], places[n]).term == A + 1 for o in backs):
                            continue
                    except InterpError:
                        continue
                    by_count = [o for o in exits if o.state.tags.get('last_next') != 'none']
                    if not by_count:
                        continue
                    # the limit: A == limit is a fact of the paths that leave by count
                    limit = None
                    for f_ in by_count[0].ctx.facts:
                        k_ = f_.k
                        if k_[0] == 'cmp' and k_[1] == '==' and isinstance(k_[2], Poly) and k_[2].t.get(((a, 1),)) in (1, -1):
                            d_ = k_[2] if k_[2].t[((a, 1),)] == 1 else -k_[2]
                            lim = A - d_
                            if a not in {x for x in lim.atoms()} and not any(str(x[1]).startswith('loop') for x in lim.atoms() if x[0] == 'sym'):
                                limit = lim
                                break
                    if limit is None:
                        continue
                    cont, kk = self.resolve(st, fr, places[n])
                    c0 = cont[kk]
                    if not isinstance(c0, Num) or st.ctx.decide(cmp_term('Le', c0.term, limit)) is not True:
                        continue
                    if all(o.ctx.decide(cmp_term('Eq', A, limit)) is True for o in by_count) \
                            and all(o.ctx.decide(cmp_term('Ne', A, limit)) is True for o in backs):
                        taken = (n, a, limit - c0.term, by_count)
                        break
        float_sums = [n for n in range(len(places)) if n not in idx and n in sym_of] if taken else []
        for n in list(idx) + float_sums:
            a = sym_of.get(n)
            if a is None:
                continue
            A = Poly.atom(a)
            kind = None
            ok = True
            changed = False
            for o in backs:
                x = o.state.last_iter_elem[1]
                if not isinstance(x, Num):
                    ok = False
                    break
                X = x.term
                try:
                    v = self.read_place(o.state, o.state.frames[depth], places[n])
                except InterpError:
                    ok = False
                    break
                if not isinstance(v, Num):
                    ok = False
                    break
                if v.term == A + X and v.term != A and v.term != X:
                    # running sum: acc' = acc + element on this back edge
                    k = 'sum'
                    changed = True
                elif v.term == A:
                    # unchanged: element must not beat the accumulator
                    ge = o.ctx.decide(cmp_term('Le', X, A)) is True
                    le_ = o.ctx.decide(cmp_term('Ge', X, A)) is True
                    k = 'max' if ge else ('min' if le_ else None)
                    if ge and le_:
                        k = kind or 'max'
                elif v.term == X:
                    changed = True
                    gt = o.ctx.decide(cmp_term('Ge', X, A)) is True
                    lt = o.ctx.decide(cmp_term('Le', X, A)) is True
                    k = 'max' if gt else ('min' if lt else None)
                    if gt and lt:
                        k = kind or 'max'
                else:
                    ok = False
                    break
                if k is None or (kind is not None and k != kind):
                    ok = False
                    break
                kind = k
            if not ok or not changed or kind is None:
                continue
            # initial value and sequence: fold(init, seq)
            cont, kk = self.resolve(st, fr, places[n])
            init = cont[kk]
            if not isinstance(init, Num):
                continue
            if kind == 'sum':
                # same normal form as Iterator::sum over the sequence (float addition order: init, then the elements in order)
                seq_eff = seq
                if taken is not None:
                    if n == taken[0]:
                        continue
                    # the accumulator must be untouched on the paths that leave because the counter reached 0
                    try:
                        if not all(isinstance(self.read_place(o.state, o.state.frames[depth], places[n]), Num)
                                   and self.read_place(o.state, o.state.frames[depth], places[n]).term == A for o in taken[3]):
                            continue
                    except InterpError:
                        continue
                    seq_eff = ('take', seq, taken[2])
                elif exits and any(o.state.tags.get('last_next') != 'none' for o in exits):
                    continue    # left early for a reason that is not understood: no summary
                term = init.term + t_app('sum', [seq_eff])
                out.append((places[n], term, init.ty))
                continue
            if n not in idx:
                continue
            term = self.fold_term(kind, init.term, seq, st.ctx, seq_len)
            if term is not None:
                out.append((places[n], term, init.ty))
        return out

    def fold_term(self, kind, init, seq, ctx, seq_len=None):
        """normal form of max/min(init, all elements of seq)"""
        from .models import select_term
        if seq_len is not None and isinstance(seq, tuple) and seq and seq[0] == 'from' and seq[2] == Poly.const(1):
            from .models import elem_term
            T = seq[1]
            ln = seq_len + 1
            if elem_term(T, ZERO, ln, ctx) == init:
                return select_term(kind, T, ln, ctx)
        # init = elem(T, 0), seq = from(T, 1)  ==>  max/min over T
        if isinstance(seq, tuple) and seq and seq[0] == 'from' and seq[2] == Poly.const(1):
            T = seq[1]
            a = init.as_single_atom()
            if a is not None and a[0] == 'app' and a[1] == 'elem' and a[2][0] == T and a[2][1] == ZERO:
                ln = self._seq_len(T, ctx)
                return select_term(kind, T, ln, ctx) if ln is not None else t_app(kind, [T])
            if isinstance(T, tuple) and T and T[0] == 'push':
                # elem(push(..), 0) may have been normalised to the pushed element or an element of the inner list
                ln = self._seq_len(T, ctx)
                if ln is not None:
                    from .models import elem_term
                    if elem_term(T, ZERO, ln, ctx) == init:
                        return select_term(kind, T, ln, ctx)
        if seq_len is not None and ctx.decide(cmp_term('Gt', seq_len, 0)) is True:
            # a non-empty sequence: the selection over it has the element hull as its range, so a neutral initial value
            # (0 for a maximum over unsigned elements) drops out
            inner = select_term(kind, seq, seq_len, ctx)
        else:
            inner = t_app(kind, [seq])
        return (t_max if kind == 'max' else t_min)(init, inner, ctx)

    def _seq_len(self, T, ctx):
        n = 0
        while isinstance(T, tuple) and T and T[0] == 'push':
            n += 1
            T = T[1]
        if isinstance(T, tuple) and T and T[0] == 'sym':
            return Poly.sym('len(%s)' % T[1]) + n
        if T == ('new',) or T == ('clear',):
            return Poly.const(n)
        return None

    def loop_places(self, st, fr, cfg, head):
        body_blocks = cfg.loops[head]
        places = []
        for b in sorted(body_blocks):
            blk = fr.fn['blocks'][b]
            for s in blk['stmts']:
                if s['k'] == 'assign':
                    places.append(s['place'])
                    rv = s['rv']
                    if rv['k'] == 'ref' and rv.get('mut'):
                        places.append(rv['place'])
                elif s['k'] == 'setdiscr':
                    places.append(s['place'])
            t = blk['term']
            if t['k'] == 'call':
                places.append(t['dest'])
        seen = set()
        out = []
        for pl in places:
            key = (pl['l'], tuple((p['k'], p.get('i'), p.get('v')) for p in pl['p']))
            if key in seen:
                continue
            seen.add(key)
            out.append(pl)
        return out

    def apply_havoc(self, st, fr, head, places, ranges=None):
        sym_of = {}
        for n, pl in enumerate(places):
            # only havoc places that currently hold a value (were initialised before the loop)
            try:
                cont, k = self.resolve(st, fr, pl)
            except InterpError:
                continue
            cur = cont[k] if (not isinstance(cont, dict) or k in cont) else None
            if cur is None:
                continue
            nv = self.havoc_value(st, cur, 'loop%d' % head)
            if isinstance(nv, Num):
                a = nv.term.as_single_atom()
                if a is not None:
                    sym_of[n] = a
                    if ranges is not None and n in ranges:
                        st.ctx.ranges[a] = ranges[n]
            cont[k] = nv
        return sym_of

    def place_name(self, fr, pl):
        try:
            return 'place %s' % (json.dumps(pl)[:80] if not isinstance(pl, str) else pl)
        except Exception:
            return 'place %r' % (pl,)

    def havoc_value(self, st, v, tag):
        if isinstance(v, Num):
            a = ('sym', st.fresh_name(tag))
            if v.ty in INT_RANGES:
                lo, hi = INT_RANGES[v.ty]
                st.ctx.ranges[a] = (Fr(lo), Fr(hi))
                st.ctx.int_atoms.add(a)
            else:
                st.ctx.ranges[a] = (-INF, INF)
            return Num(Poly.atom(a), v.ty)
        if isinstance(v, BoolV):
            return BoolV(B(('sym', st.fresh_name(tag))))
        if isinstance(v, StructV) and (v.path.endswith('ops::range::Range') or v.path.endswith('ops::range::RangeInclusive')) and 'start' in v.names and 'end' in v.names:
            # Range::next only ever increases `start` up to `end`
            s0, e0 = v.get('start'), v.get('end')
            if isinstance(s0, Num) and isinstance(e0, Num):
                lo, _ = st.ctx.rng(s0.term)
                _, hi = st.ctx.rng(e0.term)
                a = ('sym', st.fresh_name(tag + '.range_start'))
                st.ctx.ranges[a] = (lo, hi)
                st.ctx.int_atoms.add(a)
                return StructV(v.path, v.names, [Num(Poly.atom(a), s0.ty) if n == 'start' else (BoolV(B(('sym', st.fresh_name(tag + '.exhausted')))) if n == 'exhausted' else f) for n, f in zip(v.names, v.fields)], v.targs)
        if isinstance(v, StructV):
            return StructV(v.path, v.names, [self.havoc_value(st, f, tag) for f in v.fields], v.targs)
        if isinstance(v, TupleV):
            return TupleV([self.havoc_value(st, f, tag) for f in v.items])
        if isinstance(v, EnumV):
            adt = self.facts.adts.get(v.path)
            n = len(adt['variants']) if adt else (len(v.vnames) if v.vnames else 2)
            return EnumV(v.path, None, {}, list(range(n)), name=st.fresh_name(tag), vnames=v.vnames, targs=v.targs)
        if isinstance(v, ContV):
            nv = copy.copy(v)
            if v.kind in ('vec_iter', 'range_iter', 'slice_iter') or (v.kind == 'iter' and isinstance(v.term, tuple) and v.term and v.term[0] == 'oldest_ordered'):
                nv.extra = dict(v.extra)
                nv.extra['havocked'] = True
                return nv
            nv.term = ('sym', st.fresh_name(tag))
            if v.len is not None:
                capc = v.cap.const_value() if isinstance(v.cap, Poly) else None
                # a heapless container never holds more than its capacity (type invariant of the container)
                nv.len = st.ctx.sym_range(st.fresh_name(tag + '.len'), 0, capc if (capc is not None and v.kind == 'vec') else 2 ** 32, integer=True)
            return nv
        return v

    def switch(self, st, fr, t):
        st.ctx.origin = fr.fn['path']
        st.ctx.origin_stack = tuple(f_.fn['path'] for f_ in st.frames)
        d = self.operand(st, fr, t['discr'])
        arms = [(int(a[0]), a[1]) for a in t['arms']]
        other = t['otherwise']
        if isinstance(d, EnumV):
            adt = self.facts.adts.get(d.path)

            if d.path == 'core::cmp::Ordering':
                # Less = -1, Equal = 0, Greater = 1 (an i8; the arm values may be printed as their u8 bit pattern)
                arms = [((a - 256) if a > 127 else a, b) for a, b in arms]

            def disc_of(vi):
                if adt:
                    return int(adt['variants'][vi]['discr'])
                if d.path == 'core::cmp::Ordering':
                    return vi - 1
                return vi
            if d.variant is not None:
                dv = disc_of(d.variant)
                for val, bb in arms:
                    if val == dv:
                        return self._jump_single(st, fr, bb)
                return self._jump_single(st, fr, other)
            # symbolic variant: fork over the possible variants
            place = t['discr'].get('place')
            # find the enum object to refine: the discriminant rvalue kept the enum itself
            succs = []
            poss = d.possible if d.possible is not None else list(range(len(adt['variants'])))
            for vi in poss:
                dv = disc_of(vi)
                tgt = other
                for val, bb in arms:
                    if val == dv:
                        tgt = bb
                s2 = st.fork()
                f2 = s2.frames[-1]
                # refine every alias of this enum object (by name) in the forked state
                self.refine_enum(s2, d, vi)
                if self.is_unreachable_block(f2, tgt):
                    continue
                r = self.jump(s2, f2, tgt)
                succs.append(s2)
            return succs
        if isinstance(d, BoolV):
            tb = None
            fb = None
            for val, bb in arms:
                if val == 0:
                    fb = bb
                elif val == 1:
                    tb = bb
            if tb is None:
                tb = other
            if fb is None:
                fb = other
            r = st.ctx.decide(d.b)
            if r is True:
                return self._jump_single(st, fr, tb)
            if r is False:
                return self._jump_single(st, fr, fb)
            succs = []
            for val, tgt in ((True, tb), (False, fb)):
                cond = d.b if val else bnot(d.b)
                # a disjunctive condition (`!(lo <= x && x <= hi)`, `a || b`) is followed disjunct by disjunct, each path
                # carrying its own order fact (first disjunct; second with the first excluded; ...)
                disj = []

                def flat(b_):
                    if b_.k[0] == 'or':
                        flat(b_.k[1])
                        flat(b_.k[2])
                    elif b_.k[0] == 'not' and b_.k[1].k[0] == 'and':
                        flat(bnot(b_.k[1].k[1]))
                        flat(bnot(b_.k[1].k[2]))
                    else:
                        disj.append(b_)
                flat(cond)
                if len(disj) > 1 and len(disj) <= 4:
                    for i_, dj in enumerate(disj):
                        s2 = st.fork()
                        ok_ = s2.ctx.assume(dj, True)
                        for prev in disj[:i_]:
                            ok_ = ok_ and s2.ctx.assume(prev, False)
                        if not ok_:
                            continue
                        self.jump(s2, s2.frames[-1], tgt)
                        succs.append(s2)
                    continue
                s2 = st.fork()
                if not s2.ctx.assume(d.b, val):
                    continue
                self.jump(s2, s2.frames[-1], tgt)
                succs.append(s2)
            return succs
        if isinstance(d, Num):
            c = d.term.const_value()
            if c is not None:
                for val, bb in arms:
                    if val == c:
                        return self._jump_single(st, fr, bb)
                return self._jump_single(st, fr, other)
            succs = []
            lo, hi = st.ctx.rng(d.term)
            for val, tgt in arms:
                if val < lo or val > hi:
                    continue
                s2 = st.fork()
                if not s2.ctx.assume(cmp_term('Eq', d.term, val)):
                    continue
                self.jump(s2, s2.frames[-1], tgt)
                succs.append(s2)
            s2 = st.fork()
            ok = True
            for val, tgt in arms:
                if not s2.ctx.assume(cmp_term('Ne', d.term, val)):
                    ok = False
                    break
            if ok and not self.is_unreachable_block(s2.frames[-1], other):
                lo2, hi2 = s2.ctx.rng(d.term)
                if lo2 <= hi2:
                    self.jump(s2, s2.frames[-1], other)
                    succs.append(s2)
            return succs
        raise InterpError('switch on %r' % (d,))

    def is_unreachable_block(self, fr, bb):
        blk = fr.body['blocks'][bb]
        return blk['term']['k'] == 'unreachable' and not blk['stmts']

    def refine_enum(self, st, d, vi):
        """set the variant of the enum object named d.name everywhere in the state"""
        name = d.name
        seen = set()

        def walk(v):
            if id(v) in seen:
                return
            seen.add(id(v))
            if isinstance(v, EnumV):
                if v.name == name and v.variant is None and name is not None:
                    v.variant = vi
                    v.possible = None
                for pl in v.payload.values():
                    for x in (pl.values() if isinstance(pl, dict) else pl):
                        walk(x)
            elif isinstance(v, StructV):
                for x in v.fields:
                    walk(x)
            elif isinstance(v, TupleV):
                for x in v.items:
                    walk(x)
            elif isinstance(v, LazyV):
                for x in v.fields.values():
                    walk(x)
            elif isinstance(v, ClosureV):
                for x in v.caps:
                    walk(x)
        for c in st.cells.values():
            walk(c)

    def _jump_single(self, st, fr, bb):
        r = self.jump(st, fr, bb)
        return None

    def do_assert(self, st, fr, t):
        st.ctx.origin = fr.fn['path']
        st.ctx.origin_stack = tuple(f_.fn['path'] for f_ in st.frames)
        cond = self.operand(st, fr, t['cond'])
        expected = t['expected']
        b = cond.b if isinstance(cond, BoolV) else None
        if b is None:
            raise InterpError('assert on non-bool')
        want = b if expected else bnot(b)
        r = st.ctx.decide(want)
        key = '%s@%s#%s' % (t['kind'], fr.fn['path'], self.site_ordinal(fr, fr.bb))
        detail = self.describe_assert(st, fr, t)
        if r is True:
            st.obligations.append(Obligation(t['kind'], fr.fn['path'], t['span'], detail, 'discharged', key))
            self.jump(st, fr, t['target'])
            return None
        if r is False:
            st.obligations.append(Obligation(t['kind'], fr.fn['path'], t['span'], detail, 'violated', key))
            st.status = 'panic'
            st.panic_info = 'assert %s at %s' % (t['kind'], t['span'])
            return None
        # undecided: the failing side is a potential panic; continue on the success side with the fact
        st.obligations.append(Obligation(t['kind'], fr.fn['path'], t['span'], detail + ' cond=%r' % (want,), 'unknown', key))
        st.ctx.assume(want, True)
        self.jump(st, fr, t['target'])
        return None

    def late_trait_resolution(self, fr, cal):
        """A trait-method call inside a generic function (`W::at(..)`, `self - other` in a provided method) cannot be resolved
        by the compiler before monomorphisation.  Here the frame knows what its type parameters were instantiated with: the
        parameters are substituted, and the call is resolved to (1) the impl of that trait for the concrete Self type found
        in the facts, (2) the provided body of the trait itself, or (3) the spelled-out concrete path `<S as Trait<..>>::m`
        for the library models.  Returns extra candidates [(path, generic args)] or None."""
        if cal.get('resolved') or not fr.genv:
            return None
        args = cal.get('args') or []
        if not args or 'ty' not in args[0]:
            return None

        def has_param(ty):
            if not isinstance(ty, dict):
                return False
            if ty.get('k') == 'param':
                return True
            return any(has_param(a.get('ty')) for a in ty.get('args', []) if isinstance(a, dict)) or has_param(ty.get('ty'))
        if not any(has_param(a.get('ty')) for a in args if isinstance(a, dict)):
            return None
        sargs = [self.subst_arg(a, fr.genv) for a in args]
        self_ty = sargs[0].get('ty') if isinstance(sargs[0], dict) else None
        if not isinstance(self_ty, dict) or has_param(self_ty):
            return None
        d = cal['def']
        trait, _, meth = d.rpartition('::')
        out = []
        sname = self_ty.get('s') or self_ty.get('n') or ''
        for pth, f in self.facts.fns.items():
            io = f.get('impl_of') or {}
            if io.get('trait') == trait and pth.rsplit('::', 1)[-1] == meth:
                st_ = io.get('self_ty') or {}
                if (st_.get('s') or st_.get('n')) == sname:
                    out.append((pth, sargs[1:] if len(f.get('generics') or []) < len(sargs) else sargs))
        if not out and d in self.facts.fns:
            out.append((d, sargs))       # provided method of the trait, Self bound through the generic arguments
        rest = ', '.join((a.get('ty') or {}).get('s') or (a.get('ty') or {}).get('n') or '?' for a in sargs[1:] if isinstance(a, dict) and 'ty' in a)
        out.append(('<%s as %s%s>::%s' % (sname, trait, ('<%s>' % rest) if rest else '', meth), sargs))
        return out

    def site_ordinal(self, fr, bb):
        """ordinal of this assert/call among the asserts+calls of the function (stable key without line numbers)"""
        n = 0
        for i, blk in enumerate(fr.body['blocks']):
            if i == bb:
                return n
            if blk['term']['k'] in ('assert', 'call'):
                n += 1
        return n

    def describe_assert(self, st, fr, t):
        parts = []
        for o in t.get('ops', []):
            try:
                v = self.operand(st, fr, o)
                if isinstance(v, Num):
                    lo, hi = st.ctx.rng(v.term)
                    parts.append('%r in [%s, %s]' % (v.term, _fmt(lo), _fmt(hi)))
                else:
                    parts.append(repr(v))
            except InterpError:
                parts.append('?')
        return '%s(%s)' % (t['kind'], '; '.join(parts))

    # ------------------------------------------------------------------ calls
    def call(self, st, fr, t):
        cal = t['callee']
        args = [self.operand(st, fr, a) for a in t['args']]
        if 'def' not in cal:
            # indirect call through a fn value / closure
            fv = self.operand(st, fr, cal['indirect'])
            raise InterpError('indirect call to %r' % (fv,))
        target = None
        gargs = None
        via = cal.get('via_from')
        res = cal.get('resolved')
        cands = []
        if via:
            cands.append((via['path'], via['args']))
        if res:
            cands.append((res['path'], res['args']))
        cands.append((cal['def'], cal['args']))
        for path, ga in cands:
            sf = self.stub_for(path)
            if sf is not None:
                out = sf(self, st, fr, t, args)
                return self.finish_model(st, fr, t, out)
        late = self.late_trait_resolution(fr, cal)
        if late is not None:
            cands = late + cands
        for path, ga in cands:
            if path in self.facts.fns and path not in self.no_inline:
                target, gargs = path, ga
                break
        st.calls.append((fr.fn['path'], cands[0][0], t['span']))
        if target is not None:
            if len(st.frames) >= self.max_depth:
                raise InterpError('inlining depth exceeded at %s' % target)
            fn = self.facts.fns[target]
            genv = {}
            for g, a in zip(fn['generics'], gargs):
                if 'const' in a:
                    p = self.const_arg_poly(a['const'], fr.genv)
                    genv[g['name']] = p if p is not None else a['const']
                elif 'ty' in a:
                    genv[g['name']] = self.subst_ty(a['ty'], fr.genv)
            nf = Frame(fn, fn, genv, fr.depth + 1)
            if '{closure' in target and len(args) == 2 and isinstance(args[1], (TupleV, UnitV)) and (cal.get('def') or '').rsplit('::', 1)[-1] in ('call', 'call_mut', 'call_once') \
                    and fn.get('arg_count', 0) == 1 + (len(args[1].items) if isinstance(args[1], TupleV) else 0):
                # a closure called directly (`settle(None, v)`): the arguments travel as one tuple and are spread over the
                # parameters of the closure body; a by-value environment (`call_once`) is passed as it is
                env = args[0]
                l1 = (fn.get('locals') or [None, {}])[1].get('ty') or {}
                if l1.get('k') == 'ref' and not isinstance(env, RefV):
                    env = RefV(st.new_cell(env), (), True)
                elif l1.get('k') != 'ref' and isinstance(env, RefV):
                    env = self.deref(st, env)
                args = [env] + (list(args[1].items) if isinstance(args[1], TupleV) else [])
            for i, a in enumerate(args):
                nf.locals[i + 1] = st.new_cell(a)
            nf.dest = t['dest']
            nf.ret_target = t['target']
            st.frames.append(nf)
            self.stats['inlined'] += 1
            # entering block 0 of the callee (may be a loop head)
            nf.bb = 0
            return None
        # library model
        from .models import norm, lazy_iter_model
        lm = lazy_iter_model(self, st, cands, args)
        if lm is not None:
            self.stats['modelled'] += 1
            self.models_used.add(cands[0][0] + ' (lazy iterator chain)')
            out = lm(self, st, fr, t, args, cands[0][1])
            return self.finish_model(st, fr, t, out)
        for path, ga in cands:
            m = self.models.get(norm(path))
            if m is not None:
                self.stats['modelled'] += 1
                self.models_used.add(path)
                a0 = args[0] if args else None
                if isinstance(a0, RefV):
                    try:
                        a0 = self.deref(st, a0)
                    except InterpError:
                        a0 = None
                if isinstance(a0, EnumV) and a0.variant is None and a0.path in ('core::option::Option', 'core::result::Result') \
                        and path.startswith(('core::option::Option', 'core::result::Result')):
                    # the combinators are modelled per variant: an Option whose variant the state does not know is split
                    succs = []
                    for vi in (a0.possible if a0.possible is not None else [0, 1]):
                        s2 = st.fork()
                        f2 = s2.frames[-1]
                        a2 = [self.operand(s2, f2, a) for a in t['args']]
                        e2 = self.deref(s2, a2[0]) if isinstance(a2[0], RefV) else a2[0]
                        if isinstance(e2, EnumV) and e2.variant is None:
                            self.refine_enum(s2, e2, vi)
                            e2.variant, e2.possible = vi, None
                        if isinstance(e2, EnumV) and vi not in e2.payload:
                            # payload the state never looked at: a fresh value of the type argument
                            tys = [g['ty'] for g in (ga or []) if isinstance(g, dict) and 'ty' in g]
                            is_opt = e2.path.endswith('Option')
                            fty = (tys[0] if tys else None) if (is_opt or vi == 0) else (tys[1] if len(tys) > 1 else None)
                            if is_opt and vi == 0:
                                e2.payload[0] = []
                            elif isinstance(fty, dict):
                                e2.payload[vi] = [self.sym_value(s2, self.subst_ty(fty, f2.genv), s2.fresh_name('payload'))]
                        r = self.finish_model(s2, f2, t, m(self, s2, f2, t, a2, ga))
                        succs += r if r else [s2]
                    return succs
                out = m(self, st, fr, t, args, ga)
                if out is DECLINE:
                    self.stats['modelled'] -= 1
                    break
                return self.finish_model(st, fr, t, out)
        import re as _re
        # operator traits on primitive integers with reference operands (`x >> &n`, `&a + &b`): the primitive operation on
        # the dereferenced operands, with the overflow / shift-amount check the inherited overflow checks perform
        for path, ga in cands:
            mm = _re.match(r"^<&?(?:'\w+ )?(\w+) as core::ops::(?:bit|arith)::(Shr|Shl|Add|Sub|Mul|BitAnd|BitOr|BitXor|Div|Rem)<&?(?:'\w+ )?(\w+)>>::\w+$", path)
            if mm and len(args) == 2 and mm.group(1) in INT_RANGES:
                a_ = self.deref(st, args[0]) if isinstance(args[0], RefV) else args[0]
                b_ = self.deref(st, args[1]) if isinstance(args[1], RefV) else args[1]
                if isinstance(a_, Num) and isinstance(b_, Num):
                    op_, ity = mm.group(2), mm.group(1)
                    ty_ = {'k': 'int' if ity.startswith('i') else 'uint', 'n': ity, 's': ity}
                    r_ = self.binop(st, fr, op_, a_, b_, ty_, t.get('span', ''))
                    bits = {'u8': 8, 'i8': 8, 'u16': 16, 'i16': 16, 'u32': 32, 'i32': 32, 'u64': 64, 'i64': 64, 'usize': 64, 'isize': 64}[ity]
                    if op_ in ('Shr', 'Shl'):
                        cond = cmp_term('Lt', b_.term, bits)
                    elif isinstance(r_, Num) and op_ in ('Add', 'Sub', 'Mul'):
                        raw = {'Add': a_.term + b_.term, 'Sub': a_.term - b_.term, 'Mul': a_.term * b_.term}[op_]
                        lo_, hi_ = INT_RANGES[ity]
                        cond = band(cmp_term('Ge', raw, lo_), cmp_term('Le', raw, hi_))
                        r_ = Num(raw, ity)
                    else:
                        cond = None
                    if cond is not None:
                        ok = st.ctx.decide(cond)
                        key = 'overflow:%s@%s#%s' % (op_, fr.fn['path'], self.site_ordinal(fr, fr.bb))
                        st.obligations.append(Obligation('overflow:' + op_, fr.fn['path'], t.get('span', ''), '%s on references: %r, %r' % (op_, a_.term, b_.term),
                                                         'discharged' if ok is True else ('violated' if ok is False else 'unknown'), key))
                        if ok is False:
                            return self.finish_model(st, fr, t, ('panic', 'attempt to %s with overflow' % op_.lower()))
                        if ok is None:
                            st.ctx.assume(cond)
                    self.models_used.add('core::ops on primitive references (%s)' % op_)
                    return self.finish_model(st, fr, t, r_)
        # checked conversions between integer types
        for path, ga in cands:
            if _re.match(r"^core::convert::num::(?:\w+::)?<impl core::convert::TryFrom<\w+> for \w+>::try_from$", path) or \
                    _re.match(r"^<\w+ as core::convert::TryFrom<\w+>>::try_from$", path):
                if len(args) == 1 and isinstance(args[0], Num):
                    from .models import m_int_try_from
                    self.models_used.add('integer TryFrom')
                    return self.finish_model(st, fr, t, m_int_try_from(self, st, fr, t, args, ga))
        # comparison traits on primitive numbers (`a < b` under a type parameter, `x.lt(&y)`)
        for path, ga in cands:
            mm = _re.match(r"^<&?(?:'\w+ )?(\w+) as core::cmp::(?:PartialOrd|PartialEq)(?:<&?(?:'\w+ )?\w+>)?>::(lt|le|gt|ge|eq|ne)$", path)
            if mm and len(args) == 2 and (mm.group(1) in INT_RANGES or mm.group(1) in ('f32', 'f64')):
                a_, b_ = args
                for _ in range(2):
                    a_ = self.deref(st, a_) if isinstance(a_, RefV) else a_
                    b_ = self.deref(st, b_) if isinstance(b_, RefV) else b_
                if isinstance(a_, Num) and isinstance(b_, Num):
                    op_ = {'lt': 'Lt', 'le': 'Le', 'gt': 'Gt', 'ge': 'Ge', 'eq': 'Eq', 'ne': 'Ne'}[mm.group(2)]
                    ity = mm.group(1)
                    ty_ = {'k': 'float' if ity.startswith('f') else ('int' if ity.startswith('i') else 'uint'), 'n': ity, 's': ity}
                    self.models_used.add('core::cmp on primitives (%s)' % op_)
                    return self.finish_model(st, fr, t, self.binop(st, fr, op_, a_, b_, ty_, t.get('span', '')))
        # lossless primitive conversions  <T as From<U>>::from  for numeric T, U: the value is unchanged
        for path, ga in cands:
            mm = _re.match(r'^core::convert::num::<impl core::convert::From<(\w+)> for (\w+)>::from$', path)
            if mm and len(args) == 1 and isinstance(args[0], Num):
                self.models_used.add('core::convert::num::From (numeric widening)')
                return self.finish_model(st, fr, t, Num(args[0].term, mm.group(2)))
            if mm and len(args) == 1 and isinstance(args[0], BoolV):
                c = args[0].b.value()
                v = Num(Poly.const(1 if c else 0), mm.group(2)) if c is not None else Num(Poly.atom(('ite', args[0].b, ONE, ZERO)), mm.group(2))
                return self.finish_model(st, fr, t, v)
        # unknown external callee: fail closed is the rule's business; record it
        self.stats['unmodelled'] += 1
        self.unmodelled.add(cands[0][0])
        st.notes.append(('unmodelled', cands[0][0], t['span']))
        dest_ty = self.local_ty(fr, t['dest'])
        for a in args:
            if isinstance(a, RefV) and a.mut:
                tgt = self.deref(st, a)
                self.store_ref(st, a, self.havoc_value(st, tgt, 'ext'))
        tag = st.fresh_name('ret:' + cands[0][0].split('::')[-1])
        # the unknown result may depend on everything the arguments mention: remembered for the information-flow rules
        deps = set()
        for a in args:
            deps |= self.value_syms(st, a)
        st.ctx.sym_deps[tag] = frozenset(deps)
        v = self.sym_value(st, dest_ty, tag) if isinstance(dest_ty, dict) else Opaque(dest_ty or '?', 'ret')
        return self.finish_model(st, fr, t, v)

    def value_syms(self, st, v, depth=0):
        """names of all symbols an abstract value mentions (through references, aggregates and earlier unknown results)"""
        out = set()
        if depth > 6 or v is None:
            return out

        def poly_syms(p):
            stack = [p]
            while stack:
                q = stack.pop()
                for a in q.atoms():
                    if a[0] == 'sym':
                        out.add(a[1])
                        for pre, d in st.ctx.sym_deps.items():
                            if a[1].startswith(pre):
                                out.update(d)
                    for x in a[1:]:
                        if isinstance(x, Poly):
                            stack.append(x)
                        elif isinstance(x, tuple):
                            stack.extend(y for y in x if isinstance(y, Poly))

        def b_syms(b):
            k = b.k
            if k[0] == 'sym':
                out.add(k[1])
                for pre, d in st.ctx.sym_deps.items():
                    if isinstance(k[1], str) and k[1].startswith(pre):
                        out.update(d)
            for x in k[1:]:
                if isinstance(x, Poly):
                    poly_syms(x)
                elif isinstance(x, B):
                    b_syms(x)
        if isinstance(v, Num):
            poly_syms(v.term)
        elif isinstance(v, BoolV):
            b_syms(v.b)
        elif isinstance(v, RefV):
            try:
                out |= self.value_syms(st, self.deref(st, v), depth + 1)
            except InterpError:
                pass
        elif isinstance(v, StructV):
            for f in v.fields:
                out |= self.value_syms(st, f, depth + 1)
        elif isinstance(v, TupleV):
            for f in v.items:
                out |= self.value_syms(st, f, depth + 1)
        elif isinstance(v, EnumV):
            for pl in v.payload.values():
                for f in (pl if isinstance(pl, list) else []):
                    out |= self.value_syms(st, f, depth + 1)
        elif isinstance(v, ContV):
            if v.len is not None:
                poly_syms(v.len)
        return out

    def local_ty(self, fr, place):
        if place['p']:
            return None
        return fr.body['locals'][place['l']]['ty']

    def finish_model(self, st, fr, t, out):
        st.ctx.origin = fr.fn['path']
        st.ctx.origin_stack = tuple(f_.fn['path'] for f_ in st.frames)
        """out: a value | ('panic', msg) | ('fork', [(B or None, value_or_thunk)])"""
        if isinstance(out, tuple) and out and out[0] == 'panic':
            key = 'panic@%s#%s' % (fr.fn['path'], self.site_ordinal(fr, fr.bb))
            st.obligations.append(Obligation('panic-call', fr.fn['path'], t['span'], out[1], 'violated', key))
            st.status = 'panic'
            st.panic_info = out[1]
            return None
        if isinstance(out, tuple) and out and out[0] == 'states':
            # the model advanced forked copies of the state itself (e.g. an unrolled for_each over a branching closure)
            succs = []
            for s2, val in out[1]:
                f2 = s2.frames[-1]
                self.write_place(s2, f2, t['dest'], val)
                self.jump(s2, f2, t['target'])
                succs.append(s2)
            return succs
        if isinstance(out, tuple) and out and out[0] == 'fork':
            succs = []
            for cond, val in out[1]:
                s2 = st.fork()
                if cond is not None and not s2.ctx.assume(cond, True):
                    continue
                f2 = s2.frames[-1]
                v = val(self, s2, f2) if callable(val) else copy.deepcopy(val)
                if isinstance(v, tuple) and v and v[0] == 'panic':
                    key = 'panic@%s#%s' % (f2.fn['path'], self.site_ordinal(f2, f2.bb))
                    s2.obligations.append(Obligation('panic-call', f2.fn['path'], t['span'], v[1], 'violated', key))
                    s2.status = 'panic'
                    s2.panic_info = v[1]
                    succs.append(s2)
                    continue
                if isinstance(v, EnumV) and v.variant is not None and (t.get('callee') or {}).get('def', '').endswith('::next'):
                    # rules that look at one loop iteration ask whether the driving iterator had run out on this path
                    s2.tags['last_next'] = 'some' if v.variant == 1 else 'none'
                self.write_place(s2, f2, t['dest'], v)
                self.jump(s2, f2, t['target'])
                succs.append(s2)
            return succs
        self.write_place(st, fr, t['dest'], out)
        self.jump(st, fr, t['target'])
        return None

    def call_fn_sync(self, st, path, args, genv=None):
        """run a (straight-line, non-forking) function to completion on the same state; returns its value"""
        fn = self.facts.fns.get(path)
        if fn is None:
            raise InterpError('function body not in facts: %s' % path)
        sub = Frame(fn, fn, genv or {}, len(st.frames))
        for i, a in enumerate(args):
            sub.locals[i + 1] = st.new_cell(a)
        return self._run_sync(st, sub)

    def call_closure(self, st, closure, args):
        """run a closure body to completion on the *same* state (no forking allowed inside);
        returns the return value.  Used by iterator models (for_each / retain)."""
        fn = self.facts.fns.get(closure.path)
        if fn is None:
            raise InterpError('closure body not in facts: %s' % closure.path)
        sub = Frame(fn, fn, {}, len(st.frames))
        cl_cell = st.new_cell(closure)
        loc = fn.get('locals') or []
        by_ref = not (len(loc) > 1 and loc[1]['ty'].get('k') != 'ref')
        # Fn / FnMut bodies take the environment by reference, FnOnce bodies (`bool::then(|| ..)`) by value
        sub.locals[1] = st.new_cell(RefV(cl_cell, (), True)) if by_ref else cl_cell
        for i, a in enumerate(args):
            sub.locals[i + 2] = st.new_cell(a)
        return self._run_sync(st, sub)

    def _run_sync(self, st, sub):
        saved = st.frames
        st.frames = saved + [sub]
        self._nosplit = getattr(self, '_nosplit', 0) + 1
        try:
            steps = 0
            while True:
                steps += 1
                if steps > 500:
                    raise InterpError('closure body too long')
                if st.frames[-1] is not sub and len(st.frames) <= len(saved):
                    break
                fr = st.frames[-1]
                blk = fr.body['blocks'][fr.bb]
                self.fns_analysed.add(fr.fn['path'])
                for s in blk['stmts']:
                    self.exec_stmt(st, fr, s)
                t = blk['term']
                k = t['k']
                if k == 'return':
                    rv = st.cells.get(fr.locals.get(0))
                    st.frames.pop()
                    if fr is sub:
                        return rv
                    caller = st.frames[-1]
                    if fr.dest is not None:
                        self.write_place(st, caller, fr.dest, rv if rv is not None else UnitV())
                    caller.bb = fr.ret_target
                elif k == 'goto' or k == 'drop':
                    fr.bb = t['target']
                elif k == 'assert':
                    r = self.do_assert(st, fr, t)
                    if st.status == 'panic':
                        raise InterpError('closure panics: %s' % st.panic_info)
                elif k == 'call':
                    r = self.call(st, fr, t)
                    if r is not None:
                        raise InterpError('fork inside closure body')
                    if st.status == 'panic':
                        raise InterpError('closure panics: %s' % st.panic_info)
                elif k == 'switch':
                    d = self.operand(st, fr, t['discr'])
                    r = self.switch(st, fr, t)
                    if r is not None:
                        raise InterpError('fork inside closure body (switch on %r)' % (d,))
                else:
                    raise InterpError('terminator %s in closure' % k)
        finally:
            st.frames = saved
            self._nosplit -= 1


def round_float(c, n):
    """round an exact rational to the nearest f32/f64 (constant folding follows IEEE semantics)"""
    import struct
    try:
        f = float(c)   # nearest f64 (correctly rounded for Fractions)
    except OverflowError:
        return c
    if n == 'f32':
        try:
            f = struct.unpack('<f', struct.pack('<f', f))[0]
        except OverflowError:
            return c
        if f in (float('inf'), float('-inf')):
            return c
    return Fr(f)


def _fmt(x):
    if x in (INF, -INF):
        return str(x)
    if isinstance(x, Fr) and x.denominator != 1:
        return '%.9g' % float(x)
    return str(x)
