"""Loader and indexes over the JSON facts produced by the mirfacts driver (E0)."""
import json
import os
import hashlib
import subprocess
import shutil
import tempfile
import time
from fractions import Fraction as Fr

from .terms import f32_from_bits, f64_from_bits

VERIF = os.path.dirname(os.path.dirname(os.path.abspath(__file__)))
CRATES = ['synth_utils', 'midi_convert', 'midi_types', 'biquad']


class FactsError(Exception):
    pass


def _tail(path, n):
    """last n `::`-separated segments, ignoring `::` inside generic brackets"""
    segs, depth, cur = [], 0, ''
    i = 0
    while i < len(path):
        c = path[i]
        if c == '<':
            depth += 1
        elif c == '>':
            depth -= 1
        if depth == 0 and path.startswith('::', i):
            segs.append(cur)
            cur = ''
            i += 2
            continue
        cur += c
        i += 1
    segs.append(cur)
    return '::'.join(segs[-n:])


class TailDict(dict):
    """items of the crate addressed by definition path; an item that moved to another (private) module is still found
    through its unique tail (`Type::method`, constant or type name)"""

    def __init__(self, n):
        super().__init__()
        self.n = n
        self._alias = {}

    def _resolve(self, key):
        if dict.__contains__(self, key):
            return key
        if key in self._alias:
            return self._alias[key]
        if not isinstance(key, str) or not key.startswith('synth_utils::'):
            return None
        t = _tail(key, self.n)
        c = [k for k in dict.keys(self) if k.startswith('synth_utils::') and _tail(k, self.n) == t]
        r = c[0] if len(c) == 1 else None
        if r is None and not c and self.n == 2 and '::' in t:
            # an inherent method moved into the impl of a private trait for the same type:
            # `Type::method` is then `<path::Type as path::Trait>::method`
            ty, meth = t.rsplit('::', 1)
            c = [k for k in dict.keys(self) if k.startswith('<synth_utils::') and ' as synth_utils::' in k and k.endswith('>::' + meth)
                 and _tail(k[1:].split(' as ')[0], 1).split('<')[0] == ty.split('<')[0]]
            r = c[0] if len(c) == 1 else None
        self._alias[key] = r
        return r

    def __contains__(self, key):
        return self._resolve(key) is not None

    def __getitem__(self, key):
        r = self._resolve(key)
        if r is None:
            raise KeyError(key)
        return dict.__getitem__(self, r)

    def get(self, key, default=None):
        r = self._resolve(key)
        return dict.__getitem__(self, r) if r is not None else default


class Facts:
    def __init__(self, directory):
        self.dir = directory
        self.crates = {}
        self.fns = TailDict(2)        # path -> fn json
        self.adts = TailDict(1)       # path -> adt json
        self.consts = TailDict(1)     # path -> const json
        self.tables = TailDict(1)     # const path -> list[Fraction]
        for c in CRATES:
            p = os.path.join(directory, c + '.json')
            if not os.path.exists(p):
                raise FactsError('missing fact file for crate %s (%s)' % (c, p))
            d = json.load(open(p))
            self.crates[c] = d
            for f in d['fns']:
                f['crate'] = c
                # the same path can be emitted twice for `const fn` (ctfe + runtime): keep the first
                if not dict.__contains__(self.fns, f['path']):
                    dict.__setitem__(self.fns, f['path'], f)
            for a in d['adts']:
                a['crate'] = c
                dict.__setitem__(self.adts, a['path'], a)
            for k in d['consts']:
                k['crate'] = c
                dict.__setitem__(self.consts, k['path'], k)
                if k.get('mutable'):
                    k.pop('val', None)      # a `static mut` does not keep its initialiser
                v = k.get('val')
                if isinstance(v, dict) and 'array' in v:
                    vals = []
                    ok = True
                    for e in v['array']:
                        if 'float_bits' in e:
                            w = e.get('w', 32)
                            f = f32_from_bits(int(e['float_bits'])) if w == 32 else f64_from_bits(int(e['float_bits']))
                            vals.append(Fr(f))
                        elif 'int' in e:
                            vals.append(Fr(int(e['int'])))
                        else:
                            ok = False
                            break
                    if ok:
                        dict.__setitem__(self.tables, k['path'], vals)
        self._cfg = {}
        self.field_aliases = {}
        self.fallback_consts = {}
        self._canon_consts = None
        self._canonicalise_fields()

    @staticmethod
    def _tykey(t):
        """type identity for locating renamed state: the type string without generic arguments (constants used as
        const-generic arguments may have been renamed as well)"""
        t = t if isinstance(t, str) else (t.get('s') or '')
        return t.split('<')[0]

    def _canonicalise_fields(self):
        """The rules address private state by the field names of the pinned tree (sa/canon_fields.json).  A field that was
        merely RENAMED (same type, old name gone, new name unknown) is located by type, then by name similarity / declaration
        order, and presented to the rules under its canonical name; the mapping is recorded in evidence.  This only locates
        state: every obligation is still decided on the behaviour of the located field, so a wrong guess can only make a
        rule fail (as failing closed on the missing name would), never pass."""
        import difflib
        p = os.path.join(os.path.dirname(os.path.abspath(__file__)), 'canon_fields.json')
        if not os.path.exists(p):
            return
        canon = json.load(open(p))
        for path, fl in canon.items():
            a = self.adts.get(path)
            if a is None or a.get('kind') != 'struct':
                continue
            fields = a['variants'][0]['fields']
            have = {f['name'] for f in fields}
            cnames = {n for n, _ in fl}
            # (0) a field kept its name but was wrapped in a private newtype / helper struct of this crate (`HeldNotes(Vec<..>)`,
            # `RunLength(usize)`): the rules see the wrapped value under the same name
            for i, f in enumerate(fields):
                ct = next((t for n, t in fl if n == f['name']), None)
                if ct is None or self._tykey(f['ty']) == self._tykey(ct) or f['ty'].get('k') != 'adt':
                    continue
                sub = self.adts.get(f['ty'].get('path'))
                if self._tykey(ct) == 'bool' and sub is not None and sub.get('kind') == 'enum' and sub.get('crate') == a.get('crate') \
                        and len(sub['variants']) == 2 and not any(v_['fields'] for v_ in sub['variants']):
                    # the flag kept its name and became a private two-variant enum (see step c)
                    a.setdefault('canon_codecs', {})[f['name']] = {'enum': sub['path'], 'vnames': [v_['name'] for v_ in sub['variants']], 'actual_name': f['name']}
                    continue
                sub = self.adts.get(f['ty'].get('path'))
                if sub is None or sub.get('crate') != a.get('crate') or sub.get('kind') != 'struct' or f['ty'].get('path') in canon:
                    continue
                inner = [(j, g) for j, g in enumerate(sub['variants'][0]['fields']) if self._tykey(g['ty']) == self._tykey(ct)]
                if len(inner) == 1:
                    a.setdefault('canon_paths', {})[f['name']] = [i, inner[0][0]]
                    a.setdefault('canon_leaf_ty', {})[f['name']] = inner[0][1]['ty']
                    self.field_aliases.setdefault(path, {})[f['name']] = 'wrapped in %s' % f['ty'].get('path', '?').split('::')[-1]
            missing = [(n, t) for n, t in fl if n not in have]
            extra = [f for f in fields if f['name'] not in cnames]
            if not missing or not extra:
                continue
            # (a) state moved into a nested private struct of this crate (fields grouped into a sub-struct, a value wrapped in
            # a private newtype): located at an index path, by name first, then by type in declaration order
            leaves = []     # (index path, field json)
            for f in extra:
                sub = self.adts.get(f['ty'].get('path')) if f['ty'].get('k') == 'adt' else None
                if sub is None or sub.get('crate') != a.get('crate') or sub.get('kind') != 'struct' or f['ty'].get('path') in canon \
                        or dict.__contains__(self.adts, f['ty'].get('path')) and self.adts[f['ty']['path']] is a:
                    continue
                for j, g in enumerate(sub['variants'][0]['fields']):
                    leaves.append(((fields.index(f), j), g))
            if leaves:
                taken = set()
                paths, leaf_ty = {}, {}
                for n, t in missing:
                    c = [(pth, g) for pth, g in leaves if g['name'] == n and self._tykey(g['ty']) == self._tykey(t) and pth not in taken]
                    if len(c) == 1:
                        taken.add(c[0][0]); paths[n] = list(c[0][0]); leaf_ty[n] = c[0][1]['ty']
                for n, t in missing:
                    if n in paths:
                        continue
                    c = [(pth, g) for pth, g in leaves if self._tykey(g['ty']) == self._tykey(t) and pth not in taken]
                    if c:
                        taken.add(c[0][0]); paths[n] = list(c[0][0]); leaf_ty[n] = c[0][1]['ty']
                if paths:
                    a.setdefault('canon_paths', {}).update(paths)
                    a.setdefault('canon_leaf_ty', {}).update(leaf_ty)
                    self.field_aliases.setdefault(path, {}).update({n: 'nested at %s' % '.'.join(str(i) for i in pth) for n, pth in paths.items()})
                    missing = [(n, t) for n, t in missing if n not in paths]
                    used_outer = {pth[0] for pth in paths.values()}
                    extra = [f for f in extra if fields.index(f) not in used_outer]
            if not missing or not extra:
                continue
            # (b) the value is kept in a single-field wrapper type of a dependency (`channel: u8` held as `midi_types::Channel`):
            # the rules see the wrapped scalar under the canonical name
            for n, t in list(missing):
                c = []
                for f in extra:
                    sub = self.adts.get(f['ty'].get('path')) if f['ty'].get('k') == 'adt' else None
                    if sub is None or sub.get('kind') != 'struct' or sub.get('crate') == a.get('crate') or len(sub['variants'][0]['fields']) != 1:
                        continue
                    g = sub['variants'][0]['fields'][0]
                    if self._tykey(g['ty']) == self._tykey(t):
                        c.append((f, g))
                if len(c) == 1:
                    f, g = c[0]
                    a.setdefault('canon_paths', {})[n] = [fields.index(f), 0]
                    a.setdefault('canon_leaf_ty', {})[n] = g['ty']
                    self.field_aliases.setdefault(path, {})[n] = '%s (wrapped in %s)' % (f['name'], f['ty'].get('path', '?').split('::')[-1])
                    missing.remove((n, t))
                    extra = [x for x in extra if x is not f]
            if not missing or not extra:
                continue
            # (c) a flag the rules know as `bool` is held as a private enum with two field-less variants (`enum Rollover { Clear,
            # Pending }`): located by position / name, presented under the canonical name; which variant means `true` is read
            # from the accessor of the same name (Interp.bool_codecs)
            for n, t in list(missing):
                if self._tykey(t) != 'bool':
                    continue
                c = []
                for f_ in extra:
                    sub = self.adts.get(f_['ty'].get('path')) if f_['ty'].get('k') == 'adt' else None
                    if sub is None or sub.get('kind') != 'enum' or sub.get('crate') != a.get('crate') or len(sub['variants']) != 2 \
                            or any(v_['fields'] for v_ in sub['variants']):
                        continue
                    c.append((f_, sub))
                if not c:
                    continue
                ci = [x for x, _ in fl].index(n)
                f_, sub = min(c, key=lambda fs: (0 if fields.index(fs[0]) == ci else 1, -difflib.SequenceMatcher(None, n, fs[0]['name']).ratio()))
                a.setdefault('canon_codecs', {})[n] = {'enum': sub['path'], 'vnames': [v_['name'] for v_ in sub['variants']], 'actual_name': f_['name']}
                f_['actual_name'] = f_['name']
                f_['name'] = n
                missing.remove((n, t))
                extra = [x for x in extra if x is not f_]
            if not missing or not extra:
                continue
            used = set()
            for n, t in missing:
                cands = [f for f in extra if self._tykey(f['ty']) == self._tykey(t) and id(f) not in used]
                if not cands:
                    continue
                # a rename keeps the declaration position far more often than the spelling: same index first, then the
                # earliest unmatched field of the type, name similarity only as the last tie-break
                ci = [x for x, _ in fl].index(n)
                best = min(cands, key=lambda f: (0 if fields.index(f) == ci else 1, fields.index(f), -difflib.SequenceMatcher(None, n, f['name']).ratio()))
                used.add(id(best))
                self.field_aliases.setdefault(path, {})[n] = best['name']
                best['actual_name'] = best['name']
                best['name'] = n

    def real(self, kind, path):
        """definition path under which an item is actually found (items may have moved between private modules)"""
        d = {'fn': self.fns, 'adt': self.adts, 'const': self.consts, 'table': self.tables}[kind]
        r = d._resolve(path)
        return r if r is not None else path

    # ---- lookup helpers
    def fn(self, path):
        f = self.fns.get(path)
        if f is None:
            raise FactsError('anchor function not found in facts: %s' % path)
        return f

    def find_fns(self, suffix):
        return [p for p in self.fns if p.endswith(suffix)]

    def adt(self, path):
        a = self.adts.get(path)
        if a is None:
            raise FactsError('anchor type not found in facts: %s' % path)
        return a

    def _canon_const(self, path):
        """A named constant the rules read as a *specification value* (half step, hysteresis width, capture times, ...) may
        have been renamed or inlined.  The value the property is stated for (the pinned tree's, sa/canon_consts.json) is
        used instead and the substitution is recorded; the code's own literals still flow into the terms the rules compare
        against these values, so a changed number is reported by the term rules rather than by the lookup."""
        if self._canon_consts is None:
            p = os.path.join(os.path.dirname(os.path.abspath(__file__)), 'canon_consts.json')
            self._canon_consts = json.load(open(p)) if os.path.exists(p) else {}
        v = self._canon_consts.get(path)
        if v is not None:
            self.fallback_consts[path] = v
        return v

    def const_int(self, path):
        k = self.consts.get(path)
        v = k.get('val') if k is not None else None
        if v is None or 'int' not in v:
            v = self._canon_const(path)
        if v is None or 'int' not in v:
            raise FactsError('anchor constant not found/evaluated: %s' % path)
        return int(v['int'])

    def const_float(self, path):
        k = self.consts.get(path)
        v = k.get('val') if k is not None else None
        if v is None or 'float_bits' not in v:
            v = self._canon_const(path)
        if v is None or 'float_bits' not in v:
            raise FactsError('anchor constant not found/evaluated: %s' % path)
        return Fr(f32_from_bits(int(v['float_bits'])))

    # ---- CFG
    def cfg(self, path):
        if path in self._cfg:
            return self._cfg[path]
        f = self.fn(path)
        c = CFG(f)
        self._cfg[path] = c
        return c


def term_succs(t):
    k = t['k']
    if k == 'goto':
        return [t['target']]
    if k == 'switch':
        return [a[1] for a in t['arms']] + [t['otherwise']]
    if k in ('call', 'drop', 'assert'):
        return [t['target']] if t.get('target') is not None else []
    return []


class CFG:
    def __init__(self, f):
        self.f = f
        blocks = f['blocks']
        n = len(blocks)
        self.n = n
        self.succ = [term_succs(b['term']) for b in blocks]
        self.pred = [[] for _ in range(n)]
        for i, ss in enumerate(self.succ):
            for s in ss:
                self.pred[s].append(i)
        # reachable
        seen = set()
        stack = [0]
        order = []
        while stack:
            x = stack.pop()
            if x in seen:
                continue
            seen.add(x)
            order.append(x)
            stack.extend(self.succ[x])
        self.reachable = seen
        # dominators (iterative)
        dom = {i: set(seen) for i in seen}
        dom[0] = {0}
        changed = True
        while changed:
            changed = False
            for i in order:
                if i == 0:
                    continue
                ps = [p for p in self.pred[i] if p in seen]
                if not ps:
                    continue
                nd = set.intersection(*[dom[p] for p in ps]) | {i}
                if nd != dom[i]:
                    dom[i] = nd
                    changed = True
        self.dom = dom
        # natural loops
        self.loops = {}  # head -> set(blocks)
        for i in seen:
            for s in self.succ[i]:
                if s in dom[i]:
                    body = {s, i}
                    st = [i]
                    while st:
                        x = st.pop()
                        if x == s:
                            continue
                        for p in self.pred[x]:
                            if p in seen and p not in body:
                                body.add(p)
                                st.append(p)
                    self.loops.setdefault(s, set()).update(body)

    def dominates(self, a, b):
        return a in self.dom.get(b, ())


# ---------------------------------------------------------------------------------------
# extraction with caching

def tree_key(repo='/repo'):
    h = hashlib.sha256()
    for root, dirs, files in os.walk(repo):
        dirs[:] = sorted(d for d in dirs if d not in ('.git', 'target'))
        for fn in sorted(files):
            p = os.path.join(root, fn)
            rel = os.path.relpath(p, repo)
            if not (rel.startswith('src' + os.sep) or rel in ('Cargo.toml', 'Cargo.lock')):
                continue
            h.update(rel.encode())
            try:
                h.update(open(p, 'rb').read())
            except OSError:
                pass
    drv = os.path.join(VERIF, 'driver', 'target', 'release', 'mirfacts')
    if os.path.exists(drv):
        h.update(open(drv, 'rb').read())
    return h.hexdigest()[:24]


def extract(profile='dev', use_cache=True, repo='/repo'):
    """Run the driver over /repo's current working tree; returns (Facts, key, seconds, cached?)."""
    t0 = time.time()
    key = tree_key(repo) + '-' + profile
    cache_dir = os.path.join(VERIF, '.cache', 'facts', key)
    if use_cache and os.path.isdir(cache_dir) and all(
            os.path.exists(os.path.join(cache_dir, c + '.json')) for c in CRATES):
        try:
            return Facts(cache_dir), key, time.time() - t0, True
        except (FactsError, ValueError, OSError):
            pass   # incomplete / concurrently replaced entry: extract again
    tmp = tempfile.mkdtemp(prefix='facts-', dir=os.path.join(VERIF, '.cache') if os.path.isdir(os.path.join(VERIF, '.cache')) else None)
    try:
        r = subprocess.run([os.path.join(VERIF, 'bin', 'extract_facts.sh'), tmp, profile, repo],
                           stdout=subprocess.PIPE, stderr=subprocess.STDOUT, text=True)
        if r.returncode != 0:
            raise FactsError('fact extraction failed (exit %d):\n%s' % (r.returncode, r.stdout[-4000:]))
        os.makedirs(os.path.dirname(cache_dir), exist_ok=True)
        try:
            os.rename(tmp, cache_dir)          # atomic; loses the race gracefully if a concurrent check got there first
        except OSError:
            if not all(os.path.exists(os.path.join(cache_dir, c + '.json')) for c in CRATES):
                shutil.rmtree(cache_dir, ignore_errors=True)
                os.rename(tmp, cache_dir)
    finally:
        if os.path.isdir(tmp):
            shutil.rmtree(tmp, ignore_errors=True)
    facts = Facts(cache_dir)
    # keep the cache small, but never remove entries another check may be loading right now: only entries that are
    # both old (> 2 h) and beyond the 40 newest are dropped
    base = os.path.dirname(cache_dir)
    try:
        ents = sorted((os.path.getmtime(os.path.join(base, e)), e) for e in os.listdir(base))
        now = time.time()
        for mt, e in ents[:-40]:
            if now - mt > 7200:
                shutil.rmtree(os.path.join(base, e), ignore_errors=True)
    except OSError:
        pass
    return facts, key, time.time() - t0, False
